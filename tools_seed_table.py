#!/usr/bin/env python3
"""Prints the markdown table of section 11 of DESIGN.md from seeded/*/meta.json (run by hand after seeded/evaluate.py)."""
import glob, json, os
HERE = os.path.dirname(os.path.abspath(__file__))
rows = []
for d in sorted(glob.glob(os.path.join(HERE, "seeded", "C*-r*"))):
    m = json.load(open(os.path.join(d, "meta.json")))
    name = os.path.basename(d)
    fires = m.get("checks_that_fire", [])
    own = m["property"] in fires
    others = [c for c in fires if c != m["property"]]
    summ = m["summary"].replace("|", "/").replace("\n", " ")
    if len(summ) > 230:
        summ = summ[:227] + "..."
    rows.append("| %s | %s | %s | %s |" % (name, summ, "**yes**" if own else "no", ", ".join(others) or "-"))
print("| change | what was changed (author's summary) | own check fires | other checks that fire |")
print("|---|---|---|---|")
print("\n".join(rows))
