"""Effect traces: for a function, every successful path (all `?` succeed, the function returns Ok / a value) as the ordered
list of its effects, with local helper functions spliced in (their parameters replaced by the caller's arguments).  Rules
about *what a muxer/reader entry point does, in which order* are stated over these traces, so they do not depend on how the
work is split into private helpers, on temporaries, or on names.

Built on pathwise (trace-partitioned abstract interpretation: infeasible paths are pruned) and mir.Body.canon_op
(canonical renderings).  Events (dicts):
  io     op (method name), trait, args [canonical], res (canonical name of the result, with call-site identity)
  push   coll, val          Vec::push
  store  place, field, adt, val      assignment to a field of a crate struct
  agg    adt, fields{name: canonical}    construction of a crate struct / enum variant
  codec  fn (resolved id), args          call of a box encoder/decoder or BoxHeader::{read,write} (not expanded)
  ext    fn (declared path), args        other external call taking `&mut`
Every event has `line`, `fn` (the function whose body contains it) and `id`."""
import re

import pathwise
from facts import short
from mir import body_of, callee_path, op_place, strip_generics
from packs_common import IO_TRAITS

MUTATORS = {"clear", "truncate", "extend_from_slice", "extend", "insert", "remove", "pop", "drain", "retain", "resize", "append", "push_str", "take",
            "replace", "swap", "split_off", "set_len", "put", "put_slice", "reserve"}
MAX_TRACES = 400
MAX_DEPTH = 5


def is_codec(fx, fid):
    fn = fx.fns.get(fid)
    if fn is None:
        return False
    ts = short((fn.get("impl") or {}).get("trait") or "")
    return ts.startswith(("WriteBox<", "ReadBox<", "WriteDesc<", "ReadDesc<")) or fid.endswith(("BoxHeader::write", "BoxHeader::read"))


class Tracer:
    def __init__(self, fx, keep=None):
        self.fx = fx
        self.memo = {}
        self.stack = []
        self.keep = keep          # predicate(event) -> keep it?  (fewer kinds => fewer distinct traces)

    def ok_traces(self, fid, depth=0):
        if fid in self.memo:
            return self.memo[fid]
        fn = self.fx.fns.get(fid)
        body = body_of(fn) if fn else None
        if body is None or depth > MAX_DEPTH or fid in self.stack:
            return None
        self.stack.append(fid)
        prev_it = getattr(self, "cur_it", None)
        try:
            out = []
            returns_result = (fn.get("output_s") or fn.get("output") or "").startswith("core::result::Result<") or "Result<" in str(fn.get("output_s") or fn.get("output") or "")
            body._cids = True
            try:
                paths = pathwise.paths(self.fx, body, max_paths=MAX_TRACES)
                for it, blocks, events, st, kind in paths:
                    if kind != "return":
                        continue
                    if not self.path_ok(body, events, st, it):
                        continue
                    self.cur_it = it
                    for tr in self.expand(fid, body, events, depth):
                        tr = list(tr)
                        tr.append({"k": "end", "fn_id": fid, "state": st, "it": it, "args": [], "line": None, "blk": blocks[-1], "ret": self.ret_canon(body, events)})
                        out.append(tr)
                        if len(out) >= MAX_TRACES:
                            break
                    if len(out) >= MAX_TRACES:
                        break
            finally:
                body._cids = False
            # drop duplicate traces
            seen = set()
            uniq = []
            for tr in out:
                k = tuple((e["k"], e.get("op"), e.get("coll"), e.get("place"), e.get("val"), tuple(e.get("args", ())), e.get("fn_id")) for e in tr if e["k"] not in ("end",))
                if k not in seen:
                    seen.add(k)
                    uniq.append(tr)
            self.memo[fid] = uniq
            return uniq
        finally:
            self.stack.pop()
            self.cur_it = prev_it          # events of the caller created after this call belong to the caller's interpreter

    def path_ok(self, body, events, st, it):
        """the path returns a success value: the last definition of the return place is not an Err / from_residual"""
        last = None
        for e in events:
            if e.kind == "assign" and e.data["place"]["l"] == 0 and not e.data["place"]["p"]:
                last = ("assign", e.data["rv"])
            elif e.kind == "call" and e.data.get("dest") and e.data["dest"]["l"] == 0 and not e.data["dest"]["p"]:
                last = ("call", e.data)
        if last is None:
            return True
        if last[0] == "assign":
            rv = last[1]
            if rv["k"] == "agg" and rv.get("variant") in ("Err",):
                return False
            return True
        p = strip_generics(last[1]["callee"].get("path") or "")
        if p.endswith("from_residual"):
            return False
        return True

    def expand(self, fid, body, events, depth):
        """list of traces for one path (callee traces multiply).  A spliced callee trace also carries what the callee
        returns; later events of the caller that mention the call's result are rewritten to that value."""
        traces = [([], {})]
        for e in events:
            evs = self.event(fid, body, e, depth)
            if evs is None:
                continue
            if isinstance(evs, list) and evs and isinstance(evs[0], tuple) and evs[0][0] == "alts":
                _, dest, alts = evs[0]
                new = []
                for tr, mp in traces:
                    for sub, ret in alts:
                        mp2 = dict(mp)
                        if dest and ret:
                            mp2[dest] = ret
                        new.append((tr + [self.remap(x, mp) for x in sub], mp2))
                        if len(new) >= MAX_TRACES:
                            break
                    if len(new) >= MAX_TRACES:
                        break
                traces = new
            else:
                for tr, mp in traces:
                    tr.extend(self.remap(x, mp) for x in evs)
        return [tr for tr, mp in traces]

    def remap(self, ev, mp):
        if not mp:
            return ev

        def rep(s):
            if not isinstance(s, str):
                return s
            for d, r in mp.items():
                if d in s:
                    s = s.replace(d, r)
            return s
        out = dict(ev)
        for k in ("coll", "val", "place", "dest"):
            if k in out:
                out[k] = rep(out[k])
        if "args" in out:
            out["args"] = [rep(a) for a in out["args"]]
        if "fields" in out:
            out["fields"] = {f: rep(v) for f, v in out["fields"].items()}
        return out

    def ret_canon(self, body, events):
        """canonical rendering of the success value the path returns (payload of Ok / Some, or the value itself)"""
        last = None
        for e in events:
            if e.kind == "assign" and e.data["place"]["l"] == 0 and not e.data["place"]["p"]:
                last = e.data["rv"]
        if last is None:
            return None
        if last["k"] == "agg" and last.get("variant") in ("Ok", "Some") and last["ops"]:
            return body.canon_op(last["ops"][0])
        if last["k"] in ("use", "cast"):
            return body.canon_op(last["a"])
        return None

    def event(self, fid, body, e, depth):
        evs = self.event0(fid, body, e, depth)
        if evs is None or self.keep is None:
            return evs
        if evs and isinstance(evs[0], tuple):
            return evs
        evs = [x for x in evs if self.keep(x)]
        return evs or None

    def event0(self, fid, body, e, depth):
        fx = self.fx
        if e.kind == "assign":
            s = e.data
            pl, rv = s["place"], s["rv"]
            out = []
            if rv["k"] == "agg" and rv.get("ak") == "adt" and rv.get("adt") in fx.adts and rv["ops"]:
                out.append({"k": "agg", "adt": short(rv["adt"]), "variant": rv.get("variant"), "fields": {f: body.canon_op(o) for f, o in zip(rv.get("fields", []), rv["ops"])},
                            "line": s.get("line"), "fn_id": fid, "blk": e.block})
            last = pl["p"][-1] if pl["p"] else None
            if isinstance(last, dict) and "f" in last and last.get("adt") in fx.adts and rv["k"] in ("use", "agg", "cast", "bin"):
                out.append({"k": "store", "place": body.canon_place(pl), "field": last["f"], "adt": short(last["adt"]), "val": body.canon_rv(rv), "line": s.get("line"), "fn_id": fid, "blk": e.block,
                            "state": e.state, "rv": rv})
            return out or None
        t = e.data
        c = t["callee"]
        decl = strip_generics(c.get("path") or "")
        res = callee_path(c)
        args = [body.canon_op(a) for a in t["args"]]
        base = {"line": t.get("line"), "fn_id": fid, "blk": e.block, "args": args, "dest": body.canon_call(t, 0, e.block) if t.get("dest") else None, "state": e.state, "term": t, "it": self.cur_it}
        if c.get("trait") in IO_TRAITS or decl.startswith(("std::io::Read::", "std::io::Write::", "std::io::Seek::")):
            return [dict(base, k="io", op=decl.split("::")[-1], trait=c.get("trait"))]
        if decl == "alloc::vec::Vec::push" and len(args) == 2:
            return [dict(base, k="push", coll=args[0], val=args[1])]
        if res in fx.fns:
            if is_codec(fx, res):
                return [dict(base, k="codec", fn=res)]
            if fx.fns[res].get("derived"):
                return None          # derived Clone / Default / PartialEq ...: no effect on anything but the value they return
            sub = self.ok_traces(res, depth + 1)
            if sub is None:
                return [dict(base, k="call", fn=res)]
            if not any([ev for ev in tr if ev["k"] != "end"] for tr in sub):
                enter = {"k": "enter", "fn": res, "args": args, "line": t.get("line"), "fn_id": fid, "blk": e.block}
                return [enter] if (self.keep is not None and self.keep(enter)) else None
            site = "c%d" % e.block
            out = []
            enter = {"k": "enter", "fn": res, "args": args, "line": t.get("line"), "fn_id": fid, "blk": e.block}
            head = [enter] if (self.keep is None or self.keep(enter)) else []
            for tr in sub:
                ends = [ev for ev in tr if ev["k"] == "end"]
                ret = self.subst({"val": ends[-1].get("ret")}, args, site)["val"] if ends and ends[-1].get("ret") else None
                out.append((head + [self.subst(ev, args, site) for ev in tr if ev["k"] != "end"], ret))
            # a callee with both empty and non-empty success traces keeps the empty alternative
            return [("alts", base["dest"], out)]
        muts = [a for a in t["args"] if (op_place(a) or {}).get("ty", "").startswith("&mut ")]
        if muts and decl.split("::")[-1] in MUTATORS:
            return [dict(base, k="ext", fn=decl, op=decl.split("::")[-1])]
        return None

    def subst(self, ev, args, site):
        def rep(s):
            if not isinstance(s, str):
                return s
            s = re.sub(r"@((?:c\d+\.)*)b(\d+)", lambda m: "@%s.%sb%s" % (site, m.group(1) or "", m.group(2)), s)
            return re.sub(r"\$(\d+)", lambda m: args[int(m.group(1)) - 1] if int(m.group(1)) - 1 < len(args) else m.group(0), s)
        out = dict(ev)
        for k in ("coll", "val", "place", "dest"):
            if k in out:
                out[k] = rep(out[k])
        if "args" in out:
            out["args"] = [rep(a) for a in out["args"]]
        if "fields" in out:
            out["fields"] = {f: rep(v) for f, v in out["fields"].items()}
        out["via"] = (out.get("via") or []) + [site]
        return out


def show(tr):
    out = []
    for e in tr:
        k = e["k"]
        if k == "io":
            out.append("io:%s(%s)" % (e["op"], ", ".join(e["args"][1:])))
        elif k == "push":
            out.append("push(%s <- %s)" % (e["coll"], e["val"]))
        elif k == "store":
            out.append("%s = %s" % (e["place"], e["val"]))
        elif k == "agg":
            out.append("new %s{%s}" % (e["adt"], ", ".join("%s: %s" % kv for kv in e["fields"].items())))
        elif k == "codec":
            out.append("codec:%s(%s)" % (e["fn"].split("::")[-3:] and "::".join(e["fn"].split("::")[-2:]), ", ".join(e["args"])))
        elif k in ("end", "enter"):
            continue
        else:
            out.append("%s:%s(%s)" % (k, (e.get("fn") or "").split("::")[-1], ", ".join(e["args"])))
    return out
