"""P6: table extraction from `match` arms and constants (HIR), plus a small constant evaluator."""
import hirq


class NotConst(Exception):
    pass


def const_value(fx, def_path, depth=0):
    """python value of a `const` item: int | str | tuple(bytes...)"""
    c = fx.consts.get(def_path)
    if c is None:
        raise NotConst(def_path)
    if c.get("val") is not None:
        v = c["val"]
        return int(v) if isinstance(v, str) else v
    h = c.get("hir")
    if not h:
        raise NotConst(def_path)
    return eval_const(fx, h["body"], depth + 1)


def _is_int(ty):
    import re
    return re.match(r"[iu](8|16|32|64|128|size)$", ty) is not None


def eval_const(fx, n, depth=0):
    if depth > 12:
        raise NotConst("depth")
    k = n.get("k")
    if k == "lit":
        v = n.get("val")
        lk = n.get("lk")
        if lk in ("int", "byte", "char"):
            return int(v)
        if lk == "str":
            return v
        if lk == "bytes":
            return tuple(v)
        if lk == "bool":
            return bool(v)
        raise NotConst(lk)
    if k == "array":
        return tuple(eval_const(fx, e, depth + 1) for e in n["es"])
    if k == "tup":
        return tuple(eval_const(fx, e, depth + 1) for e in n["es"])
    if k == "block" and not n.get("stmts") and "expr" in n:
        return eval_const(fx, n["expr"], depth + 1)
    if k == "path" and n.get("res") == "def" and n.get("dk", "").startswith(("Const", "AssocConst")):
        if n.get("val") is not None:
            v = n["val"]
            return int(v) if isinstance(v, str) else v
        return const_value(fx, n["def"], depth + 1)
    if k == "un" and n.get("op") == "Neg":
        return -eval_const(fx, n["e"], depth + 1)
    if k == "cast":
        return eval_const(fx, n["e"], depth + 1)
    if k == "addrof":
        return eval_const(fx, n["e"], depth + 1)
    # lossless integer conversions of a constant: u64::from(u32::MAX), u32::MAX.into()
    if k == "call" and (n.get("fn") or "").endswith(("From::from", "Into::into")) and len(n.get("args", [])) == 1 and _is_int(n.get("ty", "")):
        return eval_const(fx, n["args"][0], depth + 1)
    if k == "mcall" and n.get("m") == "into" and not n.get("args") and _is_int(n.get("ty", "")):
        return eval_const(fx, n["recv"], depth + 1)
    if k == "bin":
        a = eval_const(fx, n["l"], depth + 1)
        b = eval_const(fx, n["r"], depth + 1)
        op = n["op"]
        if isinstance(a, int) and isinstance(b, int):
            return {"Add": a + b, "Sub": a - b, "Mul": a * b, "BitAnd": a & b, "BitOr": a | b,
                    "Shl": a << b, "Shr": a >> b, "BitXor": a ^ b}.get(op, None)
    raise NotConst(k)


# ---- patterns ---------------------------------------------------------------

def pat_norm(fx, p):
    """normalise a pattern into a hashable term:
       ('wild',) ('bind', name) ('int', v) ('str', s) ('bytes', tuple) ('range', lo, hi)
       ('variant', path, [subpats]) ('tuple', [..]) ('or', [..]) ('ref', p) ('other', kind)"""
    k = p.get("k")
    if k == "wild":
        return ("wild",)
    if k == "bind":
        if "sub" in p:
            return pat_norm(fx, p["sub"])
        return ("bind", p["name"])
    if k == "expr":
        return pat_expr_norm(fx, p["e"])
    if k == "range":
        lo = pat_expr_norm(fx, p["lo"]) if p.get("lo") else None
        hi = pat_expr_norm(fx, p["hi"]) if p.get("hi") else None
        lo_v = lo[1] if lo else None
        hi_v = hi[1] if hi else None
        if hi_v is not None and not p.get("inclusive"):
            hi_v -= 1
        return ("range", lo_v, hi_v)
    if k == "tuplestruct":
        return ("variant", p.get("def"), tuple(pat_norm(fx, s) for s in p["subs"]))
    if k == "struct":
        return ("variant", p.get("def"), tuple((f["name"], pat_norm(fx, f["pat"])) for f in p["fields"]))
    if k == "tuple":
        return ("tuple", tuple(pat_norm(fx, s) for s in p["subs"]))
    if k == "or":
        return ("or", tuple(pat_norm(fx, s) for s in p["subs"]))
    if k in ("ref", "deref"):
        return pat_norm(fx, p["sub"])
    if k == "slice":
        return ("slice", tuple(pat_norm(fx, s) for s in p["before"]), p.get("mid") is not None, tuple(pat_norm(fx, s) for s in p["after"]))
    return ("other", k)


def pat_expr_norm(fx, e):
    if e["k"] == "lit":
        lk = e.get("lk")
        v = e.get("val")
        if lk in ("int", "byte", "char"):
            return ("int", int(v))
        if lk == "str":
            return ("str", v)
        if lk == "bytes":
            return ("bytes", tuple(v))
        if lk == "bool":
            return ("int", 1 if v else 0)
        return ("other", lk)
    if e["k"] == "path":
        dk = e.get("dk", "")
        if dk.startswith(("Const", "AssocConst")):
            try:
                if e.get("val") is not None:
                    v = e["val"]
                    return ("int", int(v))
                v = const_value(fx, e["def"])
            except NotConst:
                return ("constpath", e.get("def"))
            if isinstance(v, int):
                return ("int", v)
            if isinstance(v, str):
                return ("str", v)
            if isinstance(v, tuple):
                return ("bytes", v)
        if dk.startswith("Ctor") or dk in ("Variant",):
            return ("variant", e.get("ctor_of") or e.get("def"), ())
        return ("path", e.get("def"))
    return ("other", e["k"])


# ---- results ------------------------------------------------------------------

def peel(n):
    """strip blocks with a single tail expression and method-call wrappers that do not change identity"""
    while True:
        k = n.get("k")
        if k == "block" and not n.get("stmts") and "expr" in n:
            n = n["expr"]
            continue
        return n


def result_norm(fx, n):
    """normalise an arm body: ('ok', X) ('err',) ('variant', path, args) ('int', v) ('str', s) ('bytes', t) ('ret', X) ('expr', str)"""
    n = peel(n)
    k = n.get("k")
    if k == "call" and n.get("dk", "").startswith("Ctor"):
        fnp = n.get("fn") or ""
        if fnp.endswith("Result::Ok"):
            return ("ok", result_norm(fx, n["args"][0]))
        if fnp.endswith("Result::Err"):
            return ("err",)
        if fnp.endswith("Option::Some"):
            return ("some", result_norm(fx, n["args"][0]))
        return ("variant", n.get("ctor_of") or fnp, tuple(result_norm(fx, a) for a in n["args"]))
    if k == "path":
        dk = n.get("dk", "")
        if n.get("res") == "local":
            return ("local", n["name"])
        if dk.startswith("Ctor"):
            return ("variant", n.get("ctor_of") or n.get("def"), ())
        if dk.startswith(("Const", "AssocConst")):
            try:
                v = eval_const(fx, n)
                return _val(v)
            except NotConst:
                return ("constpath", n.get("def"))
        return ("path", n.get("def"))
    if k == "lit":
        try:
            return _val(eval_const(fx, n))
        except NotConst:
            return ("expr", hirq.expr_str(n))
    if k == "ret":
        return ("ret", result_norm(fx, n["e"])) if "e" in n else ("ret", None)
    if k == "mcall" and n["m"] == "into" and not n["args"]:
        return result_norm(fx, n["recv"])
    if k == "call" and (n.get("fn") or "").endswith("From::from") and len(n["args"]) == 1:
        return result_norm(fx, n["args"][0])
    if k == "struct":
        return ("struct", n.get("def"), tuple((f["name"], result_norm(fx, f["e"])) for f in n["fields"]))
    return ("expr", hirq.expr_str(n))


def _val(v):
    if isinstance(v, bool):
        return ("int", int(v))
    if isinstance(v, int):
        return ("int", v)
    if isinstance(v, str):
        return ("str", v)
    if isinstance(v, tuple):
        return ("bytes", v)
    return ("expr", str(v))


def find_match(fn, scrut_pred=None):
    """the outermost `match` (source = match) in a function body"""
    root = hirq.body_root(fn)
    for n, ps in hirq.walk(root):
        if n.get("k") == "match" and n.get("src") == "match":
            if scrut_pred is None or scrut_pred(n["scrut"]):
                return n
    return None


def match_table(fx, m):
    """[(pattern term, result term, arm)]"""
    return [(pat_norm(fx, a["pat"]), result_norm(fx, a["body"]), a) for a in m["arms"]]


def ifchain_table(fx, fn):
    """a conversion written as `if x == A { .. } else if x == B { .. } else { .. }` on one subject, read as a match table:
    [(pattern term, result term, arm-like dict)] or None"""
    root = hirq.body_root(fn)
    e = root.get("expr") if root.get("k") == "block" else root
    if not isinstance(e, dict):
        return None
    e = peel(e)
    out = []
    subject = None
    while isinstance(e, dict) and e.get("k") == "if":
        c = e["cond"]
        if c.get("k") != "bin" or c.get("op") != "Eq":
            return None
        sides = []
        for side, other in ((c["l"], c["r"]), (c["r"], c["l"])):
            x = side
            while x.get("k") in ("addrof",) or (x.get("k") == "un" and x.get("op") == "Deref"):
                x = x["e"]
            pn = pat_expr_norm(fx, x) if x.get("k") in ("lit", "path") else ("other",)
            if pn[0] in ("int", "str", "bytes"):
                sides.append((pn, other, x))
        if len(sides) != 1:
            return None
        pn, other, cnode = sides[0]
        subj = hirq.expr_str(other)
        if subject is None:
            subject = subj
        elif subject != subj:
            return None
        out.append((pn, result_norm(fx, e["then"]), {"pat": {"k": "expr", "e": cnode}, "body": e["then"], "line": e.get("line")}))
        if "else" not in e:
            return None
        e = peel(e["else"])
    if not out:
        return None
    out.append((("wild",), result_norm(fx, e), {"pat": {"k": "wild"}, "body": e, "line": e.get("line")}))
    return out


def threshold_table(fx, fn):
    """a function of one integer written as range arms or as an if / else-if chain of `x < c` / `x <= c` tests on one
    subject with constant results: [(inclusive upper bound or None for the rest, result int)] in order, or None"""
    m = find_match(fn)
    if m is not None:
        out = []
        for p, r, _ in match_table(fx, m):
            if r[0] != "int":
                return None
            if p[0] == "range" and p[2] is not None:
                out.append((p[2], r[1]))
            elif p[0] == "int":
                out.append((p[1], r[1]))
            elif p[0] in ("wild", "bind"):
                out.append((None, r[1]))
            else:
                return None
        return out
    root = hirq.body_root(fn)
    e = root.get("expr") if root.get("k") == "block" else root
    if not isinstance(e, dict):
        return None
    e = peel(e)
    out = []
    subject = None
    while isinstance(e, dict) and e.get("k") == "if":
        c = e["cond"]
        if c.get("k") != "bin" or c.get("op") not in ("Lt", "Le", "Gt", "Ge"):
            return None
        try:
            if c["op"] in ("Lt", "Le"):
                subj, bound = hirq.expr_str(c["l"]), eval_const(fx, c["r"])
                ub = bound - 1 if c["op"] == "Lt" else bound
            else:
                # c >= x  /  c > x
                subj, bound = hirq.expr_str(c["r"]), eval_const(fx, c["l"])
                ub = bound if c["op"] == "Ge" else bound - 1
        except NotConst:
            return None
        if subject is None:
            subject = subj
        elif subject != subj:
            return None
        r = result_norm(fx, e["then"])
        if r[0] != "int" or "else" not in e:
            return None
        out.append((ub, r[1]))
        e = peel(e["else"])
    if not out:
        return None
    r = result_norm(fx, e)
    if r[0] != "int":
        return None
    out.append((None, r[1]))
    return out


def fourcc_of(code):
    return bytes([(code >> 24) & 255, (code >> 16) & 255, (code >> 8) & 255, code & 255]).decode("latin-1")


def resolve_conv(fx, n):
    """identity of the conversion a call/method-call node performs, seeing through the blanket
    `impl<T, U: From<T>> Into<U> for T`: returns the local `From::from` fn id when there is one."""
    import re
    from facts import short
    r = n.get("resolved") or n.get("fn")
    if r and r in fx.fns:
        return r
    full = n.get("fn_full") or ""
    m = re.match(r"<(.+) as core::convert::Into<(.+)>>::into$", full)
    if m:
        src, dst = m.group(1), m.group(2)
        f = fx.impl_fn(short(dst), "From<%s>" % short(src), "from")
        if f is not None:
            return f["id"]
    m = re.match(r"<(.+) as core::convert::From<(.+)>>::from$", full)
    if m:
        dst, src = m.group(1), m.group(2)
        f = fx.impl_fn(short(dst), "From<%s>" % short(src), "from")
        if f is not None:
            return f["id"]
    return r
