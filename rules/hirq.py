"""Queries over the simplified HIR tree emitted by the driver."""

EXPR_KEYS = ("f", "recv", "l", "r", "e", "init", "cond", "then", "else", "body", "scrut", "expr", "base", "iter", "i")
LIST_KEYS = ("es", "args")


def children(n):
    """direct child *expression* nodes of an expression/statement/block node, in evaluation order"""
    out = []
    k = n.get("k")
    if k in ("block",):
        for s in n.get("stmts", []):
            out.append(s)
        if "expr" in n:
            out.append(n["expr"])
        return out
    if k in ("let",):
        if "init" in n:
            out.append(n["init"])
        if "else" in n:
            out.append(n["else"])
        return out
    if k in ("expr", "semi"):
        return [n["e"]]
    if k == "match":
        out.append(n["scrut"])
        for a in n["arms"]:
            if "guard" in a:
                out.append(a["guard"])
            out.append(a["body"])
        return out
    if k == "struct":
        for f in n.get("fields", []):
            out.append(f["e"])
        if isinstance(n.get("base"), dict):
            out.append(n["base"])
        return out
    if k == "mcall":
        out.append(n["recv"])
        out.extend(n["args"])
        return out
    if k == "call":
        if "f" in n:
            out.append(n["f"])
        out.extend(n["args"])
        return out
    if k == "for":
        return [n["iter"], n["body"]]
    if k == "while":
        return [n["cond"], n["body"]]
    if k == "if":
        out = [n["cond"], n["then"]]
        if "else" in n:
            out.append(n["else"])
        return out
    if k == "letx":
        return [n["init"]]
    if k == "index":
        return [n["e"], n["i"]]
    if k in ("bin", "assign", "assignop"):
        return [n["l"], n["r"]]
    if k == "closure":
        return [n["body"]]
    if k == "loop":
        return [n["body"]]
    for key in LIST_KEYS:
        if key in n and isinstance(n[key], list):
            out.extend(x for x in n[key] if isinstance(x, dict))
    for key in EXPR_KEYS:
        v = n.get(key)
        if isinstance(v, dict) and "k" in v:
            out.append(v)
    return out


def walk(n, parents=()):
    """pre-order traversal yielding (node, parents tuple)"""
    stack = [(n, parents)]
    while stack:
        node, ps = stack.pop()
        yield node, ps
        cs = children(node)
        nps = ps + (node,)
        for c in reversed(cs):
            stack.append((c, nps))


def body_root(fn):
    h = fn.get("hir")
    if not h:
        return None
    return h["body"]


def find(fn_or_node, pred):
    root = fn_or_node["hir"]["body"] if "hir" in fn_or_node else fn_or_node
    if root is None:
        return
    for n, ps in walk(root):
        if pred(n):
            yield n, ps


def callee_of(n):
    """resolved identity of a call / method call node: (decl path, resolved path or None)"""
    if n.get("k") in ("call", "mcall"):
        return n.get("fn"), n.get("resolved")
    return None, None


def callee_id(n):
    d, r = callee_of(n)
    return r or d


def strip_wrappers(n):
    """peel addrof/cast/paren-like wrappers"""
    while n.get("k") in ("addrof",) or (n.get("k") == "un" and n.get("op") == "Deref"):
        n = n["e"]
    return n


def path_str(n):
    """render a place-like expression: self.a.b / local / Const path"""
    k = n.get("k")
    if k == "path":
        if n.get("res") == "local":
            return n["name"]
        return (n.get("def") or "?").split("::")[-1]
    if k == "field":
        return path_str(n["e"]) + "." + n["name"]
    if k == "addrof":
        return path_str(n["e"])
    if k == "un" and n.get("op") == "Deref":
        return path_str(n["e"])
    if k == "index":
        return path_str(n["e"]) + "[" + expr_str(n["i"]) + "]"
    if k == "mcall":
        return path_str(n["recv"]) + "." + n["m"] + "()"
    return None


def expr_str(n, depth=0):
    """compact rendering of an expression for keys and reports (no line numbers)"""
    if depth > 8:
        return "…"
    k = n.get("k")
    if k == "lit":
        v = n.get("val")
        if n.get("lk") == "str":
            return '"%s"' % v
        return str(v)
    if k in ("path", "field"):
        return path_str(n) or "?"
    if k == "addrof":
        return ("&mut " if n.get("mut") else "&") + expr_str(n["e"], depth + 1)
    if k == "un":
        op = {"Deref": "*", "Not": "!", "Neg": "-"}.get(n.get("op"), n.get("op"))
        return op + expr_str(n["e"], depth + 1)
    if k == "bin":
        return "(%s %s %s)" % (expr_str(n["l"], depth + 1), n["op"], expr_str(n["r"], depth + 1))
    if k == "cast":
        return "%s as %s" % (expr_str(n["e"], depth + 1), n.get("ty"))
    if k == "mcall":
        return "%s.%s(%s)" % (expr_str(n["recv"], depth + 1), n["m"], ", ".join(expr_str(a, depth + 1) for a in n["args"]))
    if k == "call":
        fn = (n.get("fn") or "?")
        segs = fn.split("::")
        nm = "::".join(segs[-2:])
        return "%s(%s)" % (nm, ", ".join(expr_str(a, depth + 1) for a in n["args"]))
    if k == "try":
        return expr_str(n["e"], depth + 1) + "?"
    if k == "index":
        return "%s[%s]" % (expr_str(n["e"], depth + 1), expr_str(n["i"], depth + 1))
    if k == "tup":
        return "(%s)" % ", ".join(expr_str(a, depth + 1) for a in n["es"])
    if k == "struct":
        return "%s{..}" % (n.get("def") or "?").split("::")[-1]
    if k == "block":
        if not n.get("stmts") and "expr" in n:
            return expr_str(n["expr"], depth + 1)
        return "{..}"
    if k == "if":
        return "if %s {..}" % expr_str(n["cond"], depth + 1)
    if k == "match":
        return "match %s {..}" % expr_str(n["scrut"], depth + 1)
    if k == "closure":
        return "|..| " + expr_str(n["body"], depth + 1)
    if k == "repeat":
        return "[%s; _]" % expr_str(n["e"], depth + 1)
    if k == "array":
        return "[%s]" % ", ".join(expr_str(a, depth + 1) for a in n["es"])
    if k == "letx":
        return "let %s = %s" % (pat_str(n["pat"]), expr_str(n["init"], depth + 1))
    if k == "ret":
        return "return " + (expr_str(n["e"], depth + 1) if "e" in n else "")
    return k or "?"


def pat_str(p):
    k = p.get("k")
    if k == "bind":
        return p["name"]
    if k == "wild":
        return "_"
    if k == "expr":
        e = p["e"]
        if e["k"] == "lit":
            return str(e.get("val"))
        return (e.get("def") or "?").split("::")[-1]
    if k == "tuplestruct":
        return "%s(%s)" % ((p.get("def") or "?").split("::")[-1], ", ".join(pat_str(s) for s in p["subs"]))
    if k == "struct":
        return "%s{%s}" % ((p.get("def") or "?").split("::")[-1], ", ".join(f["name"] for f in p["fields"]))
    if k == "tuple":
        return "(%s)" % ", ".join(pat_str(s) for s in p["subs"])
    if k == "or":
        return " | ".join(pat_str(s) for s in p["subs"])
    if k == "range":
        lo = pat_str({"k": "expr", "e": p["lo"]}) if p.get("lo") else ""
        hi = pat_str({"k": "expr", "e": p["hi"]}) if p.get("hi") else ""
        return "%s..%s%s" % (lo, "=" if p.get("inclusive") else "", hi)
    if k == "ref":
        return "&" + pat_str(p["sub"])
    return k or "?"


def pat_bindings(p, out=None):
    """all binding names introduced by a pattern"""
    if out is None:
        out = []
    k = p.get("k")
    if k == "bind":
        out.append((p["name"], p.get("lid")))
        if "sub" in p:
            pat_bindings(p["sub"], out)
    for key in ("subs", "before", "after"):
        for s in p.get(key, []) or []:
            pat_bindings(s, out)
    if k == "struct":
        for f in p["fields"]:
            pat_bindings(f["pat"], out)
    for key in ("sub", "mid"):
        if isinstance(p.get(key), dict) and k != "bind":
            pat_bindings(p[key], out)
    return out


def alpha(n, ren=None):
    """dump() with local variable names replaced by their order of first appearance (alpha-equivalence): renaming a
    local in one copy of duplicated code is not a difference"""
    import re
    s = dump(n, ren)
    names = {}
    for m, _ in walk(n):
        if m.get("k") == "path" and m.get("res") == "local":
            names.setdefault(m["name"], None)
        for key in ("pat",):
            if isinstance(m.get(key), dict):
                for nm, _l in pat_bindings(m[key]):
                    names.setdefault(nm, None)
        if m.get("k") == "match":
            for a in m["arms"]:
                for nm, _l in pat_bindings(a["pat"]):
                    names.setdefault(nm, None)
        if m.get("k") == "closure":
            for p in m.get("params", []):
                for nm, _l in pat_bindings(p):
                    names.setdefault(nm, None)
    # order of first textual appearance
    order = sorted(names, key=lambda nm: (re.search(r"(?<![A-Za-z0-9_.])%s(?![A-Za-z0-9_])" % re.escape(nm), s) or re.search("$", s)).start())
    for i, nm in enumerate(order):
        s = re.sub(r"(?<![A-Za-z0-9_.])%s(?![A-Za-z0-9_])" % re.escape(nm), "v%d" % i, s)
    return s


def dump(n, ren=None, depth=0):
    """canonical structural rendering of a whole HIR subtree (statements included); `ren` renames rendered paths
    (used by the sibling-diff rule P9)"""
    if n is None:
        return ""
    if depth > 40:
        return "…"
    k = n.get("k")

    def d(x):
        return dump(x, ren, depth + 1)
    if k == "block":
        parts = [d(s) for s in n.get("stmts", [])]
        if "expr" in n:
            parts.append(d(n["expr"]))
        return "{" + "; ".join(parts) + "}"
    if k == "let":
        s = "let %s" % pat_str(n["pat"])
        if "init" in n:
            s += " = " + d(n["init"])
        if "else" in n:
            s += " else " + d(n["else"])
        return s
    if k in ("semi", "expr"):
        return d(n["e"])
    if k == "if":
        s = "if %s %s" % (d(n["cond"]), d(n["then"]))
        if "else" in n:
            s += " else " + d(n["else"])
        return s
    if k == "letx":
        return "let %s = %s" % (pat_str(n["pat"]), d(n["init"]))
    if k == "match":
        return "match %s {%s}" % (d(n["scrut"]), ", ".join("%s => %s" % (pat_str(a["pat"]), d(a["body"])) for a in n["arms"]))
    if k == "for":
        return "for %s in %s %s" % (pat_str(n["pat"]), d(n["iter"]), d(n["body"]))
    if k == "while":
        return "while %s %s" % (d(n["cond"]), d(n["body"]))
    if k == "loop":
        return "loop " + d(n["body"])
    if k == "try":
        return d(n["e"]) + "?"
    if k == "ret":
        return "return " + (d(n["e"]) if "e" in n else "")
    if k == "break":
        return "break"
    if k == "continue":
        return "continue"
    if k == "assign":
        return "%s = %s" % (d(n["l"]), d(n["r"]))
    if k == "assignop":
        return "%s %s= %s" % (d(n["l"]), n["op"], d(n["r"]))
    if k in ("path", "field"):
        s = path_str(n) or "?"
        if ren:
            for a, b in ren:
                if s == a or s.startswith(a + "."):
                    s = b + s[len(a):]
        return s
    if k == "addrof":
        return d(n["e"])
    if k == "un":
        if n.get("op") == "Deref":
            return d(n["e"])
        return {"Not": "!", "Neg": "-"}.get(n.get("op"), n.get("op")) + d(n["e"])
    if k == "bin":
        return "(%s %s %s)" % (d(n["l"]), n["op"], d(n["r"]))
    if k == "cast":
        return "%s as %s" % (d(n["e"]), n.get("ty"))
    if k == "mcall":
        return "%s.%s(%s)" % (d(n["recv"]), n["m"], ", ".join(d(a) for a in n["args"]))
    if k == "call":
        fn = (n.get("fn") or "?").split("::")
        return "%s(%s)" % ("::".join(fn[-2:]), ", ".join(d(a) for a in n["args"]))
    if k == "index":
        return "%s[%s]" % (d(n["e"]), d(n["i"]))
    if k == "tup":
        return "(%s)" % ", ".join(d(a) for a in n["es"])
    if k == "array":
        return "[%s]" % ", ".join(d(a) for a in n["es"])
    if k == "struct":
        return "%s{%s}" % ((n.get("def") or "?").split("::")[-1], ", ".join("%s: %s" % (f["name"], d(f["e"])) for f in n["fields"]))
    if k == "closure":
        return "|%s| %s" % (", ".join(pat_str(p) for p in n.get("params", [])), d(n["body"]))
    if k == "lit":
        return str(n.get("val"))
    if k == "repeat":
        return "[%s; _]" % d(n["e"])
    return k or "?"


# ---------------------------------------------------------------------------------------------------------------------------
# Layout view of a function body: iterator combinators that are loops in disguise are shown as `for` loops, so that the stream
# operations inside their closures are seen where they execute.
_layout_memo = {}


def layout_root(fn):
    h = fn.get("hir")
    if not h:
        return None
    key = id(h)
    if key not in _layout_memo:
        import copy
        _layout_memo[key] = _desugar(copy.deepcopy(h["body"]))
    return _layout_memo[key]


def _as_for(recv, clo, line):
    ps = clo.get("params", [])
    pat = ps[0] if len(ps) == 1 else {"k": "wild"}
    return {"k": "for", "pat": pat, "iter": recv, "body": clo["body"], "ty": "()", "line": line, "exp": "desugar:closure"}


def _desugar(n):
    if isinstance(n, list):
        return [_desugar(x) for x in n]
    if not isinstance(n, dict):
        return n
    for k, v in list(n.items()):
        if isinstance(v, (dict, list)):
            n[k] = _desugar(v)
    k = n.get("k")
    # recv.try_for_each(|p| body) / recv.for_each(|p| body)  ==  for p in recv { body }
    if k == "mcall" and n.get("m") in ("try_for_each", "for_each") and len(n.get("args", [])) == 1 and n["args"][0].get("k") == "closure":
        return _as_for(n["recv"], n["args"][0], n.get("line"))
    if k == "block":
        stmts = n.get("stmts", [])
        # let it = recv.map(|p| e);  ...  for x in it { body }   ==   for p in recv { let x = e; body }
        for i, s in enumerate(stmts):
            if s.get("k") == "let" and s.get("pat", {}).get("k") == "bind" and isinstance(s.get("init"), dict):
                init = s["init"]
                if init.get("k") == "mcall" and init.get("m") == "map" and len(init.get("args", [])) == 1 and init["args"][0].get("k") == "closure":
                    lid = s["pat"].get("lid")
                    uses = [(x, ps) for x, ps in walk(n) if x.get("k") == "path" and x.get("res") == "local" and x.get("lid") == lid]
                    fors = [x for x, _ in walk(n) if x.get("k") == "for" and strip_wrappers(x["iter"]).get("k") == "path" and strip_wrappers(x["iter"]).get("lid") == lid]
                    if len(uses) == 1 and len(fors) == 1:
                        f = fors[0]
                        clo = init["args"][0]
                        ps_ = clo.get("params", [])
                        inner = {"k": "block", "ty": f["body"].get("ty"), "line": f.get("line"),
                                 "stmts": [{"k": "let", "pat": f["pat"], "init": clo["body"], "line": clo.get("line")}, {"k": "expr", "e": f["body"], "line": f.get("line")}]}
                        f["pat"] = ps_[0] if len(ps_) == 1 else {"k": "wild"}
                        f["iter"] = init["recv"]
                        f["body"] = inner
                        n["stmts"] = stmts[:i] + stmts[i + 1:]
                        return _desugar_done(n)
    return n


def _desugar_done(n):
    return n


def io_closures(root, is_io):
    """closure nodes (left after desugaring) whose body performs stream I/O according to predicate is_io(call node)"""
    out = []
    for n, _ in walk(root):
        if n.get("k") == "closure":
            if any(m.get("k") in ("call", "mcall") and is_io(m) for m, _ in walk(n["body"])):
                out.append(n)
    return out
