"""Queries over the simplified HIR tree emitted by the driver."""

EXPR_KEYS = ("f", "recv", "l", "r", "e", "init", "cond", "then", "else", "body", "scrut", "expr", "base", "iter", "i")
LIST_KEYS = ("es", "args")


def children(n):
    """direct child *expression* nodes of an expression/statement/block node, in evaluation order"""
    out = []
    k = n.get("k")
    if k in ("block",):
        for s in n.get("stmts", []):
            out.append(s)
        if "expr" in n:
            out.append(n["expr"])
        return out
    if k in ("let",):
        if "init" in n:
            out.append(n["init"])
        if "else" in n:
            out.append(n["else"])
        return out
    if k in ("expr", "semi"):
        return [n["e"]]
    if k == "match":
        out.append(n["scrut"])
        for a in n["arms"]:
            if "guard" in a:
                out.append(a["guard"])
            out.append(a["body"])
        return out
    if k == "struct":
        for f in n.get("fields", []):
            out.append(f["e"])
        if isinstance(n.get("base"), dict):
            out.append(n["base"])
        return out
    if k == "mcall":
        out.append(n["recv"])
        out.extend(n["args"])
        return out
    if k == "call":
        if "f" in n:
            out.append(n["f"])
        out.extend(n["args"])
        return out
    if k == "for":
        return [n["iter"], n["body"]]
    if k == "while":
        return [n["cond"], n["body"]]
    if k == "if":
        out = [n["cond"], n["then"]]
        if "else" in n:
            out.append(n["else"])
        return out
    if k == "letx":
        return [n["init"]]
    if k == "index":
        return [n["e"], n["i"]]
    if k in ("bin", "assign", "assignop"):
        return [n["l"], n["r"]]
    if k == "closure":
        return [n["body"]]
    if k == "loop":
        return [n["body"]]
    for key in LIST_KEYS:
        if key in n and isinstance(n[key], list):
            out.extend(x for x in n[key] if isinstance(x, dict))
    for key in EXPR_KEYS:
        v = n.get(key)
        if isinstance(v, dict) and "k" in v:
            out.append(v)
    return out


def walk(n, parents=()):
    """pre-order traversal yielding (node, parents tuple)"""
    stack = [(n, parents)]
    while stack:
        node, ps = stack.pop()
        yield node, ps
        cs = children(node)
        nps = ps + (node,)
        for c in reversed(cs):
            stack.append((c, nps))


def body_root(fn):
    h = fn.get("hir")
    if not h:
        return None
    return h["body"]


def find(fn_or_node, pred):
    root = fn_or_node["hir"]["body"] if "hir" in fn_or_node else fn_or_node
    if root is None:
        return
    for n, ps in walk(root):
        if pred(n):
            yield n, ps


def callee_of(n):
    """resolved identity of a call / method call node: (decl path, resolved path or None)"""
    if n.get("k") in ("call", "mcall"):
        return n.get("fn"), n.get("resolved")
    return None, None


def callee_id(n):
    d, r = callee_of(n)
    return r or d


def strip_wrappers(n):
    """peel addrof/cast/paren-like wrappers"""
    while n.get("k") in ("addrof",) or (n.get("k") == "un" and n.get("op") == "Deref"):
        n = n["e"]
    return n


def path_str(n):
    """render a place-like expression: self.a.b / local / Const path"""
    k = n.get("k")
    if k == "path":
        if n.get("res") == "local":
            return n["name"]
        return (n.get("def") or "?").split("::")[-1]
    if k == "field":
        return path_str(n["e"]) + "." + n["name"]
    if k == "addrof":
        return path_str(n["e"])
    if k == "un" and n.get("op") == "Deref":
        return path_str(n["e"])
    if k == "index":
        return path_str(n["e"]) + "[" + expr_str(n["i"]) + "]"
    if k == "mcall":
        return path_str(n["recv"]) + "." + n["m"] + "()"
    return None


def expr_str(n, depth=0):
    """compact rendering of an expression for keys and reports (no line numbers)"""
    if depth > 8:
        return "…"
    k = n.get("k")
    if k == "lit":
        v = n.get("val")
        if n.get("lk") == "str":
            return '"%s"' % v
        return str(v)
    if k in ("path", "field"):
        return path_str(n) or "?"
    if k == "addrof":
        return ("&mut " if n.get("mut") else "&") + expr_str(n["e"], depth + 1)
    if k == "un":
        op = {"Deref": "*", "Not": "!", "Neg": "-"}.get(n.get("op"), n.get("op"))
        return op + expr_str(n["e"], depth + 1)
    if k == "bin":
        return "(%s %s %s)" % (expr_str(n["l"], depth + 1), n["op"], expr_str(n["r"], depth + 1))
    if k == "cast":
        return "%s as %s" % (expr_str(n["e"], depth + 1), n.get("ty"))
    if k == "mcall":
        return "%s.%s(%s)" % (expr_str(n["recv"], depth + 1), n["m"], ", ".join(expr_str(a, depth + 1) for a in n["args"]))
    if k == "call":
        fn = (n.get("fn") or "?")
        segs = fn.split("::")
        nm = "::".join(segs[-2:])
        return "%s(%s)" % (nm, ", ".join(expr_str(a, depth + 1) for a in n["args"]))
    if k == "try":
        return expr_str(n["e"], depth + 1) + "?"
    if k == "index":
        return "%s[%s]" % (expr_str(n["e"], depth + 1), expr_str(n["i"], depth + 1))
    if k == "tup":
        return "(%s)" % ", ".join(expr_str(a, depth + 1) for a in n["es"])
    if k == "struct":
        return "%s{..}" % (n.get("def") or "?").split("::")[-1]
    if k == "block":
        if not n.get("stmts") and "expr" in n:
            return expr_str(n["expr"], depth + 1)
        return "{..}"
    if k == "if":
        return "if %s {..}" % expr_str(n["cond"], depth + 1)
    if k == "match":
        return "match %s {..}" % expr_str(n["scrut"], depth + 1)
    if k == "closure":
        return "|..| " + expr_str(n["body"], depth + 1)
    if k == "repeat":
        return "[%s; _]" % expr_str(n["e"], depth + 1)
    if k == "array":
        return "[%s]" % ", ".join(expr_str(a, depth + 1) for a in n["es"])
    if k == "letx":
        return "let %s = %s" % (pat_str(n["pat"]), expr_str(n["init"], depth + 1))
    if k == "ret":
        return "return " + (expr_str(n["e"], depth + 1) if "e" in n else "")
    return k or "?"


def pat_str(p):
    k = p.get("k")
    if k == "bind":
        return p["name"]
    if k == "wild":
        return "_"
    if k == "expr":
        e = p["e"]
        if e["k"] == "lit":
            return str(e.get("val"))
        return (e.get("def") or "?").split("::")[-1]
    if k == "tuplestruct":
        return "%s(%s)" % ((p.get("def") or "?").split("::")[-1], ", ".join(pat_str(s) for s in p["subs"]))
    if k == "struct":
        return "%s{%s}" % ((p.get("def") or "?").split("::")[-1], ", ".join(f["name"] for f in p["fields"]))
    if k == "tuple":
        return "(%s)" % ", ".join(pat_str(s) for s in p["subs"])
    if k == "or":
        return " | ".join(pat_str(s) for s in p["subs"])
    if k == "range":
        lo = pat_str({"k": "expr", "e": p["lo"]}) if p.get("lo") else ""
        hi = pat_str({"k": "expr", "e": p["hi"]}) if p.get("hi") else ""
        return "%s..%s%s" % (lo, "=" if p.get("inclusive") else "", hi)
    if k == "ref":
        return "&" + pat_str(p["sub"])
    return k or "?"


def pat_bindings(p, out=None):
    """all binding names introduced by a pattern"""
    if out is None:
        out = []
    k = p.get("k")
    if k == "bind":
        out.append((p["name"], p.get("lid")))
        if "sub" in p:
            pat_bindings(p["sub"], out)
    for key in ("subs", "before", "after"):
        for s in p.get(key, []) or []:
            pat_bindings(s, out)
    if k == "struct":
        for f in p["fields"]:
            pat_bindings(f["pat"], out)
    for key in ("sub", "mid"):
        if isinstance(p.get(key), dict) and k != "bind":
            pat_bindings(p[key], out)
    return out
