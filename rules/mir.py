"""P2: per-body CFG relations over the MIR facts (dominators, post-dominators, natural loops,
def sites, provenance expressions).  Unwind/cleanup edges are excluded: the rules reason about
normal control flow; panics are what C06/C17 enumerate separately."""
from functools import lru_cache


def op_place(op):
    if "copy" in op:
        return op["copy"]
    if "move" in op:
        return op["move"]
    return None


def op_local(op):
    """local index if operand is a bare local"""
    p = op_place(op)
    if p is not None and not p["p"]:
        return p["l"]
    return None


def op_const(op):
    c = op.get("const")
    if c is None:
        return None
    v = c.get("val")
    if isinstance(v, str):
        try:
            return int(v)
        except ValueError:
            return None
    return v


def is_const(op):
    return "const" in op


def proj_key(p):
    """hashable rendering of one projection element"""
    if isinstance(p, str):
        return p
    if "f" in p:
        return "." + p["f"]
    if "downcast" in p:
        return "as " + p["downcast"]
    if "index" in p:
        return "[_%d]" % p["index"]
    if "cidx" in p:
        return "[%s%d]" % ("-" if p.get("from_end") else "", p["cidx"])
    if "subslice" in p:
        return "[%d..%d]" % tuple(p["subslice"])
    return str(p)


def place_key(pl):
    return (pl["l"],) + tuple(proj_key(p) for p in pl["p"])


INT_TYPES = {
    "u8": (0, 2**8 - 1), "u16": (0, 2**16 - 1), "u32": (0, 2**32 - 1), "u64": (0, 2**64 - 1),
    "u128": (0, 2**128 - 1), "usize": (0, 2**64 - 1),
    "i8": (-2**7, 2**7 - 1), "i16": (-2**15, 2**15 - 1), "i32": (-2**31, 2**31 - 1),
    "i64": (-2**63, 2**63 - 1), "i128": (-2**127, 2**127 - 1), "isize": (-2**63, 2**63 - 1),
    "bool": (0, 1), "char": (0, 0x10FFFF),
}


class Body:
    def __init__(self, fn):
        self.fn = fn
        self.id = fn["id"]
        m = fn["mir"]
        self.mir = m
        self.blocks = m["blocks"]
        self.locals = m["locals"]
        self.argc = m["argc"]
        n = len(self.blocks)
        self.n = n
        self.succ = [self._succ(b) for b in self.blocks]
        self.pred = [[] for _ in range(n)]
        for i, ss in enumerate(self.succ):
            for s in ss:
                self.pred[s].append(i)
        # reachable (normal flow) from entry
        self.reach = self._reach()
        self._dom = None
        self._pdom = None
        self._loops = None
        self._defs = None

    # ---- structure -------------------------------------------------------
    @staticmethod
    def _succ(b):
        t = b["t"]
        k = t["k"]
        if k == "goto":
            return [t["t"]]
        if k == "switch":
            out = []
            for _, bb in t["targets"]:
                if bb not in out:
                    out.append(bb)
            if t["otherwise"] not in out:
                out.append(t["otherwise"])
            return out
        if k in ("call", "drop", "assert"):
            return [t["t"]] if t.get("t") is not None else []
        return []

    def _reach(self):
        seen = {0}
        st = [0]
        while st:
            b = st.pop()
            for s in self.succ[b]:
                if s not in seen:
                    seen.add(s)
                    st.append(s)
        return seen

    def term(self, b):
        return self.blocks[b]["t"]

    def stmts(self, b):
        return self.blocks[b]["s"]

    def return_blocks(self):
        return [b for b in self.reach if self.term(b)["k"] == "return"]

    def rpo(self):
        order = []
        seen = set()

        def dfs(b):
            stack = [(b, iter(self.succ[b]))]
            seen.add(b)
            while stack:
                node, it = stack[-1]
                adv = False
                for s in it:
                    if s not in seen:
                        seen.add(s)
                        stack.append((s, iter(self.succ[s])))
                        adv = True
                        break
                if not adv:
                    order.append(node)
                    stack.pop()

        dfs(0)
        order.reverse()
        return order

    # ---- dominators -------------------------------------------------------
    def dom(self):
        """dom[b] = set of blocks dominating b (incl. b), over reachable normal-flow CFG"""
        if self._dom is not None:
            return self._dom
        order = self.rpo()
        allb = set(order)
        dom = {b: set(allb) for b in order}
        dom[0] = {0}
        changed = True
        while changed:
            changed = False
            for b in order:
                if b == 0:
                    continue
                ps = [p for p in self.pred[b] if p in allb]
                if not ps:
                    continue
                new = set.intersection(*(dom[p] for p in ps)) | {b}
                if new != dom[b]:
                    dom[b] = new
                    changed = True
        self._dom = dom
        return dom

    def dominates(self, a, b):
        return a in self.dom().get(b, ())

    def pdom(self, exits=None):
        """post-dominators w.r.t. the given exit blocks (default: Return blocks)."""
        key = tuple(sorted(exits)) if exits is not None else None
        if key is None and self._pdom is not None:
            return self._pdom
        ex = set(exits) if exits is not None else set(self.return_blocks())
        nodes = set(self.reach)
        pd = {b: set(nodes) for b in nodes}
        for e in ex:
            pd[e] = {e}
        changed = True
        order = list(reversed(self.rpo()))
        while changed:
            changed = False
            for b in order:
                if b in ex:
                    continue
                ss = [s for s in self.succ[b] if s in nodes]
                if not ss:
                    new = {b}  # diverging block (panic/unreachable): post-dominated by itself only
                    # treat as not constraining: give it the full set so it does not break intersections
                    new = set(nodes)
                else:
                    new = set.intersection(*(pd[s] for s in ss)) | {b}
                if new != pd[b]:
                    pd[b] = new
                    changed = True
        if key is None:
            self._pdom = pd
        return pd

    # ---- loops --------------------------------------------------------------
    def loops(self):
        """natural loops: list of dict(head, latches, body(set))"""
        if self._loops is not None:
            return self._loops
        dom = self.dom()
        by_head = {}
        for b in self.reach:
            for s in self.succ[b]:
                if s in dom.get(b, ()):  # back edge b -> s
                    by_head.setdefault(s, []).append(b)
        loops = []
        for h, latches in sorted(by_head.items()):
            body = {h}
            st = list(latches)
            while st:
                x = st.pop()
                if x not in body:
                    body.add(x)
                    st.extend(p for p in self.pred[x] if p in self.reach)
            exits = sorted({s for b in body for s in self.succ[b] if s not in body})
            loops.append({"head": h, "latches": sorted(latches), "body": body, "exits": exits})
        self._loops = loops
        return loops

    def in_loop(self, b):
        return any(b in L["body"] for L in self.loops())

    # ---- paths --------------------------------------------------------------
    def reachable_from(self, b, avoid=()):
        avoid = set(avoid)
        seen = set()
        st = [b]
        while st:
            x = st.pop()
            if x in seen or x in avoid:
                continue
            seen.add(x)
            st.extend(self.succ[x])
        return seen

    def can_reach(self, a, b, avoid=()):
        """is there a path a ->+ b (at least one edge) avoiding blocks in `avoid`"""
        avoid = set(avoid)
        seen = set()
        st = [s for s in self.succ[a] if s not in avoid]
        while st:
            x = st.pop()
            if x == b:
                return True
            if x in seen:
                continue
            seen.add(x)
            st.extend(s for s in self.succ[x] if s not in avoid)
        return False

    # ---- definitions --------------------------------------------------------
    def defs(self):
        """local -> list of (bb, idx|'t', kind, payload): assignment sites of the bare local"""
        if self._defs is not None:
            return self._defs
        d = {}
        for b in range(self.n):
            for i, s in enumerate(self.stmts(b)):
                if s["k"] == "assign":
                    pl = s["place"]
                    if not pl["p"]:
                        d.setdefault(pl["l"], []).append((b, i, "assign", s["rv"]))
                    else:
                        d.setdefault(pl["l"], []).append((b, i, "partial", s))
                elif s["k"] == "setdiscr":
                    d.setdefault(s["place"]["l"], []).append((b, i, "partial", s))
            t = self.term(b)
            if t["k"] == "call":
                pl = t["dest"]
                if not pl["p"]:
                    d.setdefault(pl["l"], []).append((b, "t", "call", t))
                else:
                    d.setdefault(pl["l"], []).append((b, "t", "partial", t))
        self._defs = d
        return d

    def single_def(self, l):
        ds = self.defs().get(l, [])
        if len(ds) == 1 and ds[0][2] in ("assign", "call"):
            return ds[0]
        return None

    def local_name(self, l):
        return self.locals[l].get("name")

    def local_ty(self, l):
        return self.locals[l]["ty"]

    def is_arg(self, l):
        return 1 <= l <= self.argc

    # ---- provenance rendering -----------------------------------------------
    def place_str(self, pl, depth=0):
        l = pl["l"]
        base = self.local_str(l, depth)
        out = base
        for p in pl["p"]:
            if p == "deref":
                continue
            if isinstance(p, dict) and "f" in p:
                out += "." + p["f"]
            elif isinstance(p, dict) and "downcast" in p:
                out += "<" + p["downcast"] + ">"
            elif isinstance(p, dict) and "index" in p:
                out += "[" + self.local_str(p["index"], depth + 1) + "]"
            elif isinstance(p, dict) and "cidx" in p:
                out += "[%d]" % p["cidx"]
            else:
                out += proj_key(p)
        return out

    def deep_str(self, op):
        """like op_str but expands named single-definition locals too (what the value is computed from)"""
        self._deep = True
        try:
            return self.op_str(op)
        finally:
            self._deep = False

    def local_str(self, l, depth=0):
        nm = self.local_name(l)
        if nm and not (getattr(self, "_deep", False) and self.single_def(l) is not None and not self.is_arg(l) and depth < 6):
            return nm
        if l == 0:
            return "ret"
        if depth > 6:
            return "_"
        sd = self.single_def(l)
        if sd is None:
            import re
            return "_t:" + re.sub(r"\{closure@[^}]*\}", "{closure}", self.local_ty(l))
        b, i, kind, payload = sd
        if kind == "call":
            return self.call_str(payload, depth + 1)
        return self.rv_str(payload, depth + 1)

    def op_str(self, op, depth=0):
        if "const" in op:
            c = op["const"]
            if c.get("val") is not None:
                return str(c["val"])
            if c.get("fn"):
                return c["fn"].split("::")[-1]
            if c.get("def"):
                return c["def"].split("::")[-1]
            return c.get("s", "const")
        pl = op_place(op)
        if pl is None:
            return "?"
        return self.place_str(pl, depth)

    def rv_str(self, rv, depth=0):
        k = rv["k"]
        if k == "use":
            return self.op_str(rv["a"], depth)
        if k == "bin":
            op = rv["op"].replace("WithOverflow", "").replace("Unchecked", "")
            return "%s(%s, %s)" % (op, self.op_str(rv["a"], depth), self.op_str(rv["b"], depth))
        if k == "un":
            return "%s(%s)" % (rv["op"], self.op_str(rv["a"], depth))
        if k == "cast":
            return "%s as %s" % (self.op_str(rv["a"], depth), rv["to"])
        if k == "ref":
            return self.place_str(rv["place"], depth)
        if k == "discr":
            return "discr(%s)" % self.place_str(rv["place"], depth)
        if k == "agg":
            if rv.get("ak") == "adt":
                return "%s::%s(%s)" % (rv["adt"].split("::")[-1], rv["variant"], ", ".join(self.op_str(o, depth) for o in rv["ops"]))
            return "(%s)" % ", ".join(self.op_str(o, depth) for o in rv["ops"])
        if k == "repeat":
            return "[%s; %s]" % (self.op_str(rv["a"], depth), rv.get("n"))
        return k

    def call_str(self, t, depth=0):
        c = t["callee"]
        nm = callee_short(c)
        return "%s(%s)" % (nm, ", ".join(self.op_str(a, depth) for a in t["args"]))

    # ---- canonical rendering (for keys that must survive behaviour-preserving edits) ------------
    # What a value is computed from, independent of how the source spells it: locals with one definition are replaced
    # by their definition, parameters by their position, locals assigned more than once by `~`, lossless conversions,
    # borrows and `?` are transparent, checked and unchecked arithmetic render alike.
    _TRANSPARENT = {"From::from", "Into::into", "Clone::clone", "Deref::deref", "DerefMut::deref_mut", "AsRef::as_ref", "AsMut::as_mut",
                    "Borrow::borrow", "Try::branch", "Option::as_ref", "Option::as_mut", "IntoIterator::into_iter"}

    def canon_local(self, l, depth=0):
        if self.is_arg(l):
            return "$%d" % l
        if l == 0:
            return "ret"
        if depth > 16:
            return "_"
        sd = self.single_def(l)
        if sd is None:
            return "~"
        b, i, kind, payload = sd
        if kind == "call":
            return self.canon_call(payload, depth + 1, b)
        return self.canon_rv(payload, depth + 1)

    def canon_place(self, pl, depth=0):
        out = self.canon_local(pl["l"], depth)
        for p in pl["p"]:
            if p == "deref":
                continue
            if isinstance(p, dict) and "f" in p:
                f = p["f"]
                # `.0` of a checked-arithmetic pair is the arithmetic result; `.0` of a `?` Continue / Some / Ok payload is the value
                if f in ("0",) and (out.endswith(")") and re_match_arith(out) or out.endswith(">")):
                    continue
                out += "." + f
            elif isinstance(p, dict) and "downcast" in p:
                if p["downcast"] in ("Continue", "Some", "Ok"):
                    out += ">"
                else:
                    out += "<" + p["downcast"] + ">"
            elif isinstance(p, dict) and "index" in p:
                out += "[" + self.canon_local(p["index"], depth + 1) + "]"
            elif isinstance(p, dict) and "cidx" in p:
                out += "[%d]" % p["cidx"]
            else:
                out += proj_key(p)
        return out.replace(">", "")

    def canon_op(self, op, depth=0):
        if "const" in op:
            c = op["const"]
            if c.get("val") is not None:
                return str(c["val"])
            if c.get("fn"):
                return c["fn"].split("::")[-1]
            if c.get("def"):
                return c["def"].split("::")[-1]
            return c.get("s", "const")
        pl = op_place(op)
        if pl is None:
            return "?"
        return self.canon_place(pl, depth)

    def canon_rv(self, rv, depth=0):
        k = rv["k"]
        if k in ("use", "cast"):
            return self.canon_op(rv["a"], depth)
        if k == "bin":
            op = rv["op"].replace("WithOverflow", "").replace("Unchecked", "")
            a, b = self.canon_op(rv["a"], depth), self.canon_op(rv["b"], depth)
            if op in ("Add", "Mul", "BitAnd", "BitOr", "BitXor", "Eq", "Ne") and b < a:
                a, b = b, a          # commutative: one spelling
            return "%s(%s, %s)" % (op, a, b)
        if k == "un":
            return "%s(%s)" % (rv["op"], self.canon_op(rv["a"], depth))
        if k == "ref":
            return self.canon_place(rv["place"], depth)
        if k == "discr":
            return "discr(%s)" % self.canon_place(rv["place"], depth)
        if k == "agg":
            if rv.get("ak") == "adt":
                if rv.get("variant") in ("Some", "Ok") and len(rv["ops"]) == 1 and rv["adt"].split("::")[-1] in ("Option", "Result"):
                    return self.canon_op(rv["ops"][0], depth)      # payload-preserving wrappers are transparent
                return "%s::%s(%s)" % (rv["adt"].split("::")[-1], rv["variant"], ", ".join(self.canon_op(o, depth) for o in rv["ops"]))
            return "(%s)" % ", ".join(self.canon_op(o, depth) for o in rv["ops"])
        if k == "repeat":
            return "[%s; %s]" % (self.canon_op(rv["a"], depth), rv.get("n"))
        return k

    def canon_call(self, t, depth=0, blk=None):
        nm = callee_short(t["callee"])
        if nm in self._TRANSPARENT and t["args"]:
            return self.canon_op(t["args"][0], depth)
        ti = TRANSPARENT_LOCAL.get(callee_path(t["callee"]))
        if ti is not None and ti < len(t["args"]):
            return self.canon_op(t["args"][ti], depth)          # crate function that hands its argument's value through
        s = "%s(%s)" % (nm, ", ".join(self.canon_op(a, depth) for a in t["args"]))
        if getattr(self, "_cids", False) and blk is not None:
            s += "@b%d" % blk        # identity of the call site (etrace): two calls of one function are different values
        return s

    # ---- iteration helpers ----------------------------------------------------
    def calls(self, reachable_only=True):
        """yield (bb, terminator) for every Call terminator"""
        for b in range(self.n):
            if reachable_only and b not in self.reach:
                continue
            t = self.term(b)
            if t["k"] == "call":
                yield b, t

    def asserts(self):
        for b in range(self.n):
            if b not in self.reach:
                continue
            t = self.term(b)
            if t["k"] == "assert":
                yield b, t


_ARITH_RE = None
# crate functions whose success value is (the payload of) one of their arguments: {fn id: argument index}
TRANSPARENT_LOCAL = {}


def compute_transparent(fns):
    """A function is value-transparent in argument i when every assignment to its return place is `$i+1` (through
    Ok/Some wrapping and unwrapping) or an empty / error value.  Computed once per fact set."""
    import re
    TRANSPARENT_LOCAL.clear()
    for fid, fn in fns.items():
        if fn.get("mir") is None or fn.get("derived"):
            continue
        b = body_of(fn)
        if b is None or b.argc < 1 or b.n > 40:
            continue
        rets = []
        ok = True
        for blk in b.reach:
            for s in b.stmts(blk):
                if s["k"] == "assign" and s["place"]["l"] == 0 and not s["place"]["p"]:
                    rets.append(b.canon_rv(s["rv"]))
            t = b.term(blk)
            if t["k"] == "call" and t.get("dest") and t["dest"]["l"] == 0 and not t["dest"]["p"]:
                nm = callee_short(t["callee"])
                if nm.endswith("from_residual"):
                    continue
                ok = False
        if not ok or not rets:
            continue
        passed = {r for r in rets if re.match(r"\$\d+$", r)}
        others = [r for r in rets if r not in passed]
        if len(passed) == 1 and all(re.match(r"(Option::None\(\)|Result::Err\(|\(\)$)", r) for r in others):
            TRANSPARENT_LOCAL[fid] = int(list(passed)[0][1:]) - 1


def re_match_arith(s):
    """does the rendering end with a checked arithmetic expression `Op(a, b)`?"""
    import re
    global _ARITH_RE
    if _ARITH_RE is None:
        _ARITH_RE = re.compile(r"(?:^|[ (,\[])(Add|Sub|Mul|Shl|Shr|Neg)\(")
    # find the opening of the last balanced parenthesis group
    depth = 0
    for i in range(len(s) - 1, -1, -1):
        if s[i] == ")":
            depth += 1
        elif s[i] == "(":
            depth -= 1
            if depth == 0:
                head = s[:i]
                return head.endswith(("Add", "Sub", "Mul", "Shl", "Shr", "Neg"))
    return False


def callee_path(c):
    """best identity of a callee: the resolved impl method when known, else the declared path"""
    if "path" not in c:
        return None
    return c.get("resolved") or c["path"]


def callee_decl(c):
    return c.get("path")


def callee_short(c):
    p = c.get("path")
    if p is None:
        return "<indirect>"
    segs = strip_generics(p).split("::")
    return "::".join(segs[-2:]) if len(segs) >= 2 else segs[-1]


def strip_generics(p):
    out = []
    depth = 0
    for ch in p:
        if ch == "<":
            depth += 1
            continue
        if ch == ">":
            depth -= 1
            continue
        if depth == 0:
            out.append(ch)
    return "".join(out).replace("::::", "::")


_bodies = {}


def body_of(fn):
    b = _bodies.get(id(fn))
    if b is None:
        if fn.get("mir") is None:
            return None
        b = Body(fn)
        _bodies[id(fn)] = b
    return b
