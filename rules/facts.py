"""Fact acquisition: build (or reuse) the JSON fact file for /repo's *current working tree*
and load it into indexed python structures.

Facts are produced by engine/mp4facts (a rustc_private driver) under `cargo +nightly check`.
They are a function of the tree content only, so they are cached under /verif/.cache/facts
keyed by a SHA-256 of Cargo.toml, Cargo.lock and every *.rs under src/.  Any edit to /repo
changes the key and forces a rebuild.  Nothing here executes mp4-rust code.
"""
import fcntl
import hashlib
import json
import os
import shutil
import subprocess
import sys
import tempfile
import time

VERIF = os.path.dirname(os.path.dirname(os.path.abspath(__file__)))
REPO = os.environ.get("VERIF_REPO", "/repo")
DRIVER = os.path.join(VERIF, "engine", "mp4facts", "target", "release", "mp4facts")
CACHE = os.path.join(VERIF, ".cache", "facts")
# bump when the driver's output format changes
FORMAT = "3"


def tree_hash(repo=REPO, extra=""):
    h = hashlib.sha256()
    h.update(FORMAT.encode())
    h.update(extra.encode())
    files = []
    for top in ("Cargo.toml", "Cargo.lock"):
        p = os.path.join(repo, top)
        if os.path.exists(p):
            files.append(p)
    for sub in ("src",):
        for root, dirs, fs in os.walk(os.path.join(repo, sub)):
            dirs.sort()
            for f in sorted(fs):
                if f.endswith(".rs"):
                    files.append(os.path.join(root, f))
    # driver identity: its sources
    eng = os.path.join(VERIF, "engine", "mp4facts", "src")
    for f in sorted(os.listdir(eng)):
        files.append(os.path.join(eng, f))
    for p in files:
        h.update(os.path.relpath(p, "/").encode())
        with open(p, "rb") as fh:
            h.update(fh.read())
    return h.hexdigest()[:24]


def _sysroot():
    return subprocess.check_output(["rustc", "+nightly", "--print", "sysroot"], text=True).strip()


def ensure_driver():
    if os.path.exists(DRIVER):
        src = os.path.join(VERIF, "engine", "mp4facts", "src")
        newest = max(os.path.getmtime(os.path.join(src, f)) for f in os.listdir(src))
        if newest <= os.path.getmtime(DRIVER):
            return
    subprocess.check_call(
        ["cargo", "build", "--release", "--offline"],
        cwd=os.path.join(VERIF, "engine", "mp4facts"),
        env=dict(os.environ, CARGO_NET_OFFLINE="true"),
    )


def build_facts(repo, out, crate="mp4", profile="dev", cargo_args=("--lib",)):
    """Run the driver over `repo` with a fresh target dir (cargo's freshness cache would
    otherwise skip the wrapper) and write the fact file to `out`."""
    ensure_driver()
    tmp = tempfile.mkdtemp(prefix="mp4facts-")
    try:
        env = dict(os.environ)
        env["LD_LIBRARY_PATH"] = os.path.join(_sysroot(), "lib") + ":" + env.get("LD_LIBRARY_PATH", "")
        flags = "-Zmir-opt-level=0 -Awarnings"
        if profile == "release":
            flags += " -C overflow-checks=off -C debug-assertions=off"
        env["RUSTFLAGS"] = flags
        env["RUSTC_WORKSPACE_WRAPPER"] = DRIVER
        env["MP4FACTS_OUT"] = os.path.join(tmp, "facts.json")
        env["MP4FACTS_CRATE"] = crate
        env["CARGO_TARGET_DIR"] = os.path.join(tmp, "target")
        env["CARGO_NET_OFFLINE"] = "true"
        env.pop("RUSTC_WRAPPER", None)
        cmd = ["cargo", "+nightly", "check", "--offline", "-j", "16"] + list(cargo_args)
        p = subprocess.run(cmd, cwd=repo, env=env, stdout=subprocess.PIPE, stderr=subprocess.STDOUT, text=True)
        if p.returncode != 0 or not os.path.exists(env["MP4FACTS_OUT"]):
            sys.stderr.write(p.stdout[-6000:])
            raise RuntimeError("fact extraction failed (the tree must compile): rc=%s" % p.returncode)
        os.makedirs(os.path.dirname(out), exist_ok=True)
        shutil.move(env["MP4FACTS_OUT"], out + ".tmp")
        os.replace(out + ".tmp", out)
    finally:
        shutil.rmtree(tmp, ignore_errors=True)


def facts_path(repo=REPO, profile="dev", force=False):
    """Return the path of the fact file for the current tree, building it if needed (force: rebuild even when cached)."""
    os.makedirs(CACHE, exist_ok=True)
    key = tree_hash(repo, extra=profile)
    out = os.path.join(CACHE, "%s-%s.json" % (profile, key))
    if force and os.path.exists(out) and out not in _forced:
        _forced.add(out)
        os.remove(out)
    if os.path.exists(out):
        return out, key, False
    lock = open(os.path.join(CACHE, ".lock"), "w")
    fcntl.flock(lock, fcntl.LOCK_EX)
    try:
        if os.path.exists(out):
            return out, key, False
        build_facts(repo, out, profile=profile)
        # prune old cache entries (keep the 6 newest)
        ents = sorted(
            (os.path.join(CACHE, f) for f in os.listdir(CACHE) if f.endswith(".json")),
            key=os.path.getmtime,
        )
        for old in ents[:-6]:
            try:
                os.remove(old)
            except OSError:
                pass
        return out, key, True
    finally:
        fcntl.flock(lock, fcntl.LOCK_UN)
        lock.close()


_SHORT_RE = None
_forced = set()


def short(s):
    """strip module paths from a type / trait string: std::convert::From<&types::FourCC> -> From<&FourCC>"""
    global _SHORT_RE
    import re
    if _SHORT_RE is None:
        _SHORT_RE = re.compile(r"(?:[A-Za-z_][A-Za-z0-9_]*::)+")
    return _SHORT_RE.sub("", s)


class Facts:
    """Indexed view of one fact document."""

    def __init__(self, doc, key=""):
        self.doc = doc
        self.key = key
        self.crate = doc["crate"]
        self.fns = {}
        seen = {}
        for f in doc["fns"]:
            i = f["id"]
            if i in seen:
                seen[i] += 1
                i = "%s#%d" % (i, seen[i])
                f["id"] = i
            else:
                seen[i] = 0
            self.fns[i] = f
        self.adts = {a["id"]: a for a in doc["adts"]}
        self.consts = {c["id"]: c for c in doc["consts"]}
        self.impls = doc["impls"]
        # impl index: (trait_path, self_ty) -> impl
        self.by_trait = {}
        for im in self.impls:
            if im.get("trait_path"):
                self.by_trait.setdefault(im["trait_path"], []).append(im)

    # ---- lookups -------------------------------------------------------
    def fn(self, fid):
        return self.fns.get(fid)

    def find_fns(self, pred):
        return [f for f in self.fns.values() if pred(f)]

    def fn_by_suffix(self, suffix):
        r = [f for i, f in self.fns.items() if i == suffix or i.endswith("::" + suffix)]
        return r

    def methods_of(self, self_ty_suffix, trait_suffix=None):
        """fns in impls whose self type path ends with self_ty_suffix (and trait path ends with trait_suffix)."""
        out = []
        for f in self.fns.values():
            im = f.get("impl")
            if not im or "self_ty" not in im:
                continue
            st = im["self_ty"]
            base = st.split("<")[0]
            if not (base == self_ty_suffix or base.endswith("::" + self_ty_suffix)):
                continue
            tp = im.get("trait_path")
            if trait_suffix is None:
                if tp is not None:
                    continue
            elif trait_suffix != "*":
                if tp is None or not (tp == trait_suffix or tp.endswith("::" + trait_suffix)):
                    continue
            out.append(f)
        return out

    def trait_impl_fns(self, trait_suffix, method):
        """All fns named `method` in impls of a trait whose path ends with trait_suffix. -> {self_ty: fn}"""
        out = {}
        for f in self.fns.values():
            im = f.get("impl")
            if not im or not im.get("trait_path"):
                continue
            tp = im["trait_path"]
            if (tp == trait_suffix or tp.endswith("::" + trait_suffix)) and f["name"] == method and f["kind"] == "AssocFn":
                out[im["self_ty"]] = f
        return out

    def impl_fn(self, self_short, trait_short, name):
        """the fn `name` in `impl <trait_short> for <self_short>` (module paths stripped: robust to moving items
        between modules). trait_short None = inherent impl."""
        out = []
        for f in self.fns.values():
            im = f.get("impl")
            if not im or "self_ty" not in im or f["name"] != name or f["kind"] != "AssocFn":
                continue
            if short(im["self_ty"]) != self_short:
                continue
            t = im.get("trait")
            if trait_short is None:
                if t is None:
                    out.append(f)
            elif t is not None and short(t) == trait_short:
                out.append(f)
        return out[0] if len(out) == 1 else None

    def adt_short(self, name):
        r = [a for i, a in self.adts.items() if short(i) == name]
        return r[0] if len(r) == 1 else None

    def adt_by_suffix(self, suffix):
        r = [a for i, a in self.adts.items() if i == suffix or i.endswith("::" + suffix)]
        return r[0] if len(r) == 1 else None


_loaded = {}


def load(repo=REPO, profile="dev", force=False):
    t0 = time.time()
    path, key, built = facts_path(repo, profile, force)
    if path in _loaded and not built:
        return _loaded[path]
    with open(path) as fh:
        doc = json.load(fh)
    if doc.get("crate") != "mp4":
        raise RuntimeError("fact file does not describe crate mp4")
    if len(doc["fns"]) < 900:
        raise RuntimeError("fact file has only %d bodies (floor 900): extraction incomplete" % len(doc["fns"]))
    fx = Facts(doc, key)
    import mir
    mir.compute_transparent(fx.fns)
    fx.built = built
    fx.profile = profile
    fx.load_s = time.time() - t0
    fx.path = path
    _loaded[path] = fx
    return fx


if __name__ == "__main__":
    fx = load()
    print(fx.path, len(fx.fns), "fns", len(fx.adts), "adts", "built" if fx.built else "cached", "%.1fs" % fx.load_s)
