"""P5: layout extraction.  Walks the typeck-annotated HIR of a stream-effecting function (write_box / read_box /
helpers) and produces a layout tree of stream effects in evaluation order:

  seq[..] | atom(dir,w,val|id) | ext(dir) | hdr | hdrread | zeros(len) | skip(len) | bytes(dir,val,len) |
  child(dir,ty,val) | inline(fn,body) | alt(cond,then,else) | match(scrut,arms) | iflet(pat,scrut,then,else) |
  rep(iter,pat,body) | while(cond,body) | loop(body) | ret(ok) | seekto(to) | seek(how) | pos | let(pat,init,atoms) |
  brk | cont

Atoms are recognised by resolved callee (byteorder::WriteBytesExt::write_u32 -> width 4 ...), never by text.
Helper functions that perform I/O are expanded in place (parameter names substituted in renderings).
"""
import re

import hirq
from facts import short

W_WIDTH = {"write_u8": 1, "write_i8": 1, "write_u16": 2, "write_i16": 2, "write_u24": 3, "write_i24": 3, "write_u32": 4,
           "write_i32": 4, "write_u48": 6, "write_i48": 6, "write_u64": 8, "write_i64": 8, "write_u128": 16}
R_WIDTH = {k.replace("write_", "read_"): v for k, v in W_WIDTH.items()}
WTRAIT = "byteorder::io::WriteBytesExt"
RTRAIT = "byteorder::io::ReadBytesExt"


def last2(p):
    segs = (p or "").split("::")
    return "::".join(segs[-2:])


class Extractor:
    def __init__(self, fx, iof, opaque=None):
        self.fx = fx
        self.iof = iof          # io-fallible local functions (ids)
        self.opaque = opaque or {}   # helper name -> primitive kind (not expanded)
        self.next_atom = 0
        self.depth = 0

    # ---- helpers ---------------------------------------------------------------
    def fn_of(self, n):
        d, r = hirq.callee_of(n)
        return r or d

    def trait_short_of(self, fid):
        f = self.fx.fns.get(fid)
        if not f:
            return ""
        return short((f.get("impl") or {}).get("trait") or "")

    def self_ty_of(self, fid):
        f = self.fx.fns.get(fid)
        if not f:
            return ""
        return short((f.get("impl") or {}).get("self_ty") or "")

    def new_id(self):
        self.next_atom += 1
        return self.next_atom

    # ---- statements / blocks -----------------------------------------------------
    def block(self, n, env):
        out = []
        for s in n.get("stmts", []):
            k = s["k"]
            if k == "let":
                nodes = self.expr(s["init"], env) if "init" in s else []
                atoms = collect_atoms(nodes)
                out.extend(nodes)
                out.append({"n": "let", "pat": s["pat"], "init": s.get("init"), "atoms": atoms, "line": s.get("line")})
                if "else" in s:
                    out.append({"n": "alt", "cond": {"k": "letelse", "pat": s["pat"]}, "then": seq([]), "else": seq(self.block(s["else"], env))})
            else:
                out.extend(self.expr(s["e"], env))
        if "expr" in n:
            out.extend(self.expr(n["expr"], env))
        return out

    # ---- expressions ---------------------------------------------------------------
    def expr(self, n, env):
        """list of layout nodes produced by evaluating n (in order)"""
        k = n.get("k")
        if k == "block":
            return self.block(n, env)
        if k == "try":
            return self.expr(n["e"], env)
        if k == "mcall":
            return self.mcall(n, env)
        if k == "call":
            return self.call(n, env)
        if k == "if":
            c = n["cond"]
            pre = self.expr(c, env) if c.get("k") != "letx" else self.expr(c["init"], env)
            th = seq(self.expr(n["then"], env))
            el = seq(self.expr(n["else"], env)) if "else" in n else seq([])
            if c.get("k") == "letx":
                node = {"n": "iflet", "pat": c["pat"], "scrut": c["init"], "then": th, "else": el, "line": n.get("line")}
            else:
                node = {"n": "alt", "cond": c, "then": th, "else": el, "line": n.get("line")}
            if is_trivial(th) and is_trivial(el):
                return pre
            return pre + [node]
        if k == "match":
            pre = self.expr(n["scrut"], env)
            arms = []
            for a in n["arms"]:
                body = seq(self.expr(a["body"], env))
                arms.append({"pat": a["pat"], "guard": a.get("guard"), "body": body})
            if all(is_trivial(a["body"]) for a in arms):
                return pre
            # `match opt { Some(p) => A, None | _ => B }` is `if let Some(p) = opt { A } else { B }`
            if len(arms) == 2 and not any(a.get("guard") for a in arms):
                def is_some(p):
                    return p.get("k") == "tuplestruct" and (p.get("def") or "").endswith("Option::Some")

                def is_none(p):
                    return p.get("k") == "wild" or (p.get("k") in ("path", "expr") and (p.get("def") or hirq.pat_str(p) or "").endswith("None"))
                for i in (0, 1):
                    if is_some(arms[i]["pat"]) and is_none(arms[1 - i]["pat"]):
                        return pre + [{"n": "iflet", "pat": arms[i]["pat"], "scrut": n["scrut"], "then": arms[i]["body"], "else": arms[1 - i]["body"], "line": n.get("line")}]
            return pre + [{"n": "match", "scrut": n["scrut"], "arms": arms, "line": n.get("line")}]
        if k == "for":
            pre = self.expr(n["iter"], env)
            body = seq(self.expr(n["body"], env))
            if is_trivial(body):
                return pre
            return pre + [{"n": "rep", "iter": n["iter"], "pat": n["pat"], "body": body, "line": n.get("line")}]
        if k == "while":
            c = n["cond"]
            pre = [] if c.get("k") == "letx" else self.expr(c, env)
            body = seq(self.expr(n["body"], env))
            if is_trivial(body) and not pre:
                return []
            return [{"n": "while", "cond": c, "body": seq(pre + body["items"]), "line": n.get("line")}]
        if k == "loop":
            body = seq(self.expr(n["body"], env))
            if is_trivial(body):
                return []
            return [{"n": "loop", "body": body, "line": n.get("line")}]
        if k == "ret":
            pre = self.expr(n["e"], env) if "e" in n else []
            ok = None
            if "e" in n:
                e = n["e"]
                if e.get("k") == "call" and (e.get("fn") or "").endswith("Result::Err"):
                    ok = False
                elif e.get("k") == "call" and (e.get("fn") or "").endswith("Result::Ok"):
                    ok = True
            return pre + [{"n": "ret", "ok": ok, "val": n.get("e"), "line": n.get("line")}]
        if k == "break":
            return [{"n": "brk"}]
        if k == "continue":
            return [{"n": "cont"}]
        if k == "closure":
            inner = self.expr(n["body"], env)
            if inner:
                return [{"n": "closure", "body": seq(inner)}]
            return []
        # generic: children in evaluation order
        out = []
        for c in hirq.children(n):
            out.extend(self.expr(c, env))
        return out

    def mcall(self, n, env):
        tr = n.get("trait")
        m = n["m"]
        fid = self.fn_of(n)
        pre = []
        for a in n["args"]:
            pre.extend(self.expr(a, env))
        if tr == WTRAIT and m in W_WIDTH:
            return pre + [{"n": "atom", "dir": "w", "w": W_WIDTH[m], "signed": m.startswith("write_i"), "val": n["args"][0], "line": n.get("line")}]
        if tr == RTRAIT and m in R_WIDTH:
            return pre + [{"n": "atom", "dir": "r", "w": R_WIDTH[m], "signed": m.startswith("read_i"), "id": self.new_id(), "line": n.get("line"), "node": id(n)}]
        m_into = re.fullmatch(r"read_([ui])(16|32|64|128)_into", m) if tr == RTRAIT else None
        if m_into and n["args"]:
            # `reader.read_i32_into::<BigEndian>(&mut buf)` with `buf: [i32; N]`: N reads of that width, element i of buf
            tgt = hirq.strip_wrappers(n["args"][0])
            mt = re.fullmatch(r"\[[ui](?:16|32|64|128); (\d+)\]", str(tgt.get("ty") or "").replace("&mut ", "").strip())
            if tgt.get("k") == "path" and tgt.get("res") == "local" and mt:
                return pre + [{"n": "atom", "dir": "r", "w": int(m_into.group(2)) // 8, "signed": m_into.group(1) == "i", "id": self.new_id(), "line": n.get("line"),
                               "arr": (tgt.get("lid"), i)} for i in range(int(mt.group(1)))]
        if tr in (WTRAIT, RTRAIT) and (m.startswith("read_") or m.startswith("write_")):
            # a byteorder transfer the extractor has no width for (read_i32_into, read_uint, write_uint, ...): it moves
            # bytes, so the layout of this body is not decidable -- say so instead of extracting a layout without them
            return pre + [{"n": "prim", "kind": "byteorder::%s(..)" % m, "dir": "w" if m.startswith("write_") else "r", "args": [n["recv"]] + list(n["args"]), "id": self.new_id(), "line": n.get("line"), "node": id(n)}]
        if tr == "std::io::Write" and m == "write_all":
            return pre + [{"n": "bytes", "dir": "w", "val": n["args"][0], "line": n.get("line")}]
        if tr == "std::io::Read" and m == "read_exact":
            return pre + [{"n": "bytes", "dir": "r", "val": n["args"][0], "id": self.new_id(), "line": n.get("line"), "node": id(n)}]
        if tr == "std::io::Seek":
            if m == "stream_position":
                return pre + [{"n": "pos", "line": n.get("line")}]
            if m == "seek":
                return pre + [{"n": "seek", "how": n["args"][0], "line": n.get("line")}]
        recv_nodes = self.expr(n["recv"], env)
        if fid not in self.fx.fns and n.get("resolved") is None and tr and getattr(self, "tybind", None):
            # a trait method called on a type parameter of the helper being inlined: the instantiation decides the impl
            rty = str(n.get("recv_aty") or n["recv"].get("ty") or "").replace("&mut ", "").replace("&", "").strip()
            conc = self.tybind.get(rty)
            if conc:
                for g_id, g_ in self.fx.fns.items():
                    im = g_.get("impl") or {}
                    if g_["name"] == m and im.get("self_ty") == conc and (im.get("trait_path") or "") == tr:
                        fid = g_id
                        break
        if fid in self.fx.fns:
            return recv_nodes + pre + self.local_call(n, fid, [n["recv"]] + n["args"], env)
        return recv_nodes + pre

    def call(self, n, env):
        pre = []
        for a in n["args"]:
            pre.extend(self.expr(a, env))
        fid = self.fn_of(n)
        if fid in self.fx.fns:
            return pre + self.local_call(n, fid, n["args"], env)
        return pre

    def local_call(self, n, fid, args, env):
        name = self.fx.fns[fid]["name"]
        ts = self.trait_short_of(fid)
        line = n.get("line")
        if fid.endswith("BoxHeader::write"):
            recv = args[0]
            inner = hirq.strip_wrappers(recv)
            ty = size = None
            if inner.get("k") == "call" and (inner.get("fn") or "").endswith("BoxHeader::new") and len(inner["args"]) == 2:
                ty, size = inner["args"]
            return [{"n": "hdr", "ty": ty, "size": size, "line": line}]
        if fid.endswith("BoxHeader::read"):
            return [{"n": "hdrread", "id": self.new_id(), "line": line, "node": id(n)}]
        if fid.endswith("::write_box_header_ext"):
            return [{"n": "ext", "dir": "w", "v": args[1], "f": args[2], "line": line}]
        if fid.endswith("::read_box_header_ext"):
            return [{"n": "ext", "dir": "r", "id": self.new_id(), "line": line, "node": id(n)}]
        if fid.endswith("::write_zeros"):
            return [{"n": "zeros", "len": args[1], "line": line}]
        if fid.endswith("::skip_bytes"):
            return [{"n": "skip", "len": args[1], "line": line}]
        if fid.endswith("::skip_bytes_to"):
            return [{"n": "seekto", "to": args[1], "line": line}]
        if fid.endswith("::skip_box"):
            return [{"n": "skipbox", "size": args[1], "line": line}]
        if fid.endswith("::box_start"):
            return [{"n": "boxstart", "line": line}]
        if ts.startswith("WriteBox<") and name == "write_box":
            return [{"n": "child", "dir": "w", "ty": self.self_ty_of(fid), "fn": fid, "val": args[0], "line": line}]
        if ts.startswith("ReadBox<") and name == "read_box":
            return [{"n": "child", "dir": "r", "ty": self.self_ty_of(fid), "fn": fid, "size": args[1] if len(args) > 1 else None, "id": self.new_id(), "line": line, "node": id(n)}]
        if last2(fid) in self.opaque and not fid.startswith("<"):
            kind = self.opaque[last2(fid)]
            return [{"n": "prim", "kind": kind, "dir": "w" if name.startswith("write") else "r", "args": args, "id": self.new_id(), "line": line, "node": id(n)}]
        if fid in self.iof and self.depth < 5:
            f = self.fx.fns[fid]
            root = hirq.layout_root(f)
            if root is None:
                return []
            params = [p.get("name") for p in f["hir"]["params"]]
            sub = {}
            for p, a in zip(params, args):
                if p:
                    sub[p] = a
            # a generic helper: bind its type parameters from the argument types, so that trait calls on them resolve
            saved_bind = dict(getattr(self, "tybind", {}))
            self.tybind = dict(saved_bind)
            for g in f.get("generics") or []:
                for pty, a in zip(f.get("inputs_s") or [], args):
                    aty = str(hirq.strip_wrappers(a).get("ty") or a.get("ty") or "")
                    rx = re.escape(pty.replace("&mut ", "&").replace("&", "")).replace(re.escape(g), "(.+)")
                    m_ = re.fullmatch(rx, aty.replace("&mut ", "&").replace("&", "")) if g in pty else None
                    if m_:
                        self.tybind[g] = m_.group(1)
            self.depth += 1
            try:
                body = seq(self.expr(root, dict(env, **{"subst": sub})))
            finally:
                self.depth -= 1
                self.tybind = saved_bind
            return [{"n": "inline", "fn": fid, "name": last2(fid), "self_ty": self.self_ty_of(fid), "args": args, "params": params, "body": body, "line": line, "id": self.new_id(), "node": id(n)}]
        return []


def seq(items):
    return {"n": "seq", "items": items}


def is_trivial(L):
    """no stream effect and no control transfer inside"""
    if L["n"] == "seq":
        return all(is_trivial(x) for x in L["items"])
    return L["n"] in ("let",)


def collect_atoms(nodes):
    out = []
    for x in nodes:
        if x["n"] in ("atom", "bytes", "ext", "child", "hdrread", "prim", "inline") and x.get("dir", "r") == "r" and "id" in x:
            out.append(x["id"])
        for key in ("then", "else", "body"):
            if key in x and isinstance(x[key], dict):
                out.extend(collect_atoms(x[key]["items"] if x[key]["n"] == "seq" else [x[key]]))
        if x["n"] == "match":
            for a in x["arms"]:
                out.extend(collect_atoms(a["body"]["items"]))
        if x["n"] == "seq":
            out.extend(collect_atoms(x["items"]))
    return out


def walk(L):
    """pre-order over all layout nodes"""
    st = [L]
    while st:
        x = st.pop()
        yield x
        if x["n"] == "seq":
            st.extend(reversed(x["items"]))
        for key in ("then", "else", "body"):
            if key in x and isinstance(x[key], dict):
                st.append(x[key])
        if x["n"] == "match":
            for a in reversed(x["arms"]):
                st.append(a["body"])


def extract(fx, iof, fn, opaque=None):
    _FX["fx"] = fx
    ex = Extractor(fx, iof, opaque)
    root = hirq.layout_root(fn)
    if root is None:
        return None
    items = ex.expr(root, {})
    # the function's tail expression is its (successful or not) return value
    tail = root.get("expr") if root.get("k") == "block" else root
    if tail is not None and tail.get("k") == "call":
        fnp = tail.get("fn") or ""
        if fnp.endswith("Result::Ok") or fnp.endswith("Result::Err"):
            items.append({"n": "ret", "ok": fnp.endswith("Result::Ok"), "val": tail, "line": tail.get("line"), "tail": True})
    return seq(items)


# ------------------------------------------------------------------------------------------------
# rendering / normalisation of value and condition expressions

_FX = {}


class _Sub(dict):
    """an argument expression together with the substitution it has to be rendered under (a closure over the caller's lets)"""

    def __init__(self, node, subst):
        dict.__init__(self, node)
        self._subst = subst


def norm_expr(n, subst=None, depth=0):
    """canonical string of an expression: `self.` and reference/deref noise removed, casts dropped, constants evaluated"""
    if n is None:
        return "?"
    if isinstance(n, _Sub):
        return norm_expr(dict(n), n._subst, depth + 1)
    if depth > 10:
        return "…"
    k = n.get("k")
    if k == "lit":
        return str(n.get("val"))
    if k == "path":
        if n.get("res") == "local":
            nm = n["name"]
            if subst and nm in subst:
                return norm_expr(subst[nm], None, depth + 1)
            return nm
        if n.get("val") is not None:
            return str(n["val"])
        return (n.get("def") or "?").split("::")[-1]
    if k == "field":
        base = norm_expr(n["e"], subst, depth + 1)
        if base == "self":
            return n["name"]
        return base + "." + n["name"]
    if k in ("addrof",):
        return norm_expr(n["e"], subst, depth + 1)
    if k == "un":
        if n["op"] == "Deref":
            return norm_expr(n["e"], subst, depth + 1)
        return {"Not": "!", "Neg": "-"}.get(n["op"], n["op"]) + norm_expr(n["e"], subst, depth + 1)
    if k == "cast":
        return norm_expr(n["e"], subst, depth + 1)
    if k == "block" and not n.get("stmts") and "expr" in n:
        return norm_expr(n["expr"], subst, depth + 1)
    if k == "bin":
        return "(%s %s %s)" % (norm_expr(n["l"], subst, depth + 1), n["op"], norm_expr(n["r"], subst, depth + 1))
    if k == "mcall":
        m = n["m"]
        r = norm_expr(n["recv"], subst, depth + 1)
        if m in ("clone", "into", "as_ref", "iter", "as_slice", "to_owned", "as_bytes", "as_str", "bytes", "raw_value", "value", "to_string", "as_mut", "unwrap", "to_vec", "as_deref") and not n["args"]:
            return r
        return "%s.%s(%s)" % (r, m, ",".join(norm_expr(a, subst, depth + 1) for a in n["args"]))
    if k == "call":
        fnp = n.get("fn") or "?"
        if fnp.endswith("From::from") and len(n["args"]) == 1:
            return norm_expr(n["args"][0], subst, depth + 1)
        # a local helper whose body is one expression of its parameters (`fn end_of(start, size) -> u64 { start + size }`)
        g = (_FX.get("fx").fns.get(n.get("resolved") or n.get("fn")) if _FX.get("fx") is not None else None)
        if g is not None and depth < 8:
            root = hirq.body_root(g)
            tail = root.get("expr") if root and root.get("k") == "block" and not root.get("stmts") else None
            ps = [p_.get("name") for p_ in (g.get("hir") or {}).get("params", [])]
            if tail is not None and tail.get("k") in ("bin", "cast", "path", "un") and all(ps) and len(ps) == len(n["args"]):
                inner = dict(zip(ps, [_Sub(a, subst) for a in n["args"]]))
                return norm_expr(tail, inner, depth + 1)
        return "%s(%s)" % (last2(fnp), ",".join(norm_expr(a, subst, depth + 1) for a in n["args"]))
    if k == "index":
        return "%s[%s]" % (norm_expr(n["e"], subst, depth + 1), norm_expr(n["i"], subst, depth + 1))
    if k == "try":
        return norm_expr(n["e"], subst, depth + 1)
    return hirq.expr_str(n)


def const_of(fx, n):
    import tables
    try:
        return tables.eval_const(fx, n)
    except tables.NotConst:
        return None


def norm_cond(fx, c, subst=None):
    """canonical atom(s) of a condition: returns (atom string, polarity) or ('?'+text, True)
       version==1 ; flags&<mask> ; some(<field>) ; <expr><op><const>"""
    k = c.get("k")
    if k == "un" and c.get("op") == "Not":
        a, pol = norm_cond(fx, c["e"], subst)
        return a, not pol
    if k == "block" and not c.get("stmts") and "expr" in c:
        return norm_cond(fx, c["expr"], subst)
    if k == "bin":
        op = c["op"]
        l, r = c["l"], c["r"]
        lc, rc = const_of(fx, l), const_of(fx, r)
        # flag tests: (A & B) > 0 | != 0 | == mask
        for a, b, bc in ((l, r, rc), (r, l, lc)):
            aa = hirq.strip_wrappers(a)
            while aa.get("k") == "block" and not aa.get("stmts") and "expr" in aa:
                aa = aa["expr"]
            if aa.get("k") == "bin" and aa["op"] == "BitAnd" and bc is not None:
                m1, m2 = const_of(fx, aa["l"]), const_of(fx, aa["r"])
                mask = m1 if m1 is not None else m2
                var = aa["r"] if m1 is not None else aa["l"]
                if mask is not None:
                    atom = "%s&0x%x" % (norm_expr(var, subst), mask)
                    if (op in ("Gt", "Ne") and bc == 0) or (op == "Eq" and bc == mask):
                        return atom, True
                    if op == "Eq" and bc == 0:
                        return atom, False
        if op in ("Eq", "Ne") and (rc is not None or lc is not None):
            var = l if rc is not None else r
            cv = rc if rc is not None else lc
            atom = "%s==%s" % (norm_expr(var, subst), cv)
            return atom, op == "Eq"
        if op in ("Gt", "Ge", "Lt", "Le") and rc is not None:
            return "%s%s%s" % (norm_expr(l, subst), {"Gt": ">", "Ge": ">=", "Lt": "<", "Le": "<="}[op], rc), True
    if k == "mcall" and c["m"] in ("is_some", "is_none") and not c["args"]:
        return "some(%s)" % norm_expr(c["recv"], subst), c["m"] == "is_some"
    if k == "mcall" and c["m"] == "is_empty" and not c["args"]:
        return "empty(%s)" % norm_expr(c["recv"], subst), True
    if k == "path" and c.get("ty") == "bool":
        return norm_expr(c, subst), True
    if k == "field" and c.get("ty") == "bool":
        return norm_expr(c, subst), True
    return "?" + norm_expr(c, subst), True
