"""P1: resolved call graph over the local crate; reachability closures; SCCs."""
from mir import body_of, callee_path, op_place


class CallGraph:
    def __init__(self, fx):
        self.fx = fx
        self.edges = {}      # caller id -> set(callee id)  (local callees only)
        self.ext = {}        # caller id -> set(external callee path)
        self.sites = {}      # caller id -> list of (bb, term, callee_id_or_path, is_local)
        self.unresolved = {}  # caller id -> list of (bb, term) trait calls on generic params
        self.poly = {}        # generic fn id -> {(trait, method, type parameter)}: dispatch decided by the instantiation
        for fid, fn in fx.fns.items():
            body = body_of(fn)
            e = set()
            x = set()
            sites = []
            unres = []
            if body is None:
                self.edges[fid] = e
                self.ext[fid] = x
                self.sites[fid] = sites
                continue
            for b in range(body.n):
                # closure creation and fn-item references inside statements
                for s in body.stmts(b):
                    if s["k"] != "assign":
                        continue
                    rv = s["rv"]
                    if rv["k"] == "agg" and rv.get("ak") in ("closure", "coroutine"):
                        if rv["def"] in fx.fns:
                            e.add(rv["def"])
                    for op in _rv_operands(rv):
                        c = op.get("const")
                        if c and c.get("fn"):
                            tgt = c["fn"]
                            if tgt in fx.fns:
                                e.add(tgt)
                t = body.term(b)
                if t["k"] in ("call", "tailcall"):
                    c = t["callee"]
                    p = callee_path(c)
                    if p is None:
                        unres.append((b, t))
                        continue
                    if p in fx.fns:
                        e.add(p)
                        sites.append((b, t, p, True))
                    else:
                        decl = c.get("path")
                        if c.get("resolved") is None and c.get("trait") and decl:
                            gens = _generics_of(fx, fid)
                            targs = c.get("targs") or []
                            if gens is not None and targs and targs[0] in gens:
                                # trait method on a type parameter of the enclosing function: the target depends on the
                                # instantiation, so it is resolved at every call site of this function (second pass)
                                self.poly.setdefault(_owner(fid), set()).add((c["trait"], decl.split("::")[-1], targs[0]))
                                sites.append((b, t, decl, False))
                                continue
                            # trait method on a generic parameter: every local impl is a possible target
                            cands = _impls_of_trait_method(fx, c["trait"], decl.split("::")[-1])
                            for cand in cands:
                                e.add(cand)
                            if not cands:
                                x.add(decl)
                            sites.append((b, t, decl, False))
                        else:
                            x.add(p)
                            sites.append((b, t, p, False))
                    for a in t["args"]:
                        cc = a.get("const")
                        if cc and cc.get("fn") and cc["fn"] in fx.fns:
                            e.add(cc["fn"])
            self.edges[fid] = e
            self.ext[fid] = x
            self.sites[fid] = sites
            self.unresolved[fid] = unres
        # second pass: resolve parameter-dispatched trait calls at the call sites of the generic function (to a fixpoint:
        # a caller that forwards its own type parameter becomes polymorphic itself)
        changed = True
        rounds = 0
        while changed and rounds < 8:
            changed = False
            rounds += 1
            for caller, sites in self.sites.items():
                cgens = _generics_of(fx, caller) or []
                for b, t, callee, is_local in sites:
                    if not is_local or callee not in self.poly:
                        continue
                    ggens = _generics_of(fx, callee) or []
                    targs = [a for a in (t["callee"].get("targs") or [])]
                    if len(targs) != len(ggens):
                        # cannot match type arguments to parameters: every impl is a possible target
                        for tr, m, _p in self.poly[callee]:
                            for cand in _impls_of_trait_method(fx, tr, m):
                                if cand not in self.edges[caller]:
                                    self.edges[caller].add(cand)
                                    changed = True
                        continue
                    mp = dict(zip(ggens, targs))
                    for tr, m, pname in sorted(self.poly[callee]):
                        ty = mp.get(pname)
                        if ty is None:
                            continue
                        if ty in cgens:
                            ent = (tr, m, ty)
                            if ent not in self.poly.setdefault(_owner(caller), set()):
                                self.poly[_owner(caller)].add(ent)
                                changed = True
                            continue
                        base = ty.lstrip("&").replace("mut ", "").strip()
                        for cand in _impls_of_trait_method(fx, tr, m):
                            st_ = (fx.fns[cand].get("impl") or {}).get("self_ty") or ""
                            if st_ == base or st_.split("<")[0] == base.split("<")[0]:
                                if cand not in self.edges[caller]:
                                    self.edges[caller].add(cand)
                                    changed = True
        # a polymorphic function that is never called with concrete types from local code (a public generic API): all impls
        called = {callee for sites in self.sites.values() for _b, _t, callee, loc in sites if loc}
        for g, ents in self.poly.items():
            if g not in called and g in self.edges:
                for tr, m, _p in ents:
                    for cand in _impls_of_trait_method(fx, tr, m):
                        self.edges[g].add(cand)
        self.callers = {}
        for a, bs in self.edges.items():
            for b in bs:
                self.callers.setdefault(b, set()).add(a)

    def instantiations(self, fid):
        """concrete types the type parameters of generic function `fid` are given at its local call sites (union over sites)"""
        gens = _generics_of(self.fx, fid) or []
        out = set()
        for caller, sites in self.sites.items():
            for b, t, callee, is_local in sites:
                if is_local and callee == fid:
                    targs = t["callee"].get("targs") or []
                    if len(targs) == len(gens):
                        out |= {a.lstrip("&").replace("mut ", "").strip() for a in targs}
        return out

    def closure(self, entries):
        seen = set()
        st = [e for e in entries if e in self.fx.fns]
        while st:
            f = st.pop()
            if f in seen:
                continue
            seen.add(f)
            st.extend(self.edges.get(f, ()))
        return seen

    def callers_of(self, fid):
        return self.callers.get(fid, set())

    def sccs(self, nodes):
        """Tarjan over the subgraph induced by nodes; returns list of SCCs with >1 node or a self loop"""
        nodes = set(nodes)
        index = {}
        low = {}
        onstack = set()
        stack = []
        out = []
        counter = [0]

        def strong(v):
            work = [(v, iter(sorted(self.edges.get(v, ()) & nodes)))]
            index[v] = low[v] = counter[0]
            counter[0] += 1
            stack.append(v)
            onstack.add(v)
            while work:
                node, it = work[-1]
                adv = False
                for w in it:
                    if w not in index:
                        index[w] = low[w] = counter[0]
                        counter[0] += 1
                        stack.append(w)
                        onstack.add(w)
                        work.append((w, iter(sorted(self.edges.get(w, ()) & nodes))))
                        adv = True
                        break
                    elif w in onstack:
                        low[node] = min(low[node], index[w])
                if adv:
                    continue
                work.pop()
                if work:
                    parent = work[-1][0]
                    low[parent] = min(low[parent], low[node])
                if low[node] == index[node]:
                    comp = []
                    while True:
                        w = stack.pop()
                        onstack.discard(w)
                        comp.append(w)
                        if w == node:
                            break
                    if len(comp) > 1 or node in self.edges.get(node, ()):
                        out.append(sorted(comp))

        for v in sorted(nodes):
            if v not in index:
                strong(v)
        return out

    def topo(self, nodes):
        """callees-first order of an acyclic node set"""
        nodes = set(nodes)
        seen = set()
        order = []

        def visit(v):
            stack = [(v, iter(sorted(self.edges.get(v, ()) & nodes)))]
            seen.add(v)
            while stack:
                node, it = stack[-1]
                adv = False
                for w in it:
                    if w not in seen:
                        seen.add(w)
                        stack.append((w, iter(sorted(self.edges.get(w, ()) & nodes))))
                        adv = True
                        break
                if not adv:
                    order.append(node)
                    stack.pop()

        for v in sorted(nodes):
            if v not in seen:
                visit(v)
        return order


def _rv_operands(rv):
    k = rv["k"]
    if k in ("use", "cast", "un", "repeat"):
        return [rv["a"]]
    if k == "bin":
        return [rv["a"], rv["b"]]
    if k == "agg":
        return rv["ops"]
    return []


def _owner(fid):
    """closures dispatch on their parent function's type parameters"""
    return fid.split("::{closure")[0]


def _generics_of(fx, fid):
    f = fx.fns.get(_owner(fid))
    return f.get("generics") if f else None


_impl_cache = {}


def _impls_of_trait_method(fx, trait_path, method):
    key = (id(fx), trait_path, method)
    r = _impl_cache.get(key)
    if r is None:
        r = []
        for f in fx.fns.values():
            im = f.get("impl")
            if im and im.get("trait_path") == trait_path and f["name"] == method:
                r.append(f["id"])
        _impl_cache[key] = r
    return r


_cg = {}


def callgraph(fx):
    g = _cg.get(id(fx))
    if g is None:
        g = CallGraph(fx)
        _cg[id(fx)] = g
    return g
