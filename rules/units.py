"""units.py -- dimension and scope inference over the type-checked HIR (a domain type system, decided without running anything).

The sample-table code computes with five kinds of integers that the Rust types do not distinguish (all are u32/u64/usize):
sample numbers, chunk numbers, byte offsets / sizes, media ticks, movie ticks.  ISO/IEC 14496-12 fixes for every table field
which kind it holds and whether it is a *point* (an absolute number or offset: sample id, chunk id, file offset, decode
time) or a *vector* (a count, size, duration, index).  This module assigns those dimensions to the table fields (table
FIELDS, transcribed from the box definitions), infers the dimension of every expression of a function from the typed HIR,
and reports an operation whose operands are dimensionally incompatible:

  unit    sum / difference / comparison / store / index / argument of two different quantities (chunks vs samples, bytes vs
          ticks, media ticks vs movie ticks, ...); a product or quotient is formed by exponent arithmetic
          (samples x ticks/sample = ticks; samples / (samples/chunk) = chunks; ticks x (movie ticks/s) / (ticks/s) = movie ticks)
  point   an absolute number is multiplied, divided, reduced modulo something or added to another absolute number
  scope   a file-relative index (`id - constant`) is combined with a quantity that is local to one run / chunk / fragment:
          added to that run's origin (chunk offset, base decode time, base data offset), divided by its samples_per_chunk,
          multiplied by its per-sample delta, or used to index a per-fragment array
  width   a sum or product of byte or tick quantities is formed in a type narrower than 64 bits
  sign    a quantity ISO declares signed (trun data offset, composition offset) is cast from a signed to an unsigned type
  bound   half-open interval discipline: a zero-based position is compared with a count, or a number with the first number
          of a run, using the inclusive operator (`position <= count`, `number <= first_of_next_run`)

Unknown constructs evaluate to "unknown" and unknown never conflicts with anything: a construct the evaluator does not
understand silences the rule for the values that flow through it, it never raises an alarm.  Literals are polymorphic
(`x - 1` may be the previous id or the zero-based index), which is why off-by-one errors are NOT decided here.
"""
import hirq
from facts import short

class _Lit:
    """an integer literal (polymorphic in dimension); `val` is its value when known"""
    __slots__ = ("val",)

    def __init__(self, val=None):
        self.val = val

    def __repr__(self):
        return "lit"


LIT = _Lit(None)


def islit(x):
    return isinstance(x, _Lit)


class D:
    """concrete dimension. kind: 'P' point, 'V' vector, 'PL' point-minus-literal (previous point or file-relative index).
    u: unit as sorted tuple of (base, exponent). scope: 'file' | 'local' | None."""
    __slots__ = ("kind", "u", "scope", "signed", "role")

    def __init__(self, kind, u, scope=None, signed=False, role=None):
        self.signed = signed      # the quantity may be negative (ISO declares the field signed)
        self.role = role          # 'count' (how many), 'index' (zero-based position), 'origin' (number of the first element of a run)
        self.kind = kind
        self.u = tuple(sorted((b, e) for b, e in (u.items() if isinstance(u, dict) else u) if e))
        self.scope = scope

    def __eq__(self, o):
        return isinstance(o, D) and (self.kind, self.u, self.scope) == (o.kind, o.u, o.scope)

    def __hash__(self):
        return hash((self.kind, self.u, self.scope))

    def __repr__(self):
        return show(self)


class Tup:
    def __init__(self, es):
        self.es = list(es)


class Coll:
    """collection: element value, unit base of its index, scope of its index ('file': numbered over the whole track,
    'local': numbered within one fragment run, None: an entry table searched by value)"""
    def __init__(self, elem, ibase, iscope, name):
        self.elem, self.ibase, self.iscope, self.name = elem, ibase, iscope, name


class Iter:
    def __init__(self, item):
        self.item = item


class Clo:
    def __init__(self, node):
        self.node = node


def U(**kw):
    return dict(kw)


def ustr(u):
    num = [b if e == 1 else "%s^%d" % (b, e) for b, e in u if e > 0]
    den = [b if e == -1 else "%s^%d" % (b, -e) for b, e in u if e < 0]
    s = "*".join(num) or "1"
    if den:
        s += "/" + "/".join(den)
    return s


def show(v):
    if v is None:
        return "?"
    if islit(v):
        return "lit"
    if isinstance(v, D):
        k = {"P": "point", "V": "", "PL": "abs-or-rel"}[v.kind]
        s = (k + " " if k else "") + ustr(v.u)
        if v.scope:
            s += "{%s}" % v.scope
        return s
    if isinstance(v, Tup):
        return "(" + ", ".join(show(e) for e in v.es) + ")"
    if isinstance(v, Coll):
        return "table " + v.name
    if isinstance(v, Iter):
        return "iter<" + show(v.item) + ">"
    return type(v).__name__


def umul(a, b, sign=1):
    d = dict(a)
    for k, e in b:
        d[k] = d.get(k, 0) + sign * e
    return tuple(sorted((k, e) for k, e in d.items() if e))


def strip_rate(u):
    """X/S -> X, S/C -> S: a per-sample (per-chunk) rate used as the quantity of one sample (one chunk)"""
    d = dict(u)
    for per in ("S", "C"):
        if d.get(per) == -1 and len(d) > 1:
            del d[per]
            return tuple(sorted(d.items()))
    return u


def ucompat(a, b):
    """the common unit of two addable / comparable units, or None"""
    if a == b:
        return a
    if strip_rate(a) == b:
        return b
    if a == strip_rate(b):
        return a
    if strip_rate(a) == strip_rate(b):
        return strip_rate(a)
    return None


def P(base, scope=None):
    return D("P", {base: 1}, scope)


def V(scope=None, **u):
    return D("V", u, scope)


# ---------------------------------------------------------------------------------------------------------------------------
# dimensions of the table fields (ISO/IEC 14496-12 8.6.1.2 stts, 8.6.1.3 ctts, 8.6.2 stss, 8.7.3 stsz, 8.7.4 stsc, 8.7.5 stco/co64,
# 8.8.7 tfhd, 8.8.8 trun, 8.8.12 tfdt, 8.8.3 trex, 8.4.2 mdhd, 8.3.2 tkhd, 8.2.2 mvhd) and of the crate's own bookkeeping fields.
# S samples, C chunks, B bytes, Tm media ticks, Tv movie ticks, sec seconds, E:<x> position in table x.
def _fields():
    F = {}
    F[("StscEntry", "first_chunk")] = D("P", {"C": 1}, "local", role="origin")
    F[("StscEntry", "samples_per_chunk")] = V("local", S=1, C=-1)
    F[("StscEntry", "first_sample")] = D("P", {"S": 1}, "local", role="origin")
    F[("StscBox", "entries")] = Coll("StscEntry", "E:stsc", None, "stsc.entries")
    F[("StszBox", "sample_size")] = V(None, B=1, S=-1)
    F[("StszBox", "sample_count")] = D("V", {"S": 1}, None, role="count")
    F[("StszBox", "sample_sizes")] = Coll(V(None, B=1), "S", "file", "stsz.sample_sizes")
    F[("StcoBox", "entries")] = Coll(P("B", "local"), "C", "file", "stco.entries")
    F[("Co64Box", "entries")] = Coll(P("B", "local"), "C", "file", "co64.entries")
    F[("SttsBox", "entries")] = Coll("SttsEntry", "E:stts", None, "stts.entries")
    F[("SttsEntry", "sample_count")] = D("V", {"S": 1}, None, role="count")
    F[("SttsEntry", "sample_delta")] = V("local", Tm=1, S=-1)
    F[("CttsBox", "entries")] = Coll("CttsEntry", "E:ctts", None, "ctts.entries")
    F[("CttsEntry", "sample_count")] = D("V", {"S": 1}, None, role="count")
    F[("CttsEntry", "sample_offset")] = D("V", {"Tm": 1}, None, signed=True)
    F[("StssBox", "entries")] = Coll(P("S"), "E:stss", None, "stss.entries")
    F[("TrunBox", "sample_count")] = D("V", {"S": 1}, None, role="count")
    F[("TrunBox", "data_offset")] = D("V", {"B": 1}, None, signed=True)
    F[("TrunBox", "sample_sizes")] = Coll(V(None, B=1), "S", "local", "trun.sample_sizes")
    F[("TrunBox", "sample_durations")] = Coll(V(None, Tm=1), "S", "local", "trun.sample_durations")
    F[("TrunBox", "sample_cts")] = Coll(V(None, Tm=1), "S", "local", "trun.sample_cts")
    F[("TfhdBox", "base_data_offset")] = P("B", "local")
    F[("TfhdBox", "default_sample_duration")] = V("local", Tm=1, S=-1)
    F[("TfhdBox", "default_sample_size")] = V("local", B=1, S=-1)
    F[("TfdtBox", "base_media_decode_time")] = P("Tm", "local")
    F[("TrexBox", "default_sample_duration")] = V(None, Tm=1, S=-1)
    F[("TrexBox", "default_sample_size")] = V(None, B=1, S=-1)
    F[("Mp4Track", "default_sample_duration")] = V(None, Tm=1, S=-1)
    F[("Mp4Track", "moof_offsets")] = Coll(P("B", "local"), "E:traf", None, "moof_offsets")
    F[("Mp4Track", "trafs")] = Coll("TrafBox", "E:traf", None, "trafs")
    F[("MdhdBox", "timescale")] = V(None, Tm=1, sec=-1)
    F[("MdhdBox", "duration")] = V(None, Tm=1)
    F[("TkhdBox", "duration")] = V(None, Tv=1)
    F[("MvhdBox", "timescale")] = V(None, Tv=1, sec=-1)
    F[("MvhdBox", "duration")] = V(None, Tv=1)
    F[("MehdBox", "fragment_duration")] = V(None, Tv=1)
    F[("Mp4Sample", "start_time")] = P("Tm")
    F[("Mp4Sample", "duration")] = V(None, Tm=1)
    F[("Mp4Sample", "rendering_offset")] = D("V", {"Tm": 1}, None, signed=True)
    F[("TrackConfig", "timescale")] = V(None, Tm=1, sec=-1)
    F[("Mp4Config", "timescale")] = V(None, Tv=1, sec=-1)
    F[("Mp4TrackWriter", "sample_id")] = P("S")
    F[("Mp4TrackWriter", "chunk_samples")] = V(None, S=1)
    F[("Mp4TrackWriter", "chunk_duration")] = V(None, Tm=1)
    F[("Mp4TrackWriter", "fixed_sample_size")] = V(None, B=1, S=-1)
    F[("Mp4Writer", "timescale")] = V(None, Tv=1, sec=-1)
    F[("Mp4Writer", "duration")] = V(None, Tv=1)
    F[("Mp4Writer", "mdat_pos")] = P("B")
    return F


FIELDS = _fields()

# entry points: the dimension of "the sample-number parameter" / "the movie-timescale parameter" and of the returned value.
# The parameter is found by name, else as the only u32 parameter (a refactoring may add or reorder parameters); if neither
# identifies it, it stays unknown.
ENTRY = {
    "Mp4Track::read_sample": (("sample_id", P("S")), None),
    "Mp4Track::sample_offset": (("sample_id", P("S")), P("B")),
    "Mp4Track::sample_count": (None, V(None, S=1)),
    "Mp4TrackWriter::write_sample": (("movie_timescale", V(None, Tv=1, sec=-1)), V(None, Tv=1)),
}


def entry_params(fn, name):
    """{parameter position: dimension} for an entry function"""
    decl = ENTRY.get(name)
    if not decl or not decl[0]:
        return {}
    pname, dim = decl[0]
    ps = fn["hir"].get("params", [])
    by_name = [i for i, p in enumerate(ps) if p.get("k") == "bind" and p.get("name") == pname]
    if len(by_name) == 1:
        return {by_name[0]: dim}
    u32s = [i for i, p in enumerate(ps) if p.get("k") == "bind" and p.get("ty") == "u32"]
    if len(u32s) == 1:
        return {u32s[0]: dim}
    return {}


MUXER_ENTRIES = [("Mp4TrackWriter", "new"), ("Mp4TrackWriter", "write_sample"), ("Mp4TrackWriter", "write_end"), ("Mp4Writer", "write_start"),
                 ("Mp4Writer", "add_track"), ("Mp4Writer", "write_sample"), ("Mp4Writer", "write_end")]

TRANSPARENT_M = {
    "clone", "as_ref", "as_mut", "unwrap", "expect", "ok_or", "ok_or_else", "unwrap_or_default", "copied", "cloned", "into",
    "try_into", "iter", "iter_mut", "into_iter", "as_slice", "deref", "deref_mut", "borrow", "borrow_mut", "to_owned", "ok",
    "as_deref", "as_deref_mut", "take", "unwrap_unchecked", "abs", "unsigned_abs", "to_vec", "by_ref", "rev", "as_mut_slice",
}
ARITH_M = {
    "checked_add": "Add", "checked_sub": "Sub", "checked_mul": "Mul", "checked_div": "Div", "checked_rem": "Rem",
    "wrapping_add": "Add", "wrapping_sub": "Sub", "wrapping_mul": "Mul", "saturating_add": "Add", "saturating_sub": "Sub",
    "saturating_mul": "Mul", "checked_add_signed": "Add", "wrapping_add_signed": "Add", "saturating_add_signed": "Add",
    "abs_diff": "Sub", "div_euclid": "Div", "rem_euclid": "Rem",
}
CMP = {"Lt", "Le", "Gt", "Ge", "Eq", "Ne"}
NARROW = {"u8", "u16", "u32", "i8", "i16", "i32"}


def tshort(ty):
    """short name of the nominal type behind references"""
    t = (ty or "").strip()
    while t.startswith("&"):
        t = t[1:].strip()
        if t.startswith("mut "):
            t = t[4:].strip()
        if t.startswith("'"):
            t = t.split(" ", 1)[1] if " " in t else t
    t = t.split("<")[0]
    return t.split("::")[-1]


class Cell:
    __slots__ = ("v",)

    def __init__(self, v=None):
        self.v = v


class Units:
    def __init__(self, fx):
        self.fx = fx
        self.errors = {}        # key -> dict(fn, kind, detail, line, region)
        self.checked = {}       # (fn short, region) -> number of operations with both dimensions known and compatible
        self.sites = {}         # (fn short, region) -> set of (line, what) checked
        self.depth = 0
        self.stack = []
        self.memo = {}
        self.record = True
        self.region = None
        self.fn_stack = []

    # -- reporting -------------------------------------------------------------------------------------------------------
    def cur(self):
        return self.fn_stack[-1] if self.fn_stack else "?"

    def err(self, kind, sig, detail, n):
        if not self.record:
            return
        key = "%s|%s|%s" % (self.cur(), kind, sig)
        self.errors.setdefault(key, {"fn": self.cur(), "root": self.fn_stack[0] if self.fn_stack else "?", "kind": kind, "detail": detail, "line": n.get("line"), "region": self.region, "sig": sig})

    def ok(self, what, n):
        if not self.record:
            return
        k = (self.cur(), self.region)
        s = self.sites.setdefault(k, set())
        s.add((n.get("line"), what))
        self.checked[k] = len(s)

    # -- value helpers ---------------------------------------------------------------------------------------------------
    def field_value(self, owner_ty, name):
        v = FIELDS.get((tshort(owner_ty), name))
        return v

    def merge(self, a, b, n=None, what="merge"):
        """value of a variable / expression that may be either a or b"""
        if a is None or islit(a):
            return b if b is not None else a
        if b is None or islit(b):
            return a
        if isinstance(a, D) and isinstance(b, D):
            u = ucompat(a.u, b.u)
            if u is None:
                if n is not None:
                    self.err("unit", "%s <- %s | %s" % (what, show(a), show(b)), "one value is both %s and %s" % (show(a), show(b)), n)
                return a
            if a.kind == b.kind:
                kind = a.kind
            elif "PL" in (a.kind, b.kind):
                kind = a.kind if b.kind == "PL" else b.kind      # the ambiguous one takes the other's kind
            else:
                kind = "PL"                                      # point on one path, vector on another: undecided
            scope = a.scope if a.scope == b.scope else None      # different scopes on different paths: undecided
            if n is not None:
                self.ok(what, n)
            return D(kind, u, scope, signed=a.signed or b.signed, role=a.role if a.role == b.role else None)
        if isinstance(a, Tup) and isinstance(b, Tup) and len(a.es) == len(b.es):
            return Tup([self.merge(x, y, n, what) for x, y in zip(a.es, b.es)])
        return a

    def as_vec(self, d):
        """a point-minus-literal used as a vector is the file-relative index"""
        if isinstance(d, D) and d.kind == "PL":
            return D("V", d.u, d.scope)
        return d

    # -- arithmetic ------------------------------------------------------------------------------------------------------
    def binop(self, op, a, b, n):
        ty = n.get("ty")
        if op in ("And", "Or"):
            return None
        if op in ("BitAnd", "BitOr", "BitXor", "Shl", "Shr"):
            return None
        if a is None or b is None:
            if op in ("Add", "Sub") and (islit(a) or islit(b)):
                return None
            return None
        if not (islit(a) or isinstance(a, D)) or not (islit(b) or isinstance(b, D)):
            return None
        sig = "%s %s %s" % (show(a), op, show(b))
        if op in CMP:
            if isinstance(a, D) and isinstance(b, D):
                if ucompat(a.u, b.u) is None:
                    self.err("unit", sig, "a %s is compared with a %s" % (show(a), show(b)), n)
                else:
                    self.bound(op, a, b, n)
                    self.ok("cmp", n)
            return None
        if islit(a) and islit(b):
            return LIT
        if op == "Add":
            if islit(a) or islit(b):
                x, lit = (b, a) if islit(a) else (a, b)
                if x.kind == "V":
                    # 1 + count: the number of the first element after a run of `count` (numbering starts at 1);
                    # 0 + count: still a count
                    role = None
                    if x.role == "count":
                        role = "origin" if lit.val == 1 else ("count" if lit.val == 0 else None)
                    return D("PL", x.u, None, role=role)
                return x
            u = ucompat(a.u, b.u)
            if u is None:
                self.err("unit", sig, "a %s is added to a %s" % (show(a), show(b)), n)
                return None
            pts = [x for x in (a, b) if x.kind == "P"]
            if len(pts) == 2:
                self.err("point", sig, "two absolute quantities (%s, %s) are added" % (show(a), show(b)), n)
                return None
            if pts:
                p = pts[0]
                v = self.as_vec(b if p is a else a)
                if p.scope == "local" and v.scope == "file":
                    self.err("scope", sig, "a file-relative quantity (%s) is added to the origin of one run / chunk / fragment (%s)" % (show(v), show(p)), n)
                    return None
                self.width(op, D("P", u), a, b, n)
                self.ok("add", n)
                return D("P", u, p.scope)
            sc = "file" if "file" in (a.scope, b.scope) and "local" not in (a.scope, b.scope) else None
            roles = {a.role, b.role}
            # (first number of a run) + (count of the run) = first number of the next run; count + count = count
            role = "origin" if "origin" in roles and roles <= {"origin", "count"} else ("count" if roles == {"count"} else None)
            r = D("PL" if "PL" in (a.kind, b.kind) else "V", u, sc, role=role)
            self.width(op, r, a, b, n)
            self.ok("add", n)
            return r
        if op == "Sub":
            if islit(a):
                return None
            if islit(b):
                if a.kind == "P":
                    return D("PL", a.u, "file", role="index")
                return D(a.kind, a.u, a.scope, role=a.role if a.role == "index" else None)
            u = ucompat(a.u, b.u)
            if u is None:
                self.err("unit", sig, "a %s is subtracted from a %s" % (show(b), show(a)), n)
                return None
            if a.kind == "V" and b.kind == "P":
                self.err("point", sig, "an absolute quantity (%s) is subtracted from a relative one (%s)" % (show(b), show(a)), n)
                return None
            self.ok("sub", n)
            if a.kind == "P" and b.kind == "P":
                return D("V", u, "local", role="index")
            if a.kind == "P" and b.kind == "V":
                return D("P", u, None)
            if a.kind == "PL" and b.kind == "P":
                return D("V", u, None, role="index")
            if a.kind == "V":
                return D("V", u, None, role="index" if a.role == "index" and b.role == "count" else None)
            # (number - 1) - count of earlier runs: still a zero-based position; number - origin-like: a position in the run
            return D("PL", u, None, role="index" if (a.role == "index" and b.role in ("count", None)) or (a.kind == "P" and b.role == "origin") else None)
        if op in ("Mul", "Div", "Rem"):
            for x, other in ((a, b), (b, a)):
                if isinstance(x, D) and x.kind == "P":
                    self.err("point", sig, "an absolute quantity (%s) is %s" % (show(x), {"Mul": "multiplied", "Div": "part of a division", "Rem": "part of a remainder"}[op]), n)
                    return None
            a2, b2 = self.as_vec(a), self.as_vec(b)
            if islit(a2):
                return b2 if op == "Mul" else None
            if islit(b2):
                return D("V", a2.u, a2.scope)
            if {a2.scope, b2.scope} == {"file", "local"}:
                self.err("scope", sig, "a file-relative index (%s) is combined with a quantity of one run / fragment (%s)" % (show(a2 if a2.scope == "file" else b2), show(b2 if a2.scope == "file" else a2)), n)
                return None
            if op == "Mul":
                u = umul(a2.u, b2.u)
                sc = "file" if "file" in (a2.scope, b2.scope) else None
                r = D("V", u, sc)
                self.width(op, r, a, b, n)
                self.ok("mul", n)
                return r
            q = umul(a2.u, b2.u, -1)
            if op == "Div":
                self.ok("div", n)
                return D("V", q, "file" if a2.scope == "file" else None)
            # remainder: the quotient must be a plain count of something (samples % samples/chunk), or dimensionless
            if len(q) > 1 or any(e != 1 for _, e in q):
                self.err("unit", sig, "remainder of a %s by a %s" % (show(a2), show(b2)), n)
                return None
            self.ok("rem", n)
            return D("V", a2.u, "local" if b2.scope == "local" else a2.scope)
        return None

    def bound(self, op, a, b, n):
        """half-open interval discipline at run boundaries: a zero-based position lies in a run of `count` elements iff
        position < count; a number lies before the run that starts at `origin` iff number < origin.  The inclusive forms
        (position <= count, number <= origin and their mirrors) put the boundary element into the wrong run."""
        if op in ("Eq", "Ne"):
            return
        flip = {"Lt": "Gt", "Gt": "Lt", "Le": "Ge", "Ge": "Le"}
        for x, y, o in ((a, b, op), (b, a, flip[op])):
            # x is the moving quantity, y the boundary
            if x.role == "index" and y.role == "count" and o in ("Le", "Gt"):
                self.err("bound", "%s %s %s" % (show(x), o, show(y)), "a zero-based position is compared with a count using %s: position == count is one past the last element (use < / >=)" % {"Le": "<=", "Gt": ">"}[o], n)
                return
            if x.kind == "P" and x.role is None and y.role == "origin" and o in ("Le", "Gt"):
                self.err("bound", "%s %s %s" % (show(x), o, show(y)), "a sample / chunk number is compared with the first number of a run using %s: the run that starts at that number already contains it (use < / >=)" % {"Le": "<=", "Gt": ">"}[o], n)
                return
        if {a.role, b.role} & {"index", "origin"} and {a.role, b.role} & {"count", "origin"}:
            self.ok("bound", n)

    def width(self, op, r, a, b, n):
        if not self.widths or islit(a) or islit(b):
            return
        ty = n.get("ty") or n.get("_ty")
        if ty in NARROW and strip_rate(r.u) in ((("B", 1),), (("Tm", 1),), (("Tv", 1),)):
            self.err("width", "%s %s %s in %s" % (show(a), op, show(b), ty), "a %s of %s quantities is formed in %s: it wraps (release) or panics (debug) for values the 64-bit result type can hold"
                     % ({"Add": "sum", "Mul": "product"}[op], ustr(strip_rate(r.u)), ty), n)

    # -- checks against a declared dimension -----------------------------------------------------------------------------
    def check_against(self, got, want, what, n):
        """value `got` is stored into / passed as / returned as something declared `want`"""
        if isinstance(want, str):
            return
        if isinstance(want, Coll) or isinstance(got, (Coll, Iter, Clo)):
            return
        if isinstance(want, Tup) and isinstance(got, Tup):
            for g, w in zip(got.es, want.es):
                self.check_against(g, w, what, n)
            return
        if got is None or islit(got) or want is None or not isinstance(got, D) or not isinstance(want, D):
            return
        sig = "%s: %s <- %s" % (what, show(D(want.kind, want.u)), show(got))
        if ucompat(got.u, want.u) is None:
            self.err("unit", sig, "%s holds a %s but receives a %s" % (what, show(want), show(got)), n)
            return
        if want.kind == "P" and got.kind == "V":
            self.err("point", sig, "%s is an absolute %s but receives a relative quantity (%s)" % (what, ustr(want.u), show(got)), n)
            return
        if want.kind == "V" and got.kind == "P":
            self.err("point", sig, "%s is a relative %s but receives an absolute quantity (%s)" % (what, ustr(want.u), show(got)), n)
            return
        self.ok("store:" + what, n)

    def check_index(self, coll, idx, n):
        if not isinstance(coll, Coll) or idx is None or islit(idx) or not isinstance(idx, D):
            return
        want_u = ((coll.ibase, 1),)
        sig = "%s[%s]" % (coll.name, show(idx))
        if idx.kind == "P":
            self.err("point", sig, "%s is indexed by an absolute number (%s) instead of a zero-based index" % (coll.name, show(idx)), n)
            return
        if ucompat(idx.u, want_u) is None:
            self.err("unit", sig, "%s is indexed per %s but the index is a %s" % (coll.name, coll.ibase, show(idx)), n)
            return
        if coll.iscope == "local" and idx.scope == "file":
            self.err("scope", sig, "%s is numbered within one fragment run but the index is file-relative (%s)" % (coll.name, show(idx)), n)
            return
        if coll.iscope == "file" and idx.scope == "local":
            self.err("scope", sig, "%s is numbered over the whole track but the index is relative to one run (%s)" % (coll.name, show(idx)), n)
            return
        self.ok("index:" + coll.name, n)

    def elem_of(self, coll):
        if isinstance(coll, Coll):
            return coll.elem if not isinstance(coll.elem, str) else None
        return None

    # -- patterns --------------------------------------------------------------------------------------------------------
    def bind(self, pat, v, env, n=None):
        if not isinstance(pat, dict):
            return
        k = pat.get("k")
        if k == "bind":
            c = env.setdefault(pat["lid"], Cell())
            c.v = self.merge(c.v, v, n or pat, "variable " + pat.get("name", "?"))
            if isinstance(pat.get("sub"), dict):
                self.bind(pat["sub"], v, env, n)
        elif k == "tuple":
            for i, s in enumerate(pat.get("subs", [])):
                self.bind(s, v.es[i] if isinstance(v, Tup) and i < len(v.es) else None, env, n)
        elif k == "tuplestruct":
            ctor = (pat.get("ctor_of") or pat.get("def") or "").split("::")[-1]
            subs = pat.get("subs", [])
            if ctor in ("Some", "Ok") and len(subs) == 1:
                self.bind(subs[0], v, env, n)
            else:
                for s in subs:
                    self.bind(s, None, env, n)
        elif k == "ref":
            self.bind(pat.get("sub"), v, env, n)
        elif k == "struct":
            adt = tshort(pat.get("ty") or pat.get("def") or "")
            for f in pat.get("fields", []):
                fv = FIELDS.get((adt, f.get("name")))
                self.bind(f.get("pat"), fv if not isinstance(fv, str) else None, env, n)
        elif k == "slice":
            for s in (pat.get("before") or []) + (pat.get("after") or []):
                self.bind(s, None, env, n)
            if isinstance(pat.get("mid"), dict):
                self.bind(pat["mid"], None, env, n)

    # -- expressions -----------------------------------------------------------------------------------------------------
    def traf_test(self, c):
        """`self.trafs.is_empty()` -> 'nonfrag' (then-region), `!...` -> 'frag'; else None"""
        neg = False
        while c.get("k") == "un" and c.get("op") == "Not":
            neg = not neg
            c = c["e"]
        if c.get("k") == "mcall" and c.get("m") == "is_empty":
            r = c["recv"]
            while r.get("k") in ("addrof",) or (r.get("k") == "un" and r.get("op") == "Deref"):
                r = r["e"]
            if r.get("k") == "field" and r.get("name") == "trafs" and tshort(r["e"].get("ty")) == "Mp4Track":
                return "frag" if neg else "nonfrag"
        return None

    def ev(self, n, env):
        if not isinstance(n, dict):
            return None
        k = n.get("k")
        m = getattr(self, "ev_" + str(k), None)
        if m is None:
            for c in hirq.children(n):
                self.ev(c, env)
            return None
        return m(n, env)

    def ev_lit(self, n, env):
        if n.get("lk") != "int":
            return None
        v = n.get("val")
        return _Lit(v) if isinstance(v, int) else LIT

    def ev_path(self, n, env):
        if n.get("res") == "local":
            c = env.get(n.get("lid"))
            return c.v if c is not None else None
        dk = n.get("dk") or ""
        if "Const" in dk and (n.get("ty") or "") in ("u8", "u16", "u32", "u64", "usize", "i8", "i16", "i32", "i64", "isize"):
            return LIT
        return None

    def ev_field(self, n, env):
        base = self.ev(n["e"], env)
        fv = self.field_value(n["e"].get("ty"), n["name"])
        if fv is not None:
            return fv
        if isinstance(base, Tup) and n["name"].isdigit() and int(n["name"]) < len(base.es):
            return base.es[int(n["name"])]
        return None

    def ev_cast(self, n, env):
        v = self.ev(n["e"], env)
        src, dst = n["e"].get("ty") or "", n.get("ty") or ""
        if isinstance(v, D) and v.signed and src in ("i8", "i16", "i32", "i64", "isize") and dst in ("u8", "u16", "u32", "u64", "usize", "u128"):
            self.err("sign", "%s as %s" % (show(v), dst), "a signed %s (ISO allows it to be negative) is reinterpreted as %s: a negative value becomes a huge positive one" % (show(v), dst), n)
            return None
        return v

    def ev_addrof(self, n, env):
        return self.ev(n["e"], env)

    def ev_try(self, n, env):
        return self.ev(n["e"], env)

    def ev_un(self, n, env):
        v = self.ev(n["e"], env)
        if n.get("op") in ("Deref", "Neg"):
            return v
        return None

    def ev_expr(self, n, env):
        return self.ev(n["e"], env)

    def ev_semi(self, n, env):
        self.ev(n["e"], env)
        return None

    def ev_tup(self, n, env):
        return Tup([self.ev(e, env) for e in n.get("es", [])])

    def ev_bin(self, n, env):
        a = self.ev(n["l"], env)
        b = self.ev(n["r"], env)
        return self.binop(n["op"], a, b, n)

    def place_store(self, l, v, env, n):
        """assignment of value v to place expression l"""
        while l.get("k") == "un" and l.get("op") == "Deref":
            l = l["e"]
        if l.get("k") == "path" and l.get("res") == "local":
            c = env.setdefault(l.get("lid"), Cell())
            c.v = self.merge(c.v, v, n, "variable " + l.get("name", "?"))
        elif l.get("k") == "field":
            self.ev(l["e"], env)
            fv = self.field_value(l["e"].get("ty"), l["name"])
            if fv is not None:
                self.check_against(v, fv, "%s.%s" % (tshort(l["e"].get("ty")), l["name"]), n)
        elif l.get("k") == "index":
            coll = self.ev(l["e"], env)
            self.check_index(coll, self.ev(l["i"], env), n)
            e = self.elem_of(coll)
            if e is not None:
                self.check_against(v, e, "element of " + coll.name, n)
        else:
            self.ev(l, env)

    def ev_assign(self, n, env):
        v = self.ev(n["r"], env)
        self.place_store(n["l"], v, env, n)
        return None

    def ev_assignop(self, n, env):
        a = self.ev(n["l"], env)
        b = self.ev(n["r"], env)
        n2 = dict(n)
        n2["_ty"] = n["l"].get("ty")
        n2["ty"] = n["l"].get("ty")
        op = n["op"][:-6] if n["op"].endswith("Assign") else n["op"]
        r = self.binop(op, a, b, n2)
        if r is not None:
            self.place_store(n["l"], r, env, n)
        return None

    def ev_block(self, n, env):
        saved = self.region
        for s in n.get("stmts", []):
            self.ev(s, env)
            e = s.get("e") if s.get("k") in ("expr", "semi") else None
            if isinstance(e, dict) and e.get("k") == "if" and "else" not in e and (e["then"].get("ty") == "!"):
                t = self.traf_test(e["cond"])
                if t:
                    self.region = "nonfrag" if t == "frag" else "frag"
        v = self.ev(n["expr"], env) if isinstance(n.get("expr"), dict) else None
        self.region = saved
        return v

    def ev_let(self, n, env):
        v = self.ev(n["init"], env) if isinstance(n.get("init"), dict) else None
        self.bind(n["pat"], v, env, n)
        if isinstance(n.get("else"), dict):
            self.ev(n["else"], env)
        return None

    def ev_letx(self, n, env):
        v = self.ev(n["init"], env)
        self.bind(n["pat"], v, env, n)
        return None

    def ev_if(self, n, env):
        t = self.traf_test(n["cond"])
        self.ev(n["cond"], env)
        saved = self.region
        if t:
            self.region = t
        a = self.ev(n["then"], env)
        b = None
        if isinstance(n.get("else"), dict):
            if t:
                self.region = "nonfrag" if t == "frag" else "frag"
            b = self.ev(n["else"], env)
        self.region = saved
        return self.merge(a, b, n, "if")

    def ev_match(self, n, env):
        s = self.ev(n["scrut"], env)
        out = None
        for a in n.get("arms", []):
            self.bind(a.get("pat"), s, env, n)
            if isinstance(a.get("guard"), dict):
                self.ev(a["guard"], env)
            out = self.merge(out, self.ev(a["body"], env), n, "match")
        return out

    def item_of(self, v):
        if isinstance(v, Iter):
            return v.item
        if isinstance(v, Coll):
            return self.elem_of(v)
        return None

    def ev_for(self, n, env):
        it = self.ev(n["iter"], env)
        for _ in range(2):
            self.bind(n["pat"], self.item_of(it), env, n)
            self.ev(n["body"], env)
        return None

    def ev_while(self, n, env):
        for _ in range(2):
            self.ev(n["cond"], env)
            self.ev(n["body"], env)
        return None

    def ev_loop(self, n, env):
        for _ in range(2):
            self.ev(n["body"], env)
        return None

    def ev_ret(self, n, env):
        v = self.ev(n["e"], env) if isinstance(n.get("e"), dict) else None
        if self.stack:
            self.stack[-1].append((v, n))
        return None

    def ev_closure(self, n, env):
        return Clo(n)

    def apply(self, f, args, env, n):
        if isinstance(f, Clo):
            ps = f.node.get("params", [])
            for i, p in enumerate(ps):
                self.bind(p, args[i] if i < len(args) else None, env, n)
            return self.ev(f.node["body"], env)
        return None

    def ev_struct(self, n, env):
        d = (n.get("def") or "")
        last = d.split("::")[-1]
        fs = {f["name"]: self.ev(f["e"], env) for f in n.get("fields", [])}
        if isinstance(n.get("base"), dict):
            self.ev(n["base"], env)
        if d.startswith("core::ops::range::") or last in ("Range", "RangeInclusive", "RangeTo", "RangeFrom", "RangeToInclusive"):
            a, b = fs.get("start"), fs.get("end")
            if last in ("Range", "RangeInclusive") and isinstance(a, D) and isinstance(b, D) and ucompat(a.u, b.u) is None:
                self.err("unit", "range %s..%s" % (show(a), show(b)), "a range runs from a %s to a %s" % (show(a), show(b)), n)
            if isinstance(a, D):
                v = a
            elif isinstance(b, D):
                v = b if (b.kind == "P" or a is None) else D("PL", b.u, None)
            else:
                v = None
            r = Iter(v)
            r.range_end = b
            r.range_kind = last
            return r
        adt = last
        for name, v in fs.items():
            fv = FIELDS.get((adt, name))
            if fv is not None:
                self.check_against(v, fv, "%s.%s" % (adt, name), n)
        return None

    def ev_index(self, n, env):
        coll = self.ev(n["e"], env)
        i = self.ev(n["i"], env)
        if isinstance(i, Iter) and hasattr(i, "range_kind"):
            # slicing: both ends are indices of the collection
            self.check_index(coll, i.item, n)
            return coll
        self.check_index(coll, i, n)
        return self.elem_of(coll)

    def ev_call(self, n, env):
        ctor = (n.get("ctor_of") or "").split("::")[-1]
        args = n.get("args", [])
        if ctor in ("Some", "Ok") and len(args) == 1:
            return self.ev(args[0], env)
        if ctor:
            for a in args:
                self.ev(a, env)
            return None
        fn = n.get("resolved") or n.get("fn") or ""
        last = fn.split("::")[-1]
        vals = [self.ev(a, env) for a in args]
        if fn in self.fx.fns:
            return self.call_local(fn, vals, n)
        if last in ("from", "into", "try_from", "try_into") and len(vals) == 1:
            return vals[0]
        if last in ("max", "min") and len(vals) == 2:
            return self.merge(vals[0], vals[1], n, last)
        if isinstance(n.get("f"), dict) and n["f"].get("k") == "path" and n["f"].get("res") == "local":
            f = self.ev(n["f"], env)
            return self.apply(f, vals, env, n)
        return None

    def ev_mcall(self, n, env):
        recv = self.ev(n["recv"], env)
        m = n.get("m")
        args = n.get("args", [])
        fn = n.get("resolved") or n.get("fn") or ""
        if fn in self.fx.fns:
            vals = [recv] + [self.ev(a, env) for a in args]
            return self.call_local(fn, vals, n)
        if m in ARITH_M and len(args) == 1:
            b = self.ev(args[0], env)
            n2 = dict(n)
            n2["ty"] = tshort(n.get("recv_aty") or n["recv"].get("ty"))
            return self.binop(ARITH_M[m], recv, b, n2)
        if m in TRANSPARENT_M:
            for a in args:
                self.ev(a, env)
            if m in ("iter", "iter_mut", "into_iter") and isinstance(recv, Coll):
                return recv
            return recv
        vals = [self.ev(a, env) for a in args]
        if m in ("unwrap_or", "max", "min", "or") and len(vals) == 1:
            return self.merge(recv, vals[0], n, m)
        if m in ("map", "and_then", "filter_map", "flat_map") and len(vals) == 1:
            item = self.item_of(recv) if isinstance(recv, (Iter, Coll)) else recv
            r = self.apply(vals[0], [item], env, n)
            return Iter(r) if isinstance(recv, (Iter, Coll)) else r
        if m in ("map_or", "map_or_else") and len(vals) == 2:
            d = vals[0] if m == "map_or" else self.apply(vals[0], [], env, n)
            return self.merge(d, self.apply(vals[1], [recv], env, n), n, m)
        if m in ("unwrap_or_else", "or_else") and len(vals) == 1:
            return self.merge(recv, self.apply(vals[0], [], env, n), n, m)
        if m in ("filter", "skip", "take", "take_while", "skip_while", "inspect", "step_by", "chain", "peekable") and isinstance(recv, (Iter, Coll)):
            if vals and isinstance(vals[0], Clo):
                self.apply(vals[0], [self.item_of(recv)], env, n)
            return recv
        if m == "enumerate":
            if isinstance(recv, Coll):
                return Iter(Tup([D("V", {recv.ibase: 1}, recv.iscope), self.elem_of(recv)]))
            return Iter(Tup([None, self.item_of(recv)]))
        if m == "len" and isinstance(recv, Coll):
            return D("V", {recv.ibase: 1}, None)
        if m in ("get", "get_mut") and len(vals) == 1:
            if isinstance(vals[0], Iter) and hasattr(vals[0], "range_kind"):
                self.check_index(recv, vals[0].item, n)
                return recv
            self.check_index(recv, vals[0], n)
            return self.elem_of(recv)
        if m in ("last", "first", "last_mut", "first_mut", "pop", "next", "next_back", "peek", "nth") :
            return self.item_of(recv)
        if m in ("push", "insert") and isinstance(recv, Coll) and vals:
            e = self.elem_of(recv)
            if e is not None:
                self.check_against(vals[-1], e, "element of " + recv.name, n)
            if m == "insert" and len(vals) == 2:
                self.check_index(recv, vals[0], n)
            return None
        if m in ("binary_search", "contains") and isinstance(recv, Coll) and vals:
            e = self.elem_of(recv)
            if isinstance(e, D) and isinstance(vals[0], D):
                if ucompat(e.u, vals[0].u) is None:
                    self.err("unit", "%s.%s(%s)" % (recv.name, m, show(vals[0])), "%s holds %s but is searched for a %s" % (recv.name, show(e), show(vals[0])), n)
                elif e.kind == "P" and vals[0].kind == "V":
                    self.err("point", "%s.%s(%s)" % (recv.name, m, show(vals[0])), "%s holds absolute %s but is searched for a relative quantity (%s)" % (recv.name, ustr(e.u), show(vals[0])), n)
                else:
                    self.ok("search:" + recv.name, n)
            if m == "binary_search":
                return D("V", {recv.ibase: 1}, None)
            return None
        if m in ("max_by_key", "min_by_key", "sort_by_key", "sort_unstable_by_key", "sort_by_cached_key", "is_sorted_by_key") and vals and isinstance(vals[0], Clo):
            # ordering the elements of one collection by a key compares the keys of different elements with each other
            key = self.apply(vals[0], [self.item_of(recv) if isinstance(recv, (Iter, Coll)) else None], env, n)
            rty = str(n.get("recv_aty") or n["recv"].get("ty") or "")
            per_track = any(x in rty for x in ("TrakBox", "Mp4TrackWriter", "Mp4Track"))
            if isinstance(key, D) and per_track:
                if any(b_ == "Tm" and e_ != 0 for b_, e_ in key.u):
                    self.err("scope", "%s by %s over tracks" % (m, show(key)), "tracks are ordered by a quantity in media ticks (%s), but every track has its own media timescale: ticks of different tracks are not comparable" % show(key), n)
                else:
                    self.ok("order-key:" + m, n)
            return self.item_of(recv) if m in ("max_by_key", "min_by_key") and isinstance(recv, (Iter, Coll)) else None
        if m in ("for_each", "any", "all", "find", "position") and vals and isinstance(vals[0], Clo):
            self.apply(vals[0], [self.item_of(recv)], env, n)
            return self.item_of(recv) if m == "find" else None
        if m == "fold" and len(vals) == 2:
            acc = vals[0]
            for _ in range(2):
                acc = self.merge(acc, self.apply(vals[1], [acc, self.item_of(recv)], env, n), n, "fold")
            return acc
        if m == "sum":
            it = self.item_of(recv)
            return D("V", it.u, None) if isinstance(it, D) and it.kind != "P" else None
        if m in ("zip",) and vals:
            return Iter(Tup([self.item_of(recv), self.item_of(vals[0])]))
        return None

    # -- functions -------------------------------------------------------------------------------------------------------
    def fn_name(self, fn):
        impl = short((fn.get("impl") or {}).get("self_ty", "")) if fn.get("impl") else ""
        return (impl + "::" if impl else "") + fn["name"]

    def sig_of(self, v):
        if isinstance(v, D):
            return (v.kind, v.u, v.scope)
        if islit(v):
            return "L"
        if isinstance(v, Tup):
            return tuple(self.sig_of(e) for e in v.es)
        if isinstance(v, Coll):
            return ("coll", v.name)
        return None

    def call_local(self, fid, vals, n):
        fn = self.fx.fns[fid]
        h = fn.get("hir")
        if not h or not isinstance(h.get("body"), dict) or fn.get("derived"):
            return None
        name = self.fn_name(fn)
        decl = ENTRY.get(name)
        if decl:
            for i, want in entry_params(fn, name).items():
                if i < len(vals):
                    self.check_against(vals[i], want, "argument %d of %s" % (i, name), n)
                    if vals[i] is None or islit(vals[i]):
                        vals[i] = want
        key = (fid, tuple(self.sig_of(v) for v in vals), self.region, self.record)
        if key in self.memo:
            return self.memo[key]
        if self.depth > 8 or any(k[0] == fid for k in self.active):
            return None
        self.memo[key] = None
        r = self.run_fn(fn, vals)
        self.memo[key] = r
        return r

    active = ()

    def run_fn(self, fn, vals):
        name = self.fn_name(fn)
        self.depth += 1
        self.active = self.active + ((fn["id"],),)
        self.fn_stack.append(name)
        saved_record = self.record
        result = None
        try:
            env = {}
            for rnd in (0, 1):
                self.record = saved_record and rnd == 1
                self.stack.append([])
                for i, p in enumerate(fn["hir"].get("params", [])):
                    self.bind(p, vals[i] if i < len(vals) else None, env)
                tail = self.ev(fn["hir"]["body"], env)
                rets = self.stack.pop()
                result = tail
                for v, rn in rets:
                    result = self.merge(result, v, rn, "return value of " + name)
                decl = ENTRY.get(name)
                if decl and decl[1] is not None and self.record:
                    self.check_against(result, decl[1], "return value of " + name, fn["hir"]["body"])
        finally:
            self.record = saved_record
            self.fn_stack.pop()
            self.active = self.active[:-1]
            self.depth -= 1
        return result

    widths = True

    def entry(self, fn, widths=True):
        name = self.fn_name(fn)
        pd = entry_params(fn, name)
        nparams = len(fn["hir"].get("params", []))
        vals = [pd.get(i) for i in range(nparams)]
        self.widths = widths
        self.region = None
        return self.run_fn(fn, vals)


def run_rule(fx, chk, rule, entries, regions=(None,), exclude=(), widths=True, floor=0, what="", only=None):
    """evaluate the entry functions and report: one obligation per (function, region) with the number of dimension checks
    that passed, one violation per incompatible operation.  `entries`: [(impl self type, fn name)]; `regions`: which of
    'frag' / 'nonfrag' / None (code outside the fragmented / non-fragmented split) belong to this rule;
    `exclude`: {(function, region)} outside the property's statement."""
    from report import site_of
    U = Units(fx)
    fns = {}
    for ty, nm in entries:
        cands = [f for f in fx.fns.values() if f["name"] == nm and f.get("hir") and short((f.get("impl") or {}).get("self_ty", "")).split("<")[0] == ty and not (f.get("impl") or {}).get("trait")]
        if not chk.anchor(rule, "%s::%s" % (ty, nm), cands):
            continue
        U.entry(cands[0], widths=widths)
        fns[U.fn_name(cands[0])] = cands[0]
    by_name = {}
    for f in fx.fns.values():
        if f.get("hir"):
            by_name.setdefault(U.fn_name(f), f)
    total = 0
    bad_keys = set()
    for key, e in sorted(U.errors.items()):
        if e["region"] not in regions or (e["fn"], e["region"]) in exclude or (only and not only(e["fn"])):
            continue
        fn = by_name.get(e["fn"])
        bad_keys.add((e["fn"], e["region"]))
        chk.bad(rule, "%s|%s|%s" % (e["fn"], e["kind"], e["sig"]), "%s: %s" % ({"unit": "incompatible quantities", "point": "absolute quantity misused", "scope": "file-relative quantity used run-locally", "width": "narrow arithmetic", "sign": "signed quantity reinterpreted", "bound": "inclusive comparison at a run boundary"}[e["kind"]], e["detail"]),
                site_of(fn, e["line"]) if fn else "")
    for (fnm, region), cnt in sorted(U.checked.items(), key=str):
        if region not in regions or (fnm, region) in exclude or (only and not only(fnm)):
            continue
        total += cnt
        fn = by_name.get(fnm)
        chk.ok(rule, "%s|%s|consistent" % (fnm, region or "common"), "%d operations with both dimensions known are compatible" % cnt, site_of(fn) if fn else "")
    chk.floor(rule, "dimension checks %s" % what, total, floor)
    chk.analysed.setdefault("units", {})[rule] = {"checked_operations": total, "functions": sorted({k[0] for k in U.checked if k[1] in regions})}
    return U
