"""C10 — I/O failures surface as errors; short reads and writes are transparent.

Decided statically (all are obligations that must be discharged; level = proof):
  R1 error discipline: every call expression whose callee can fail with an I/O error (a method of
     std::io::{Read,Write,Seek,BufRead} / byteorder::{ReadBytesExt,WriteBytesExt}, any external callee
     returning Result<_, io::Error>, or a local function that transitively calls one) and whose value
     is a Result, is consumed by `?`, is returned (tail / `return`) from a Result-returning function,
     or is the scrutinee of a match whose Err arms all return an Err.  Anything else (let _ =, .ok(),
     .is_ok(), unwrap_or*, if let Ok, statement position, unwrap) swallows or panics on the failure.
  R1b every io-fallible local function returns Result<_, Error|io::Error>; none is a closure; none is
     referenced as a function value (the result would escape the rule).
  R2 who-may-call: no call anywhere in the crate to a partial-transfer primitive (Read::read, Write::write,
     read_to_end, take, bytes, BufRead::*, io::copy ...).  All transfers go through read_exact / write_all
     or byteorder's extension methods (which bottom out in those; confirmed from byteorder's own MIR in
     the thorough tier).
  R3 `impl From<io::Error> for Error` exists and builds the IoError variant, so `?` on an io::Result
     inside a crate::Result function surfaces as Error::IoError.
Not decided: behaviour of user-supplied Read/Write/Seek implementations; "never panics" under faults is the
C06/C17 obligation set (a failing stream call leaves through `?`, no extra code runs).
"""
import hirq
from callgraph import callgraph
from mir import body_of, op_place
from report import site_of

from packs_common import IO_TRAITS, io_fallible, is_io_result

# partial-transfer / unbounded primitives: a short transfer is NOT transparent through these
FORBIDDEN = {
    "std::io::Read::read", "std::io::Read::read_vectored", "std::io::Read::read_to_end",
    "std::io::Read::read_to_string", "std::io::Read::bytes", "std::io::Read::take", "std::io::Read::chain",
    "std::io::Read::read_buf", "std::io::Read::read_buf_exact",
    "std::io::Write::write", "std::io::Write::write_vectored", "std::io::Write::write_all_vectored",
    "std::io::copy", "std::io::BufRead::fill_buf", "std::io::BufRead::consume", "std::io::BufRead::read_until",
    "std::io::BufRead::read_line", "std::io::BufRead::lines", "std::io::BufRead::split",
    "std::io::BufRead::skip_until",
}
ALLOWED_TRANSFER = {"std::io::Read::read_exact", "std::io::Write::write_all", "std::io::Write::flush"}

FLOOR_SITES = 850      # counted: 985 io-fallible call expressions on the pinned tree
FLOOR_IOFNS = 110      # counted: 133 io-fallible local functions
FLOOR_TRANSFER = 500   # counted: 587 direct stream-method call sites in MIR


def is_result(ty):
    return ty.startswith("core::result::Result<")


def tail_nodes(root):
    """ids of nodes whose value is the value of the function body (return position)"""
    out = set()
    st = [root]
    while st:
        n = st.pop()
        out.add(id(n))
        k = n.get("k")
        if k == "block":
            if "expr" in n:
                st.append(n["expr"])
        elif k == "if":
            st.append(n["then"])
            if "else" in n:
                st.append(n["else"])
        elif k == "match":
            for a in n["arms"]:
                st.append(a["body"])
    return out


def err_arms_return_err(m):
    """match whose every arm that can match Err(..) ends by returning/yielding an Err(..)"""
    saw_err = False
    for a in m["arms"]:
        p = a["pat"]
        is_err = p.get("k") == "tuplestruct" and (p.get("def") or "").endswith("Result::Err")
        is_wild = p.get("k") in ("wild", "bind")
        if not (is_err or is_wild):
            continue
        saw_err = True
        ok = False
        for n, _ in hirq.walk(a["body"]):
            if n.get("k") == "call" and (n.get("fn") or "").endswith("Result::Err"):
                ok = True
        if not ok:
            return False
    return saw_err


def run(fx, chk, tier):
    chk.rule("R1", "every io-fallible call expression of Result type is consumed by `?`, returned, or matched with all Err arms returning Err")
    chk.rule("R1b", "every io-fallible local function returns Result; none is a closure or used as a function value")
    chk.rule("R2", "no partial-transfer primitive (Read::read, Write::write, read_to_end, take, BufRead::*, io::copy) is called anywhere in the crate; transfers use read_exact/write_all/byteorder only")
    chk.rule("R3", "impl From<std::io::Error> for Error exists and constructs Error::IoError")
    chk.assume("A-STD: read_exact / write_all have their documented semantics (retry on Interrupted, error on short transfer); byteorder's extension methods call only those")
    cg = callgraph(fx)
    direct, iof = io_fallible(fx, cg)
    chk.analysed["io_fallible_functions"] = len(iof)
    chk.analysed["functions_with_direct_stream_calls"] = len(direct)
    chk.floor("R1b", "io-fallible local functions", len(iof), FLOOR_IOFNS)

    # closures that perform fallible I/O are accepted only where their Result provably re-enters the call-site rule:
    #   * passed to try_for_each / try_fold: the combinator call is then itself an io-fallible call expression (R1 applies)
    #   * passed to map(..) whose iterator is consumed by collect::<Result<..>>() (R1 applies to the collect call) or by a
    #     `for` loop whose item is used only as the operand of `?`
    PROPAGATING = ("try_for_each", "try_fold")
    closure_ok = {}
    fallible_combinators = set()      # id() of mcall nodes that stand for the closure's Result
    for fid_, fn_ in sorted(fx.fns.items()):
        root_ = hirq.body_root(fn_) if not fn_.get("derived") else None
        if root_ is None:
            continue
        for n_, ps_ in hirq.walk(root_):
            if n_.get("k") != "mcall":
                continue
            clos = [a for a in n_.get("args", []) if a.get("k") == "closure" and a.get("def") in iof]
            if not clos:
                continue
            m_ = n_.get("m")
            if m_ in PROPAGATING and is_result(n_.get("ty", "")):
                for c_ in clos:
                    closure_ok[c_["def"]] = "Result returned through %s" % m_
                fallible_combinators.add(id(n_))
            elif m_ in ("then", "map") and len(ps_) >= 2 and ps_[-1].get("k") == "mcall" and ps_[-1].get("m") == "transpose" and ps_[-1].get("recv") is n_ and ps_[-2].get("k") == "try":
                # `cond.then(|| reader.read_u32()).transpose()?` / `opt.map(|x| read(x)).transpose()?`: the closure's Result
                # is the payload of the Option, transpose turns it into Result<Option<_>>, and `?` propagates it
                for c_ in clos:
                    closure_ok[c_["def"]] = "Option<Result> transposed and propagated with `?`"
                fallible_combinators.add(id(ps_[-1]))
            elif m_ == "map":
                par_ = ps_[-1] if ps_ else None
                if par_ is not None and par_.get("k") == "mcall" and par_.get("recv") is n_ and par_.get("m") == "collect" and is_result(par_.get("ty", "")):
                    for c_ in clos:
                        closure_ok[c_["def"]] = "items collected into a Result"
                    fallible_combinators.add(id(par_))
                else:
                    # `for item in <..map(closure)> { .. item? .. }`, directly or through `let it = ..map(closure);`
                    loop_ = None
                    for q in reversed(ps_):
                        if q.get("k") == "for" and any(x is n_ for x, _ in hirq.walk(q["iter"])):
                            loop_ = q
                            break
                    if loop_ is None and par_ is not None and par_.get("k") == "let" and par_.get("init") is n_ and par_["pat"].get("k") == "bind":
                        it_lid = par_["pat"].get("lid")
                        users = [(x, pp) for x, pp in hirq.walk(root_) if x.get("k") == "path" and x.get("res") == "local" and x.get("lid") == it_lid]
                        fors = [q for q, _ in hirq.walk(root_) if q.get("k") == "for" and any(x.get("k") == "path" and x.get("lid") == it_lid for x, _ in hirq.walk(q["iter"]))]
                        if len(users) == 1 and len(fors) == 1:
                            loop_ = fors[0]
                    if loop_ is not None and loop_["pat"].get("k") == "bind":
                        lid_ = loop_["pat"].get("lid")
                        uses = [(x, pp) for x, pp in hirq.walk(loop_["body"]) if x.get("k") == "path" and x.get("res") == "local" and x.get("lid") == lid_]
                        if uses and all(pp and pp[-1].get("k") == "try" for _x, pp in uses):
                            for c_ in clos:
                                closure_ok[c_["def"]] = "every item of the mapped iterator is the operand of ?"
    #   * bound to a local (`let mut put = |x| -> Result<()> {..};`) that is only ever called, every call being the operand
    #     of `?` (or the function's tail value)
    for fid_, fn_ in sorted(fx.fns.items()):
        root_ = hirq.body_root(fn_) if not fn_.get("derived") else None
        if root_ is None:
            continue
        tails_ = None
        for n_, ps_ in hirq.walk(root_):
            if n_.get("k") != "let" or n_.get("pat", {}).get("k") != "bind" or n_.get("init", {}).get("k") != "closure" or n_["init"].get("def") not in iof:
                continue
            lid_ = n_["pat"].get("lid")
            uses = [(x, pp) for x, pp in hirq.walk(root_) if x.get("k") == "path" and x.get("res") == "local" and x.get("lid") == lid_]
            good = bool(uses)
            for x, pp in uses:
                call_ = pp[-1] if pp else None
                if call_ is None or call_.get("k") != "call" or call_.get("f") is not x:
                    good = False
                    break
                outer = pp[-2] if len(pp) >= 2 else None
                if outer is not None and outer.get("k") == "try":
                    continue
                if tails_ is None:
                    tails_ = tail_nodes(root_)
                if id(call_) in tails_:
                    continue
                good = False
                break
            if good:
                closure_ok[n_["init"]["def"]] = "bound to a local that is only called, every call under `?`"
    #   * passed to a local function whose corresponding parameter is only ever called, every call under `?` (or as the tail
    #     value): `read_n(reader, n, |r| Ok(Entry { a: r.read_u32()?, .. }))` with `out.push(read_one(reader)?)` inside read_n
    for fid_, fn_ in sorted(fx.fns.items()):
        root_ = hirq.body_root(fn_) if not fn_.get("derived") else None
        if root_ is None:
            continue
        for n_, ps_ in hirq.walk(root_):
            if n_.get("k") not in ("call", "mcall"):
                continue
            g_id = n_.get("resolved") or n_.get("fn")
            g_ = fx.fns.get(g_id)
            if g_ is None:
                continue
            args_ = ([n_["recv"]] if n_.get("k") == "mcall" else []) + list(n_.get("args", []))
            for i_, a_ in enumerate(args_):
                if a_.get("k") != "closure" or a_.get("def") not in iof:
                    continue
                params_ = (g_.get("hir") or {}).get("params", [])
                pname = params_[i_].get("name") if i_ < len(params_) else None
                groot = hirq.body_root(g_)
                if not pname or groot is None:
                    continue
                uses = [(x, pp) for x, pp in hirq.walk(groot) if x.get("k") == "path" and x.get("res") == "local" and x.get("name") == pname]
                tails_g = tail_nodes(groot)
                good = bool(uses)
                for x, pp in uses:
                    call_ = pp[-1] if pp else None
                    if call_ is None or call_.get("k") != "call" or call_.get("f") is not x:
                        good = False
                        break
                    outer = pp[-2] if len(pp) >= 2 else None
                    if not ((outer is not None and outer.get("k") == "try") or id(call_) in tails_g):
                        good = False
                        break
                if good:
                    closure_ok[a_["def"]] = "handed to %s, which only calls it, every call under `?`" % g_["name"]
    # ---- R1b
    for fid in sorted(iof):
        fn = fx.fns[fid]
        if fn["kind"] == "Closure":
            why_ = closure_ok.get(fid)
            out_ = fn.get("output_s") or ""
            if why_ and (is_result(out_) or not out_):
                chk.ok("R1b", fid, "closure: " + why_, site_of(fn))
            else:
                chk.bad("R1b", fid, "closure performs fallible I/O: its Result escapes the call-site rule", site_of(fn))
            continue
        out = fn.get("output_s") or ""
        chk.require(is_result(out) and ("error::Error" in out), "R1b", fid,
                    "returns " + out, "io-fallible function returns %s: an I/O failure cannot surface as an error" % out, site_of(fn))

    # ---- R1 (HIR)
    nsites = 0
    for fid, fn in sorted(fx.fns.items()):
        if fn.get("derived"):
            continue
        root = hirq.body_root(fn)
        if root is None:
            continue
        tails = None
        fn_returns_result = is_result(fn.get("output_s") or "") or fn["kind"] == "Closure"
        for n, ps in hirq.walk(root):
            k = n.get("k")
            if k == "path" and n.get("res") == "def" and n.get("dk") in ("Fn", "AssocFn"):
                # function used as a value (not in call position: call nodes fold the callee path)
                if n.get("def") in iof or any(n.get("def", "").startswith(t + "::") for t in IO_TRAITS):
                    chk.bad("R1b", "%s|fnvalue|%s" % (fid, n["def"]), "io-fallible function used as a value", site_of(fn, n.get("line")))
                continue
            if k not in ("call", "mcall"):
                continue
            d, r = hirq.callee_of(n)
            isio = (n.get("trait") in IO_TRAITS) or ((r or d) in iof) or (d in iof) or id(n) in fallible_combinators
            ty = n.get("ty", "")
            if not isio and not (is_io_result(ty) and (r or d) not in fx.fns):
                continue
            if id(n) in fallible_combinators and not is_result(ty):
                continue
            if not is_result(ty):
                # io-fallible callee whose call has no Result value: covered by R1b on the callee
                continue
            nsites += 1
            par = ps[-1] if ps else None
            pk = par.get("k") if par else None
            # ordinal among identical renderings inside one function keeps keys unique without line numbers
            key = "%s|%s" % (fid, hirq.expr_str(n)[:100])
            site = site_of(fn, n.get("line"))
            if pk == "try":
                chk.ok("R1", key, "operand of ?", site)
                continue
            if pk == "ret" and fn_returns_result:
                chk.ok("R1", key, "returned", site)
                continue
            if tails is None:
                tails = tail_nodes(root)
                # tail expressions of accepted closures (their Result re-enters the rule at the combinator)
                ctails = set()
                for cn, _ in hirq.walk(root):
                    if cn.get("k") == "closure" and cn.get("def") in closure_ok:
                        ctails |= tail_nodes(cn["body"])
            if id(n) in ctails:
                chk.ok("R1", key, "tail expression of a closure whose Result is propagated by its combinator", site)
                continue
            if id(n) in tails and fn_returns_result:
                chk.ok("R1", key, "tail expression of a Result-returning function", site)
                continue
            if pk == "match" and par["scrut"] is n and err_arms_return_err(par):
                chk.ok("R1", key, "matched; every Err arm returns Err", site)
                continue
            ctx = pk
            if pk == "mcall":
                ctx = "receiver/argument of .%s()" % par["m"]
            elif pk == "let":
                ctx = "bound by let without `?`"
            elif pk in ("semi", "expr"):
                ctx = "statement position (value dropped)"
            elif pk == "letx":
                ctx = "if-let / while-let pattern"
            chk.bad("R1", key, "result of fallible I/O call is not propagated: %s" % ctx, site)
    chk.floor("R1", "io-fallible call expressions", nsites, FLOOR_SITES)
    chk.analysed["io_call_expressions"] = nsites

    # ---- R5 (MIR, every body in the crate): buffering writers
    chk.rule("R5", "a buffering writer (BufWriter / LineWriter) built inside the crate is flushed (or unwrapped with into_inner) on every path to a successful return: bytes still in its buffer when it is dropped are written by Drop, which discards the error")
    nbuf = 0
    import loops as LP_
    for fid, fn in sorted(fx.fns.items()):
        body = body_of(fn)
        if body is None:
            continue
        for b, t in body.calls():
            pth = t["callee"].get("path") or ""
            if not (("BufWriter" in pth or "LineWriter" in pth) and pth.split("::")[-1] in ("new", "with_capacity")):
                continue
            nbuf += 1
            wname = "BufWriter" if "BufWriter" in pth else "LineWriter"
            if t["dest"]["p"]:
                chk.bad("R5", "%s|%s" % (fid, wname), "buffering writer stored in a place the rule cannot follow", site_of(fn, t.get("line")))
                continue
            wl = t["dest"]["l"]
            # locals that refer to the writer: itself and `&mut` borrows of it
            refs = {wl}
            for bb in body.reach:
                for s_ in body.stmts(bb):
                    if s_["k"] == "assign" and not s_["place"]["p"] and s_["rv"]["k"] in ("ref", "use", "cast"):
                        src = s_["rv"]["place"] if s_["rv"]["k"] == "ref" else op_place(s_["rv"]["a"])
                        if src is not None and src["l"] in refs and not [x for x in src["p"] if x != "deref"]:
                            refs.add(s_["place"]["l"])
            flushes = []
            for b2, t2 in body.calls():
                tl = (t2["callee"].get("path") or "").split("::")[-1]
                if tl in ("flush", "into_inner", "into_parts") and t2["args"]:
                    pl = op_place(t2["args"][0])
                    if pl is not None and pl["l"] in refs:
                        flushes.append(b2)
            oks = LP_.ok_blocks(body)
            good = bool(flushes) and all(any(body.dominates(f, o) for f in flushes) for o in oks)
            chk.require(good, "R5", "%s|%s" % (fid, wname), "flushed before every successful return",
                        "a %s is created here and %s: an I/O fault while its remaining bytes are written on drop is discarded and the call reports success" % (
                            wname, "never flushed" if not flushes else "not flushed on every path to a successful return"), site_of(fn, t.get("line")))
    chk.analysed["buffering_writers"] = nbuf
    # ---- R2 (MIR, every body in the crate)
    ntransfer = 0
    used = {}
    for fid, sites in sorted(cg.sites.items()):
        fn = fx.fns[fid]
        for b, t, p, loc in sites:
            c = t["callee"]
            decl = c.get("path")
            if decl in FORBIDDEN or (c.get("trait") == "std::io::BufRead"):
                chk.bad("R2", "%s|%s" % (fid, decl), "partial-transfer primitive %s called: a short transfer or Interrupted is not transparent" % decl, site_of(fn, t.get("line")))
            elif c.get("trait") in IO_TRAITS:
                ntransfer += 1
                used[decl] = used.get(decl, 0) + 1
                if c["trait"] in ("std::io::Read", "std::io::Write") and decl not in ALLOWED_TRANSFER:
                    chk.bad("R2", "%s|%s" % (fid, decl), "std::io transfer method %s is not read_exact/write_all" % decl, site_of(fn, t.get("line")))
    for decl, cnt in sorted(used.items()):
        chk.ok("R2", decl, "%d call sites, whole-transfer primitive" % cnt)
    chk.floor("R2", "stream call sites", ntransfer, FLOOR_TRANSFER)
    chk.analysed["stream_call_sites"] = ntransfer
    chk.analysed["stream_methods_used"] = used
    # function values naming forbidden primitives (e.g. passed to an adaptor)
    for fid, fn in sorted(fx.fns.items()):
        body = body_of(fn)
        if body is None:
            continue
        for b in range(body.n):
            for s in body.stmts(b):
                if s["k"] == "assign":
                    for op in _ops(s["rv"]):
                        c = op.get("const")
                        if c and c.get("fn") in FORBIDDEN:
                            chk.bad("R2", "%s|fnvalue|%s" % (fid, c["fn"]), "partial-transfer primitive used as a function value", site_of(fn, s.get("line")))

    # ---- R3
    froms = [f for f in fx.fns.values()
             if f["name"] == "from" and (f.get("impl") or {}).get("trait") == "core::convert::From<std::io::error::Error>"
             and (f.get("impl") or {}).get("self_ty") == "error::Error"]
    if chk.anchor("R3", "impl From<std::io::Error> for error::Error", froms):
        body = body_of(froms[0])
        variants = set()
        for b in body.reach:
            for s in body.stmts(b):
                if s["k"] == "assign" and s["rv"]["k"] == "agg" and s["rv"].get("adt") == "error::Error":
                    variants.add(s["rv"]["variant"])
        chk.require(variants == {"IoError"}, "R3", "From<io::Error>", "constructs Error::IoError", "From<io::Error> constructs %s" % sorted(variants), site_of(froms[0]))

    return chk.finish(
        "proof",
        "Obligations are the %d io-fallible call expressions (R1), %d io-fallible functions (R1b), every stream-method call site in all %d bodies (R2) and the From impl (R3). "
        "All must be discharged by the enumerated idioms; the rule quantifies over every path because it is a property of each call site, not of an execution. "
        "Not decided: behaviour of user Read/Write impls; absence of panics under faults is C06/C17." % (nsites, len(iof), len(fx.fns)),
    )


def _ops(rv):
    k = rv["k"]
    if k in ("use", "cast", "un", "repeat"):
        return [rv["a"]]
    if k == "bin":
        return [rv["a"], rv["b"]]
    if k == "agg":
        return rv["ops"]
    return []
