"""C11 — truncated files never yield wrong data (composition of instances).

A proper prefix of a valid file differs from the file only through reads that cross the cut.  The property is decided as
the conjunction of rule instances owned by other packs, re-evaluated here and reported under C11 only when one of
*these* instances breaks:
  T1 size rejection at both top levels: in read_header and read_fragment_header every child size taken from a header
     reaches its decoder / skip only with an upper bound derived from the given length (C08 R-CHAIN instances of the two
     open functions): a box announcing more than the prefix holds is rejected before it is decoded.
  T2 whole transfers with propagated errors: no partial-transfer primitive anywhere (C10-R2) and every I/O-fallible
     call expression in the reader closure propagates its error (C10-R1): a read that crosses the cut surfaces as Err.
  T3 payload pairing: the bytes returned by read_sample are the buffer of the looked-up size filled by the read_exact
     that follows the absolute seek to the looked-up offset (C15-R3 + C03 R-FOOT bytes): no stale or partial buffer is
     ever returned.
  T4 no panic at any cut point: every panic-capable construct reachable from the reader API (C06's whole inventory: asserts,
     panicking callees, recursion) is discharged; C06's listed known findings concern malformed tables and are excluded.
  T5 no hang: every box-walk / read loop of the reader closure satisfies the progress rules (C07 R-BOXWALK.*, R-CLASS of
     consuming loops).
  T6 no look-ahead: the fragmented lookups touch only the track fragment the sample lies in (C09 R-OWNFRAG), so removing
     later fragments cannot change an earlier sample's timing or position.
NOT decided: equality of what is returned with the complete file's results beyond T3 (a runtime relation).
"""
import importlib

import report
from facts import short
from packs_common import reader_entries
from callgraph import callgraph


def silent(pid):
    c = report.Check(pid)
    c.finish = lambda *a, **k: 0
    return c


def run(fx, chk, tier):
    chk.rule("T1", "top-level child sizes are bounded by the given length before dispatch (C08 R-CHAIN in both open functions)")
    chk.rule("T2", "whole transfers only and every reader-side I/O error propagates (C10-R1/R2)")
    chk.rule("T3", "returned sample bytes = buffer filled by read_exact after the absolute seek (C15-R3, C03 R-FOOT)")
    chk.rule("T4", "no cut point causes a panic: every panic-capable construct reachable from the reader API is discharged (C06 instances other than its listed findings about malformed tables)")
    chk.rule("T5", "every box-walk / read loop makes progress (C07 R-BOXWALK.*, R-CLASS)")
    cg = callgraph(fx)
    rclo = cg.closure(reader_entries(fx))
    n = {"T1": 0, "T2": 0, "T3": 0, "T4": 0, "T5": 0}

    def take(sub, rules, tag, keyfilter=None):
        for o in sub.obligations:
            r = o["rule"]
            base = r.split(".floor")[0].split(".anchor")[0]
            if not any(base == x or r.startswith(x) for x in rules):
                continue
            if keyfilter and not keyfilter(o):
                continue
            n[tag] += 1
            key = "%s:%s|%s" % (sub.pid, r, o["key"])
            if o["ok"]:
                chk.ok(tag, key, o["how"], o["site"])
            else:
                chk.bad(tag, key, o["how"], o["site"], o.get("detail"))

    # T1
    c08 = importlib.import_module("c08")
    s8 = silent("C08")
    c08.run(fx, s8, tier)
    # (the hand-offs of the two open functions, wherever their loop bodies live: every R-CHAIN instance sited in reader.rs)
    take(s8, ["R-CHAIN"], "T1", lambda o: o["key"].startswith(("<R>::read_header|", "<R>::read_fragment_header|")) or str(o.get("site") or "").startswith("src/reader.rs") or ".floor" in o["rule"])
    # T2
    c10 = importlib.import_module("c10")
    s10 = silent("C10")
    c10.run(fx, s10, tier)
    take(s10, ["R2"], "T2")

    def in_reader(o):
        fid = o["key"].split("|")[0]
        return fid in rclo or ".floor" in o["rule"]
    take(s10, ["R1"], "T2", lambda o: o["rule"] == "R1" and in_reader(o))
    # T3
    c15 = importlib.import_module("c15")
    s15 = silent("C15")
    c15.run(fx, s15, tier)
    take(s15, ["R3"], "T3")
    c03 = importlib.import_module("c03")
    s3 = silent("C03")
    c03.run(fx, s3, tier)
    take(s3, ["R-FOOT"], "T3", lambda o: o["key"] == "Mp4Sample.bytes")
    # T4: every panic-capable construct reachable from the reader API is discharged (all C06 instances; its listed known
    # findings need malformed tables, which a prefix of a valid file does not contain, and are not instances here)
    from packs_common import compose
    n["T4"] = compose(fx, chk, tier, "T4", "C06", ["PF"], floor=400, what="panic obligations of the reader closure")
    # T5
    c07 = importlib.import_module("c07")
    s7 = silent("C07")
    c07.run(fx, s7, tier)
    take(s7, ["R-BOXWALK", "R-NOREC"], "T5")
    take(s7, ["R-CLASS"], "T5", lambda o: ("|BOXWALK" in o["key"] or "|READ" in o["key"] or "|RANGE-READ" in o["key"] or ".floor" in o["rule"]))
    # T6: what is returned for a sample does not depend on data behind it in the file
    chk.rule("T6", "a sample's bytes and timing are computed from the fragment it lies in, never from a later one that a cut may remove (C09 R-OWNFRAG instances)")
    n["T6"] = compose(fx, chk, tier, "T6", "C09", ["R-OWNFRAG"], floor=5, what="fragment element accesses in the lookups")
    # T7: the fragments of a prefix are a prefix of the fragments of the file
    chk.rule("T7", "fragments are kept in file order and only appended: cutting the file after fragment k cannot change which fragment a sample id <= k's last sample refers to (C09 R-FILEORDER)")
    n["T7"] = compose(fx, chk, tier, "T7", "C09", ["R-FILEORDER"], floor=1, what="file-order obligations")
    chk.floor("T1", "top-level child-size hand-offs", n["T1"], 8)
    chk.floor("T2", "reader-side I/O call expressions", n["T2"], 300)
    chk.floor("T3", "payload pairing obligations", n["T3"], 3)
    chk.floor("T5", "loop progress obligations", n["T5"], 60)
    chk.analysed["instances"] = n
    return chk.finish(
        "other",
        "C11 is decided as a conjunction of %d instances of rules owned by C08, C10, C15, C03, C06 and C07, re-evaluated on this run: top-level size rejection, whole transfers with propagated errors, "
        "payload pairing, guarded unwraps and loop progress. Known findings of C06/C07 about malformed tables are not instances of this composition. "
        "Equality with the complete file's results beyond payload pairing is NOT decided." % sum(n.values()),
    )
