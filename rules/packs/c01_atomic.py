"""C01 R11: a call the muxer rejects leaves no trace.

For every function reachable from the muxer's accepting entry points (Mp4Writer::write_sample, Mp4Writer::add_track) through
local calls, on no CFG path does a *rejection* (a crate `Error` value other than the I/O wrapper being built, or a call of a
local function that may reject) follow a *mutation* of state reachable through a `&mut` parameter of crate type (a store,
a `&mut` borrow handed to an external mutator, or a local callee whose may-write set for that parameter is not empty).
I/O faults are not rejections: the variant wrapping std::io::Error is excluded by its field type, not by name."""
import modsets
from mir import body_of, callee_path, op_place
from panicfree import fn_short
from report import site_of


def _io_variants(fx):
    out = set()
    a = fx.adts.get("error::Error")
    for v in (a or {}).get("variants", []):
        if any("io::error::Error" in (f.get("ty_s") or "") for f in v.get("fields", [])):
            out.add(v["name"])
    return out


def _crate_mut_params(fx, body):
    ps = []
    for l in range(1, body.argc + 1):
        ty = body.locals[l]["ty"]
        if ty.startswith("&mut ") and any(ty[5:].split("<")[0].strip() == a or ty[5:].split("<")[0].strip().endswith("::" + a.split("::")[-1]) for a in fx.adts):
            ps.append(l)
    return ps


# external methods that hand out a reference into the receiver without changing it
ACCESSORS = {"deref_mut", "get_mut", "index_mut", "iter_mut", "last_mut", "first_mut", "as_mut", "as_mut_slice", "as_deref_mut", "into_iter", "next",
             "unwrap", "expect", "borrow_mut", "split_at_mut", "split_first_mut", "split_last_mut", "values_mut", "enumerate", "rev", "skip", "take", "zip"}


def _is_accessor(fx, t):
    p = callee_path(t["callee"]) or ""
    return p not in fx.fns and p.split("::")[-1] in ACCESSORS


def _derived(fx, body, params):
    derived = {p: (p, ()) for p in params}
    for _ in range(8):
        ch = False
        for b in body.reach:
            t = body.term(b)
            if t["k"] == "call" and _is_accessor(fx, t) and not t["dest"]["p"] and t["dest"]["l"] not in derived:
                for a in t["args"]:
                    pl = op_place(a)
                    if pl is not None and pl["l"] in derived:
                        derived[t["dest"]["l"]] = derived[pl["l"]]
                        ch = True
                        break
        for b in range(body.n):
            for s in body.stmts(b):
                if s["k"] != "assign" or s["place"]["p"]:
                    continue
                l = s["place"]["l"]
                rv = s["rv"]
                src = None
                if rv["k"] in ("ref", "rawptr") and rv.get("mut"):
                    src = modsets.root_of(rv["place"], derived)
                elif rv["k"] in ("use", "cast"):
                    pl = op_place(rv["a"])
                    if pl is not None and pl["l"] in derived and (body.locals[l]["ty"].startswith("&mut ") or "&mut " in body.locals[l]["ty"]):
                        src = derived[pl["l"]]
                elif rv["k"] == "ref" and rv["place"]["l"] in derived and "deref" not in rv["place"]["p"] and "&mut " in body.locals[rv["place"]["l"]]["ty"]:
                    # a reference to a local that itself holds a derived reference (an iterator, an Option<&mut T>)
                    src = derived[rv["place"]["l"]]
                if src is not None and l not in derived:
                    derived[l] = src
                    ch = True
        if not ch:
            break
    return derived


def _line(body, b, i):
    st = body.stmts(b)
    if i < len(st):
        return st[i].get("line")
    return body.term(b).get("line")


def closure(fx, cg_callees, roots):
    seen, todo = [], list(roots)
    while todo:
        f = todo.pop()
        if f in seen or f not in fx.fns or body_of(fx.fns[f]) is None:
            continue
        seen.append(f)
        body = body_of(fx.fns[f])
        for b, t in body.calls():
            p = callee_path(t["callee"])
            if p in fx.fns:
                todo.append(p)
        for c in fx.fns[f].get("closures", []) or []:
            todo.append(c)
    return seen


def run(fx, chk, mods, roots, rule="R11"):
    iov = _io_variants(fx)
    chk.require(bool(iov), rule, "io-variant", "the error enum wraps std::io::Error in %s" % sorted(iov), "no variant of error::Error wraps std::io::Error: I/O faults cannot be told from rejections")
    fns = closure(fx, None, roots)
    # which functions may reject (fixpoint over the closure)
    local_rej = {}
    for f in fns:
        body = body_of(fx.fns[f])
        rs = []
        for b in body.reach:
            for i, s in enumerate(body.stmts(b)):
                if s["k"] == "assign" and s["rv"]["k"] == "agg" and s["rv"].get("adt") == "error::Error" and s["rv"].get("variant") not in iov:
                    rs.append((b, i, "builds Error::%s" % s["rv"].get("variant")))
        local_rej[f] = rs
    rejecting = {f for f in fns if local_rej[f]}
    ch = True
    while ch:
        ch = False
        for f in fns:
            if f in rejecting:
                continue
            body = body_of(fx.fns[f])
            if any(callee_path(t["callee"]) in rejecting for _, t in body.calls()):
                rejecting.add(f)
                ch = True
    nm = nr = 0
    for f in fns:
        fn = fx.fns[f]
        body = body_of(fn)
        params = _crate_mut_params(fx, body)
        derived = _derived(fx, body, params)
        muts, rejs = [], list(local_rej[f])
        for b in body.reach:
            st = body.stmts(b)
            for i, s in enumerate(st):
                if s["k"] in ("assign", "setdiscr") and params and modsets.root_of(s["place"], derived, store=True) is not None:
                    muts.append((b, i, "store " + body.place_str(s["place"])))
            t = body.term(b)
            if t["k"] != "call":
                continue
            p = callee_path(t["callee"])
            if p in rejecting:
                rejs.append((b, len(st), "calls %s, which may reject" % fn_short(p)))
            cm = mods.get(p) if p in fx.fns else None
            if _is_accessor(fx, t):
                continue
            for i, a in enumerate(t["args"]):
                pl = op_place(a)
                if pl is None or pl["l"] not in derived or "&mut " not in body.locals[pl["l"]]["ty"]:
                    continue
                if cm is not None and (i + 1) in cm and cm[i + 1] is not None and not cm[i + 1]:
                    continue
                muts.append((b, len(st), "%s(&mut %s..)" % ((p or "?").split("::")[-1], ".".join(str(x) for x in derived[pl["l"]][1]) or "self")))
        nm += len(muts)
        nr += len(rejs)
        for rb, ri, rwhat in rejs:
            before = [m for m in muts if (m[0] == rb and m[1] < ri) or body.can_reach(m[0], rb)]
            key = "%s|%s" % (fn_short(f), rwhat)
            if before:
                chk.bad(rule, key, "a rejected call leaves a trace: %s after %s" % (rwhat, sorted({m[2] for m in before})[:4]), site_of(fn, _line(body, rb, ri)))
            else:
                chk.ok(rule, key, "no mutation of muxer state can precede this rejection")
    chk.analysed[rule + "_closure"] = [fn_short(f) for f in fns]
    chk.analysed[rule + "_mutation_sites"] = nm
    chk.analysed[rule + "_rejection_sites"] = nr
    return nm, nr
