"""C14 — track and movie configuration survives mux -> demux (structural clauses).

For every row of the relation table (public configuration field <-> public accessor): the set of box fields that the
configuration value is stored into on the mux side (forward value flow from every read of the configuration field in
the muxer closure, through assignments, casts, conversions, constructors and local calls, to stores into box-struct
fields / box struct literals) intersects the set of box fields the accessor's result is computed from (fields read in
the accessor's call closure).  Together with C04 (each such field is written and read at the same wire position) and
C05/C16 (packed fields are routed bit-exactly) this is a necessary condition of the round trip; breaking it makes the
accessor report something that does not depend on the configured value.
  R-TABLE   the conversions the configured values pass through on their way to the wire and back - track kind, media kind,
            AAC object type / sampling-frequency index / channel configuration, AVC profile, and the packed ISO-639 language
            code - equal their defining tables and are mutually inverse (C16 R3 / R5 instances).
  R-DUR     the reported durations are the summed sample durations in the reported unit: the muxer's duration bookkeeping
            (update_durations of track and movie, the values handed between them) is dimensionally consistent - media ticks
            into mdhd, media ticks x movie timescale / media timescale into tkhd and the movie duration (rules/units.py) -
            and no duration is stored in a wire field narrower than its value (C13 R-CAST instances of mdhd/tkhd/mvhd).
NOT decided: value equality (e.g. lossy packing of AAC object types >= 32 is C05's routing check), the one-tick rounding bound.
"""
import re
import c09
from callgraph import callgraph
from facts import short
from mir import body_of, callee_path, op_place
from packs_common import muxer_entries
from report import site_of

# (config ADT, field) -> [(accessor self type, accessor name)]
ROWS = [
    ("TrackConfig", "timescale", [("Mp4Track", "timescale")]),
    ("TrackConfig", "language", [("Mp4Track", "language")]),
    ("TrackConfig", "track_type", [("Mp4Track", "track_type")]),
    ("AvcConfig", "width", [("Mp4Track", "width")]),
    ("AvcConfig", "height", [("Mp4Track", "height")]),
    ("AvcConfig", "seq_param_set", [("Mp4Track", "sequence_parameter_set"), ("Mp4Track", "video_profile")]),
    ("AvcConfig", "pic_param_set", [("Mp4Track", "picture_parameter_set")]),
    ("HevcConfig", "width", [("Mp4Track", "width")]),
    ("HevcConfig", "height", [("Mp4Track", "height")]),
    ("Vp9Config", "width", [("Mp4Track", "width")]),
    ("Vp9Config", "height", [("Mp4Track", "height")]),
    ("AacConfig", "profile", [("Mp4Track", "audio_profile")]),
    ("AacConfig", "freq_index", [("Mp4Track", "sample_freq_index")]),
    ("AacConfig", "chan_conf", [("Mp4Track", "channel_config")]),
    ("AacConfig", "bitrate", [("Mp4Track", "bitrate")]),
    ("Mp4Config", "major_brand", [("Mp4Reader<R>", "major_brand")]),
    ("Mp4Config", "minor_version", [("Mp4Reader<R>", "minor_version")]),
    ("Mp4Config", "compatible_brands", [("Mp4Reader<R>", "compatible_brands")]),
    ("Mp4Config", "timescale", [("Mp4Reader<R>", "timescale")]),
]
# media kind: which sample-entry field each MediaConfig variant populates <-> media_type()/box_type() tests
KIND = [("AvcConfig", "avc1"), ("HevcConfig", "hev1"), ("Vp9Config", "vp09"), ("AacConfig", "mp4a"), ("TtxtConfig", "tx3g")]


def ops_of(rv):
    k = rv["k"]
    if k in ("use", "cast", "un", "repeat"):
        return [rv["a"]]
    if k == "bin":
        return [rv["a"], rv["b"]]
    if k == "agg":
        return rv["ops"]
    return []


def place_has(pl, adt_short, field):
    for p in pl["p"]:
        if isinstance(p, dict) and p.get("f") == field and short(p.get("adt", "")) == adt_short:
            return True
    return False


def fpath(pl):
    """field names of a place's projection (derefs / downcasts / indices ignored)"""
    return tuple(p["f"] for p in pl["p"] if isinstance(p, dict) and "f" in p)


def residuals(taint, pl):
    """how the value read from place pl is tainted: set of residual field paths (() = the value itself)"""
    out = set()
    ps = taint.get(pl["l"])
    if not ps:
        return out
    f = fpath(pl)
    for p in ps:
        if p[:len(f)] == f:
            out.add(p[len(f):])
        elif f[:len(p)] == p:
            out.add(())
    return out


def forward_sinks(fx, cg, clo, adt_short, field):
    """box fields (ADT short name, field) that the configuration value itself reaches.  The taint is field-path
    sensitive: a struct that merely contains the value somewhere is a carrier, not the value."""
    sinks = set()
    taints = {}           # fid -> {local: set(path tuples)}
    work = []

    def add(t, l, paths):
        cur = t.setdefault(l, set())
        n = len(cur)
        cur |= {p for p in paths if len(p) <= 8}
        return len(cur) != n

    def seed_hit(pl):
        return place_has(pl, adt_short, field)
    for fid in clo:
        if body_of(fx.fns[fid]) is not None:
            taints[fid] = {}
            work.append(fid)
    seen_param = set()
    iters = 0
    while work and iters < 4000:
        iters += 1
        fid = work.pop()
        body = body_of(fx.fns[fid])
        t = taints[fid]
        changed = True
        while changed:
            changed = False
            for b in body.reach:
                for s in body.stmts(b):
                    if s["k"] != "assign":
                        continue
                    rv = s["rv"]
                    dl = s["place"]["l"]
                    df = fpath(s["place"])
                    if rv["k"] == "agg":
                        for idx, o in enumerate(rv["ops"]):
                            pl = op_place(o)
                            if not pl:
                                continue
                            res = {()} if seed_hit(pl) else residuals(t, pl)
                            if not res:
                                continue
                            fname = rv["fields"][idx] if rv.get("ak") == "adt" and idx < len(rv.get("fields", [])) else str(idx)
                            if rv.get("adt") in fx.adts and () in res:
                                sinks.add((short(rv["adt"]), fname))
                            if rv.get("adt") in fx.adts or rv.get("ak") in ("tuple",):
                                changed |= add(t, dl, {df + (fname,) + r for r in res})
                            else:
                                # Option/Result/array wrappers: transparent
                                changed |= add(t, dl, {df + r for r in res})
                        continue
                    res = set()
                    for o in ops_of(rv):
                        pl = op_place(o)
                        if pl:
                            res |= ({()} if seed_hit(pl) else residuals(t, pl))
                    if rv["k"] in ("ref", "discr"):
                        res |= ({()} if seed_hit(rv["place"]) else residuals(t, rv["place"]))
                    if not res:
                        continue
                    if rv["k"] in ("bin", "un", "discr"):
                        res = {()}
                    last = s["place"]["p"][-1] if s["place"]["p"] else None
                    if isinstance(last, dict) and last.get("adt") in fx.adts and () in res:
                        sinks.add((short(last["adt"]), last["f"]))
                    changed |= add(t, dl, {df + r for r in res})
                tt = body.term(b)
                if tt["k"] != "call":
                    continue
                argres = []
                for a in tt["args"]:
                    pl = op_place(a)
                    argres.append(({()} if seed_hit(pl) else residuals(t, pl)) if pl else set())
                if not any(argres):
                    continue
                d = tt["dest"]
                allres = set().union(*argres)
                last = d["p"][-1] if d["p"] else None
                if isinstance(last, dict) and last.get("adt") in fx.adts and () in allres:
                    sinks.add((short(last["adt"]), last["f"]))
                changed |= add(t, d["l"], {fpath(d) + r for r in allres})
                p = callee_path(tt["callee"])
                if p not in fx.fns and (tt["callee"].get("path") or "").endswith("Into::into"):
                    # `x.into()` runs the crate's `From<X> for T` impl: T is the second type argument of `<X as Into<T>>`
                    m_into = re.search(r" as core::convert::Into<(.*)>>::into$", tt["callee"].get("full") or "")
                    if m_into:
                        tgt_ty = m_into.group(1)
                        for g_id, g_ in fx.fns.items():
                            im_ = g_.get("impl") or {}
                            if g_["name"] == "from" and (im_.get("trait_path") or "").endswith("convert::From") and im_.get("self_ty") == tgt_ty:
                                p = g_id
                                if p not in taints and body_of(g_) is not None:
                                    taints[p] = {}
                                    clo = set(clo) | {p}
                                break
                if p in fx.fns and p in clo:
                    for i, r in enumerate(argres):
                        if r and add(taints[p], i + 1, r):
                            work.append(p)
                # `x.push(v)` / `x.extend(v)`: the receiver collection now holds the value
                if len(argres) >= 2 and tt["args"] and any(argres[1:]):
                    r0 = op_place(tt["args"][0])
                    nm = (tt["callee"].get("path") or "").split("::")[-1]
                    if r0 is not None and r0["ty"].startswith("&mut ") and nm in ("push", "extend", "extend_from_slice", "insert", "push_str"):
                        # the receiver is a reference local: taint what it points to when resolvable
                        sd = body.single_def(r0["l"]) if not r0["p"] else None
                        if sd and sd[2] == "assign" and sd[3]["k"] == "ref":
                            tgt = sd[3]["place"]
                            lastt = tgt["p"][-1] if tgt["p"] else None
                            vals = set().union(*argres[1:])
                            if isinstance(lastt, dict) and lastt.get("adt") in fx.adts and () in vals:
                                sinks.add((short(lastt["adt"]), lastt["f"]))
                            changed |= add(t, tgt["l"], {fpath(tgt) + r for r in vals})
    return sinks


def record_store(fx, s, sinks):
    for p in s["place"]["p"]:
        if isinstance(p, dict) and p.get("adt") in fx.adts:
            pass
    last = s["place"]["p"][-1] if s["place"]["p"] else None
    if isinstance(last, dict) and last.get("adt") in fx.adts:
        sinks.add((short(last["adt"]), last["f"]))


_leaf = {}


def is_leaf(fx, qual):
    """field whose type holds no further box struct (a value field, not a path element such as TrakBox.mdia)"""
    if qual in _leaf:
        return _leaf[qual]
    a, f = qual.split(".", 1)
    adt = fx.adt_short(a)
    res = True
    if adt:
        for v in adt["variants"]:
            for fl in v["fields"]:
                if fl["name"] == f:
                    res = not _has_struct(fx, fl["ty"])
    _leaf[qual] = res
    return res


def _has_struct(fx, t):
    if "adt" in t:
        a = fx.adts.get(t["adt"])
        if a is not None and a["kind"] == "Struct" and len(a["variants"][0]["fields"]) > 1:
            return True
        if a is not None and a["kind"] == "Struct":
            # single-field wrappers (FourCC, FixedPoint*) are values
            return False
        return any(_has_struct(fx, x) for x in t["args"])
    for k in ("ref", "slice", "array"):
        if k in t:
            return _has_struct(fx, t[k])
    if "tuple" in t:
        return any(_has_struct(fx, x) for x in t["tuple"])
    return False


def run(fx, chk, tier):
    chk.rule("R-ROW", "for every configuration field / accessor pair, the box fields the configuration value is stored into intersect the box fields the accessor reads")
    chk.rule("R-KIND", "each media configuration variant populates the sample-entry field that media_type()/box_type() test for that kind")
    cg = callgraph(fx)
    ents = muxer_entries(fx)
    clo = cg.closure(ents)
    row_sinks, row_common = {}, {}
    for adt, field, accs in ROWS:
        a = fx.adt_short(adt)
        if not chk.anchor("R-ROW", "%s.%s" % (adt, field), a and any(f["name"] == field for f in a["variants"][0]["fields"])):
            continue
        sinks = set()
        seeds = [(adt, field)]
        done = set()
        while seeds and len(done) < 6:
            sd = seeds.pop()
            if sd in done:
                continue
            done.add(sd)
            new = forward_sinks(fx, cg, clo, sd[0], sd[1])
            for x in new - sinks:
                # writer-state fields (not boxes) carry the value to a later call: follow them
                if fx.impl_fn(x[0], "Mp4Box", "box_size") is None and not x[0].endswith(("Entry", "Descriptor", "Unit")):
                    seeds.append(x)
            sinks |= new
        sink_s = {"%s.%s" % x for x in sinks}
        row_sinks[(adt, field)] = sink_s
        for st, name in accs:
            fn = fx.impl_fn(st, None, name)
            key = "%s.%s->%s::%s" % (adt, field, st.split("<")[0], name)
            if not chk.anchor("R-ROW", key, fn):
                continue
            rd = c09.fields_read(fx, cg, fn["id"])
            common = sorted(x for x in (sink_s & rd) if is_leaf(fx, x))
            row_common[(adt, field)] = set(common) | row_common.get((adt, field), set())
            chk.require(bool(common), "R-ROW", key, "stored into and read from %s" % common,
                        "%s.%s is stored into %s, but %s::%s computes its result from %s: the accessor does not depend on the configured value" % (
                            adt, field, sorted(sink_s) or "no box field", st, name, sorted(x for x in rd if not x.startswith(("Mp4Track.", "TrakBox.", "MdiaBox.", "MinfBox.", "StblBox.")))[:8]), site_of(fn))
    # ---------------- R-NOMIX: the box field that carries one configured value to its accessor carries no other one
    chk.rule("R-NOMIX", "a box field through which a configuration field reaches its accessor receives the value of no other field of the same configuration struct (the accessor returns that configured value, not a blend: e.g. the ftyp compatible-brand list is the configured list, without the major brand folded in)")
    nmix = 0
    for (adt, field), common in sorted(row_common.items()):
        for (adt2, field2), sk in sorted(row_sinks.items()):
            if adt2 != adt or field2 == field:
                continue
            # carriers are fields of boxes / descriptors; single-field value wrappers (FixedPointU16.0, FourCC.value) are types, not places
            shared = sorted(x for x in (common & sk) if fx.impl_fn(x.split(".")[0], "Mp4Box", "box_size") is not None or x.split(".")[0].endswith("Descriptor"))
            # two fields that legitimately share a carrier today are listed here with the reason (none on today's tree)
            nmix += 1
            chk.require(not shared, "R-NOMIX", "%s.%s<-%s" % (adt, field, field2), "carriers of %s receive nothing from %s" % (field, field2),
                        "%s.%s also flows into %s, the box field through which %s.%s reaches its accessor: the accessor no longer returns the configured %s alone" % (adt, field2, shared, adt, field, field), site_of(fx.impl_fn("Mp4Writer<W>", None, "write_start") or fx.impl_fn("Mp4TrackWriter", None, "new")))
    chk.floor("R-NOMIX", "ordered pairs of configuration fields", nmix, 20)
    # ---------------- R-KIND
    new = fx.impl_fn("Mp4TrackWriter", None, "new")
    mt = fx.impl_fn("Mp4Track", None, "media_type")
    bt = fx.impl_fn("Mp4Track", None, "box_type")
    if chk.anchor("R-KIND", "Mp4TrackWriter::new / Mp4Track::media_type / box_type", new and mt and bt):
        body = body_of(new)
        # stores of Some(..) into StsdBox.<field> per matched MediaConfig variant (downcast in the place that seeds the arm)
        stores = {}
        for b in body.reach:
            for s in body.stmts(b):
                if s["k"] == "assign" and s["place"]["p"] and isinstance(s["place"]["p"][-1], dict) and short(s["place"]["p"][-1].get("adt", "")) == "StsdBox":
                    # which variant arm dominates this block?
                    var = None
                    for d in body.dom()[b]:
                        for s2 in body.stmts(d):
                            if s2["k"] == "assign" and s2["rv"]["k"] == "ref":
                                for p in s2["rv"]["place"]["p"]:
                                    if isinstance(p, dict) and "downcast" in p and p["downcast"] in [k for k, _ in KIND]:
                                        if body.dominates(d, b):
                                            var = p["downcast"]
                    stores[s["place"]["p"][-1]["f"]] = var
        rd_mt = c09.fields_read(fx, cg, mt["id"])
        rd_bt = c09.fields_read(fx, cg, bt["id"])
        for variant, fld in KIND:
            chk.require(stores.get(fld) == variant, "R-KIND", "mux|" + variant, "%s => stsd.%s" % (variant, fld), "%s populates stsd.%s in arm %s" % (variant, fld, stores.get(fld)), site_of(new))
            chk.require("StsdBox." + fld in rd_mt and "StsdBox." + fld in rd_bt, "R-KIND", "demux|" + fld, "media_type()/box_type() test stsd.%s" % fld, "media_type()/box_type() do not test stsd.%s" % fld, site_of(mt))
    # ---------------- R-VERBATIM
    import re
    from panicfree import fn_short
    chk.rule("R-VERBATIM", "byte strings of a track configuration (parameter sets) reach the sample entry unchanged: inside the configuration closure every byte sequence handed to a local function is a parameter or a field of one, through copies only (no slicing, trimming or rewriting on the way)")
    ctor = fx.impl_fn("Mp4TrackWriter", None, "new")
    nverb = 0
    if chk.anchor("R-VERBATIM", "Mp4TrackWriter::new", ctor):
        IDENT = re.compile(r"^(?:[\w:<>&\[\], ]*?)(deref|to_vec|to_owned|clone|as_ref|as_slice|borrow|into|from|as_bytes|iter|copied|cloned|collect|into_iter|from_iter)\((.*)\)$")
        PARAM = re.compile(r"^\$\d+(\.[\w]+)*$")

        def is_bytes(ty):
            t = (ty or "").replace("&mut ", "").replace("&", "").replace("'static ", "").strip()
            t = re.sub(r"^'\w+ ", "", t)
            return t in ("[u8]", "alloc::vec::Vec<u8>", "Vec<u8>", "bytes::Bytes", "bytes::bytes::Bytes") or t.startswith("alloc::vec::Vec<u8,")
        for fid in sorted(cg.closure([ctor["id"]])):
            fn = fx.fns.get(fid)
            body = body_of(fn) if fn else None
            if body is None or fn.get("derived"):
                continue
            for b, t in body.calls():
                p = callee_path(t["callee"])
                tail_ = (t["callee"].get("path") or "").split("::")[-1]
                if p not in fx.fns and tail_ not in ("to_vec", "to_owned", "clone", "from", "into", "extend_from_slice", "copy_from_slice", "from_iter", "collect"):
                    continue
                for i, a in enumerate(t["args"]):
                    pl = op_place(a)
                    ty = (pl or {}).get("ty") or (body.locals[pl["l"]]["ty"] if pl is not None and not pl["p"] else None)
                    if not is_bytes(ty):
                        continue
                    nverb += 1
                    c = body.canon_op(a)
                    inner = c
                    for _ in range(8):
                        m_ = IDENT.match(inner)
                        if not m_:
                            break
                        inner = m_.group(2)
                    key = "%s|%s|arg%d" % (fn_short(fid), fn_short(p) if p in fx.fns else tail_, i)
                    chk.require(bool(PARAM.match(inner)) or inner.startswith(("b\"", "\"", "const")), "R-VERBATIM", key, "passes %s on unchanged" % inner,
                                "%s hands %s the byte string `%s`, which is not one of its own parameters / configuration fields passed on unchanged: the configured bytes are rewritten before they are stored" % (fn_short(fid), fn_short(p) if p in fx.fns else tail_, c),
                                site_of(fn, t.get("line")))
    chk.floor("R-VERBATIM", "byte-string hand-offs in the configuration closure", nverb, 5)
    # ---------------- R-TABLE / R-DUR
    from packs_common import compose
    import units
    chk.rule("R-TABLE", "enum-code and packed-language conversions of configured values equal their tables and are mutually inverse (C16 R3/R5 instances)")
    compose(fx, chk, tier, "R-TABLE", "C16", ["R3", "R5"], floor=120, what="conversion-table obligations")
    chk.rule("R-PACK", "codec parameters packed into bit fields (AAC object type / frequency index / channel configuration, AVC and HEVC configuration bytes) are routed to the same bits on write and on read (C05 R3 instances)")
    compose(fx, chk, tier, "R-PACK", "C05", ["R3"], floor=34, what="packed-word obligations")
    chk.rule("R-DUR", "duration bookkeeping is dimensionally consistent (media vs movie ticks) and no duration is truncated on the wire (C13 R-CAST instances)")
    units.run_rule(fx, chk, "R-DUR", units.MUXER_ENTRIES, regions=(None,), widths=False, floor=20, what="in the duration bookkeeping",
                   only=lambda f: "update_durations" in f or f.endswith("::write_sample") or f.endswith("Writer<W>::write_end"))
    compose(fx, chk, tier, "R-DUR", "C13", ["R-CAST"], keyfilter=lambda o: any(x in o["key"] for x in ("MdhdBox", "TkhdBox", "MvhdBox")) or ".floor" in o["rule"], floor=9, what="duration narrowing obligations")
    return chk.finish(
        "other",
        "%d configuration/accessor rows: forward value-flow sinks on the mux side (MIR, interprocedural over the muxer closure) intersected with the accessor's field-read footprint. "
        "Conversion tables (C16 instances), the dimensional consistency of the duration bookkeeping and the width of the duration fields are checked as well. Necessary conditions of the round trip; value equality is NOT decided." % sum(len(r[2]) for r in ROWS),
    )
