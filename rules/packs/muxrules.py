"""Muxer rules over effect traces (etrace): what each entry point of the muxer does to the output stream and to the chunk
tables, in which order, independent of how the work is split into private helpers.

Entry points (public or pub(crate) API, not private helper names):
  Mp4Writer::{write_start, add_track, write_sample, write_end},  Mp4TrackWriter::{write_sample, write_end}

M1 flush shape     every write of the pending-chunk buffer W is immediately preceded (among stream operations) by a position
                   query P on the same stream; exactly one value is pushed to co64.entries after W and it is P's result
                   (absolute offset: C13 R-ABS); stsc is only touched after W; the buffer is cleared and the pending counters
                   are reset after W and not between P and W.
M2 track end       Mp4TrackWriter::write_end performs no stream operation other than one flush [P, W] (or none).
M3 skip => empty   a success path of the flush routine (the function that contains W) without W exists only with the pending
                   sample counter provably 0 (interval from the abstract interpreter on that path).
M4/M5 sample       Mp4TrackWriter::write_sample / Mp4Writer::write_sample: the sample bytes are appended to the buffer once,
                   before any flush; stream operations are one flush or none.
M6 add_track       no stream operation.
M7 prologue        write_start: encode ftyp, take position P, write an 8-byte mdat header, write an 8-byte wide header; the
                   writer's mdat_pos is P.
M8 epilogue        write_end: flushes, then the mdat patch [E = position; seek(mdat_pos); (u32 1; seek(mdat_pos+8); u64 E-mdat_pos
                   with E-mdat_pos > u32::MAX on that path | u32 E-mdat_pos); seek(E)], then moov, nothing else.
M9 stco            the 32-bit chunk-offset table is stored only from the result of the checked conversion (no unwrap).
"""
import re

import etrace
from mir import op_place
from panicfree import fn_short
from report import site_of

U32MAX = 2 ** 32 - 1


def keep(e):
    k = e["k"]
    if k in ("io", "codec", "ext", "end", "enter"):
        return True
    if k == "push":
        return ".co64" in e["coll"] or ".stsc" in e["coll"]
    if k == "store":
        return re.match(r"\$1\.\w+$", e["place"]) is not None or e["field"] in ("stco", "co64") or e["adt"] == "MvhdBox"
    if k == "agg":
        return e["adt"] in ("Mp4Writer", "MvhdBox")
    return False


class Mux:
    def __init__(self, fx):
        self.fx = fx
        self.T = etrace.Tracer(fx, keep=keep)
        f = fx.impl_fn
        self.w_start = f("Mp4Writer<W>", None, "write_start")
        self.w_add = f("Mp4Writer<W>", None, "add_track")
        self.w_sample = f("Mp4Writer<W>", None, "write_sample")
        self.w_end = f("Mp4Writer<W>", None, "write_end")
        self.tw_sample = f("Mp4TrackWriter", None, "write_sample")
        self.tw_end = f("Mp4TrackWriter", None, "write_end")
        self.buf = None
        self.counters = []
        self.flush_fn = None

    def anchors(self):
        return {"Mp4Writer::write_start": self.w_start, "Mp4Writer::add_track": self.w_add, "Mp4Writer::write_sample": self.w_sample,
                "Mp4Writer::write_end": self.w_end, "Mp4TrackWriter::write_sample": self.tw_sample, "Mp4TrackWriter::write_end": self.tw_end}

    def traces(self, fn):
        # Write::flush moves no byte and no position: it is not an effect the ordering rules speak about
        return [[e for e in tr if not (e["k"] == "io" and e.get("op") == "flush")] for tr in (self.T.ok_traces(fn["id"]) or [])]

    # -------------------------------------------------------------------------------------------
    def discover(self):
        """the pending-chunk buffer field, the pending counters, the flush routine"""
        for tr in self.traces(self.tw_sample):
            for e in tr:
                if e["k"] == "ext" and e.get("op") in ("extend_from_slice", "extend", "put", "put_slice") and len(e["args"]) == 2 and e["args"][0].startswith("$1.") and ".bytes" in e["args"][1]:
                    self.buf = e["args"][0][3:]
        inc, zero = set(), set()
        for fn in (self.tw_sample, self.tw_end):
            for tr in self.traces(fn):
                for e in tr:
                    if e["k"] == "store" and e["place"].startswith("$1.") and "." not in e["place"][3:]:
                        f_ = e["place"][3:]
                        if e["val"] in ("Add(%s, 1)" % e["place"], "Add(1, %s)" % e["place"]):
                            inc.add(f_)
                        if e["val"] == "0":
                            zero.add(f_)
                    if e["k"] == "io" and e["op"] == "write_all" and self.buf and len(e["args"]) == 2 and e["args"][1].endswith("." + self.buf):
                        self.flush_fn = e["fn_id"]
        self.counters = sorted(inc & zero)
        self.zeroed = sorted(zero)

    def is_w(self, e):
        return e["k"] == "io" and e["op"] == "write_all" and len(e["args"]) == 2 and self.buf is not None and e["args"][1].endswith("." + self.buf)

    # -------------------------------------------------------------------------------------------
    def m1(self, fn, out):
        """flush shape on every trace of `fn`"""
        name = fn_short(fn["id"])
        nflush = 0
        for tr in self.traces(fn):
            ios = [i for i, e in enumerate(tr) if e["k"] == "io"]
            for wi, e in enumerate(tr):
                if not self.is_w(e):
                    continue
                nflush += 1
                line = e.get("line")
                prev = [i for i in ios if i < wi]
                p = tr[prev[-1]] if prev else None
                if not (p and p["op"] == "stream_position" and p["args"][:1] == e["args"][:1]):
                    out.append((False, name + "|flush|offset", "the chunk is written without taking the stream position immediately before (previous stream operation: %s)" % (p["op"] if p else "none"), fn, line))
                    continue
                # segment after W up to the next buffer append / end
                nxt = len(tr)
                for j in range(wi + 1, len(tr)):
                    if tr[j]["k"] == "ext" and tr[j].get("op") in ("extend_from_slice", "extend", "put", "put_slice") and tr[j]["args"][0].endswith("." + self.buf):
                        nxt = j
                        break
                seg = tr[wi + 1:nxt]
                start = prev[-1]
                between = tr[start + 1:wi]
                co = [x for x in seg if x["k"] == "push" and ".co64" in x["coll"] and x["coll"].endswith(".entries")]
                if len(co) != 1 or co[0]["val"] != p["dest"]:
                    out.append((False, name + "|flush|tables", "after writing a chunk the flush pushes %s to co64.entries; expected exactly the position taken before the write (%s)" % ([x["val"] for x in co] or "nothing", p["dest"]), fn, line))
                else:
                    out.append((True, name + "|flush|tables", "co64.entries <- stream_position() taken immediately before write_all (absolute offset)", fn, line))
                early = [x for x in between if x["k"] in ("push", "ext", "store") and (x["k"] != "store" or x["place"].startswith("$1."))]
                # stores between P and W that touch the pending state or tables
                early = [x for x in between if (x["k"] == "push") or (x["k"] == "ext" and x["args"] and x["args"][0].endswith("." + self.buf)) or (x["k"] == "store" and x["place"][3:] in self.counters)]
                clr = [x for x in seg if x["k"] == "ext" and x.get("op") in ("clear", "truncate") and x["args"][0].endswith("." + self.buf)]
                resets = {x["place"][3:] for x in seg if x["k"] == "store" and x["place"].startswith("$1.") and x["val"] == "0"}
                missing = [c for c in self.counters if c not in resets]
                if early or not clr or missing:
                    out.append((False, name + "|flush|reset-after-write", "pending state is reset before the write (%s) / buffer not cleared after it (%s) / counters not reset after it (%s)" % (
                        [etrace.show([x])[0][:50] for x in early], not clr, missing), fn, line))
                else:
                    out.append((True, name + "|flush|reset-after-write", "buffer cleared and %s reset only after write_all" % self.counters, fn, line))
                out.append((True, name + "|flush|offset", "stream_position() immediately before write_all of the pending chunk", fn, line))
        return nflush

    def io_shape(self, fn, out, key, allow_codec=False):
        """stream operations of every trace are [] or exactly one flush [P, W]"""
        name = fn_short(fn["id"])
        ok = True
        for tr in self.traces(fn):
            ios = [e for e in tr if e["k"] in ("io", "codec")]
            if not ios:
                continue
            good = len(ios) == 2 and ios[0]["k"] == "io" and ios[0]["op"] == "stream_position" and self.is_w(ios[1])
            if not good:
                ok = False
                out.append((False, name + "|" + key, "stream operations are %s; only one flush of the pending chunk (position, write_all) is allowed here" % [x.get("op") or fn_short(x.get("fn", "")) for x in ios], fn, ios[0].get("line")))
                break
        if ok:
            out.append((True, name + "|" + key, "stream operations: one flush [stream_position, write_all(buffer)] or none, in %d success paths" % len(self.traces(fn)), fn, None))

    def m2b(self, out):
        """every success path of the track writer's write_end goes through the flush routine (which, by M3, skips the write
        only when nothing is pending)"""
        bad = 0
        trs = self.traces(self.tw_end)
        for tr in trs:
            if not any(self.is_w(e) for e in tr) and not any(e["k"] == "enter" and e["fn"] == self.flush_fn for e in tr) and self.flush_fn != self.tw_end["id"]:
                bad += 1
        out.append((bad == 0 and bool(trs), "track-write_end|flush-first", "every success path of Mp4TrackWriter::write_end runs the chunk flush" if not bad else
                    "%d success path(s) of Mp4TrackWriter::write_end finish the track without flushing the pending chunk" % bad, self.tw_end, None))

    def m3(self, out):
        if not self.flush_fn or not self.counters:
            out.append((False, "flush|skip-only-when-empty", "flush routine / pending counter not identified (buffer %s, counters %s)" % (self.buf, self.counters), self.tw_end, None))
            return
        fn = self.fx.fns[self.flush_fn]
        bad = None
        n = 0
        for tr in self.traces(fn):
            if any(self.is_w(e) for e in tr):
                continue
            n += 1
            end = [e for e in tr if e["k"] == "end"][-1]
            it, st = end["it"], end["state"]
            for c in self.counters[:1]:
                sid = st.cells.get((1, "deref", "." + c))
                iv = it.iv(st, sid) if sid is not None else (None, None)
                if iv != (0, 0):
                    bad = (c, iv)
        if bad:
            out.append((False, "flush|skip-only-when-empty", "the flush can return Ok without writing although samples are pending: on a success path without write_all the counter %s is in %s" % bad, fn, None))
        else:
            out.append((True, "flush|skip-only-when-empty", "%d success path(s) of %s skip the write, all with %s == 0" % (n, fn_short(self.flush_fn), self.counters[0]), fn, None))

    def m4(self, fn, out):
        name = fn_short(fn["id"])
        ok = True
        for tr in self.traces(fn):
            app = [i for i, e in enumerate(tr) if e["k"] == "ext" and e.get("op") in ("extend_from_slice", "extend", "put", "put_slice") and e["args"][0].endswith("." + (self.buf or "?"))]
            ws = [i for i, e in enumerate(tr) if self.is_w(e)]
            if len(app) != 1 or (ws and ws[0] < app[0]):
                ok = False
                out.append((False, name + "|append-once", "the sample bytes are appended to the pending chunk %d times / after the flush" % len(app), fn, None))
                break
        if ok:
            out.append((True, name + "|append-once", "sample bytes appended to the pending chunk exactly once, before any flush", fn, None))

    def m6(self, out):
        trs = self.traces(self.w_add)
        ios = [e for tr in trs for e in tr if e["k"] in ("io", "codec")]
        out.append((not ios, "add_track|no-io", "add_track performs no stream operation" if not ios else "add_track touches the stream: %s" % [x.get("op") for x in ios][:4], self.w_add, None))

    def m7(self, out):
        trs = self.traces(self.w_start)
        ok = bool(trs)
        why = "no success path"
        for tr in trs:
            seq = [e for e in tr if e["k"] in ("io", "codec")]
            sig = []
            for e in seq:
                if e["k"] == "io":
                    sig.append("io:" + e["op"])
                else:
                    f = e["fn"]
                    if f.endswith("BoxHeader::write"):
                        m = re.search(r"BoxHeader::new\(BoxType::(\w+)\(\), (\d+)\)", e["args"][0])
                        sig.append("hdr:%s:%s" % (m.group(1), m.group(2)) if m else "hdr:?")
                    else:
                        m = re.match(r"<(?:\w+::)*(\w+) as ", f)
                        sig.append("box:" + (m.group(1) if m else f))
            want = ["box:FtypBox", "io:stream_position", "hdr:MdatBox:8", "hdr:WideBox:8"]
            if sig != want:
                ok = False
                why = "stream effects are %s, expected %s" % (sig, want)
                continue
            pos = [e for e in seq if e["k"] == "io"][0]
            lit = [e for e in tr if e["k"] == "agg" and e["adt"] == "Mp4Writer"]
            if not lit or lit[-1]["fields"].get("mdat_pos") != pos["dest"]:
                ok = False
                why = "the recorded mdat_pos is %s, not the position taken before the mdat header" % (lit[-1]["fields"].get("mdat_pos") if lit else "missing")
        out.append((ok, "prologue", "ftyp, mdat_pos := position, 8-byte mdat header, 8-byte wide header, nothing else" if ok else "write_start: " + why, self.w_start, None))

    def m8(self, out):
        trs = self.traces(self.w_end)
        ok_order = ok_patch = bool(trs)
        why_o = why_p = "no success path"
        seen64 = seen32 = 0
        for tr in trs:
            seq = [e for e in tr if e["k"] in ("io", "codec")]
            i = 0
            # flushes
            while i + 1 < len(seq) and seq[i]["k"] == "io" and seq[i]["op"] == "stream_position" and self.is_w(seq[i + 1]):
                i += 2
            rest = seq[i:]
            if not rest or rest[-1]["k"] != "codec" or "MoovBox" not in rest[-1]["fn"] or not rest[-1]["fn"].endswith("write_box"):
                ok_order = False
                why_o = "the last stream effect is not moov.write_box (%s)" % ([x.get("op") or fn_short(x.get("fn", "")) for x in rest][-3:])
                continue
            patch = rest[:-1]
            if any(self.is_w(e) for e in patch):
                ok_order = False
                why_o = "a chunk is flushed after the mdat size was patched"
                continue
            ops = [(e["op"], e["args"][1:]) for e in patch if e["k"] == "io"]
            if len([e for e in patch if e["k"] != "io"]):
                ok_order = False
                why_o = "a box is encoded between the flushes and moov"
                continue
            if not ops or ops[0][0] != "stream_position":
                ok_patch = False
                why_p = "the patch does not start by taking the end position"
                continue
            E = patch[0]["dest"]
            size = "Sub(%s, $1.mdat_pos)" % E

            def norm(s):
                # the canonical renderer abbreviates deep sub-terms with `_`: compare modulo that; a checked narrowing that
                # succeeded (`u32::try_from(size)` on its Ok arm) is the value itself
                s = re.sub(r"^TryFrom::try_from\((.*)\)@[\w.]+$", r"\1", s)
                return re.sub(r"\([^()]*\)@", "(_)@", s)
            body_ops = ops[1:]
            if not body_ops or body_ops[-1][0] != "seek" or norm(body_ops[-1][1][0]) != norm("SeekFrom::Start(%s)" % E):
                ok_patch = False
                why_p = "the patch does not seek back to the position it started from (last: %s)" % str(body_ops[-1] if body_ops else None)
                continue
            mid = body_ops[:-1]
            sig = [o[0] for o in mid]
            if sig == ["seek", "write_u32", "seek", "write_u64"]:
                good = mid[0][1][0] == "SeekFrom::Start($1.mdat_pos)" and mid[1][1][0] == "1" and mid[2][1][0] == "SeekFrom::Start(Add($1.mdat_pos, 8))" and norm(mid[3][1][0]) == norm(size)
                ev = [e for e in patch if e["k"] == "io" and e["op"] == "write_u64"][0]
                lo = ev["it"].read_op(ev["state"], ev["term"]["args"][1], (ev["blk"], "t"))[1]
                if not good:
                    ok_patch = False
                    why_p = "64-bit form is %s" % str(mid)
                elif lo is None or lo <= U32MAX:
                    ok_patch = False
                    why_p = "the 64-bit form is used for sizes that fit 32 bits (size >= %s on that path)" % lo
                else:
                    seen64 += 1
            elif sig == ["seek", "write_u32"]:
                good = mid[0][1][0] == "SeekFrom::Start($1.mdat_pos)" and norm(mid[1][1][0]) == norm(size)
                if not good:
                    ok_patch = False
                    why_p = "32-bit form is %s" % str(mid)
                else:
                    seen32 += 1
            else:
                ok_patch = False
                why_p = "unexpected patch operations %s" % sig
        if ok_patch and not (seen64 and seen32):
            ok_patch = False
            why_p = "missing %s form" % ("64-bit" if not seen64 else "32-bit")
        out.append((ok_order, "write_end|order", "flush every track, patch the mdat size, then write moov; nothing else" if ok_order else "write_end: " + why_o, self.w_end, None))
        out.append((ok_patch, "patch", "size=1 at mdat_pos and u64 at mdat_pos+8 above u32::MAX; u32 at mdat_pos otherwise; returns to the end position" if ok_patch else "mdat patch: " + why_p, self.w_end, None))

    def m9(self, out):
        n = 0
        bad = None
        for tr in self.traces(self.tw_end):
            for e in tr:
                if e["k"] == "store" and e["field"] == "stco" and e["adt"] == "StblBox":
                    n += 1
                    v = e["val"]
                    if "None" in v and "try_from" not in v:
                        continue
                    if "try_from" not in v or "unwrap" in v or "expect" in v:
                        bad = v
        out.append((n > 0 and bad is None, "stco-install", "stco stored only from the Ok result of the checked conversion (%d store sites on success paths)" % n if bad is None and n else
                    "the 32-bit chunk-offset table is installed from %s" % (bad or "nowhere"), self.tw_end, None))
