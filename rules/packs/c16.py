"""C16 — code and enumeration mappings are exact over their whole domain.

All mappings here are finite tables or bit routings in the source, so the for-all-values statement is decided by
extracting each table from the type-checked program and comparing it with its defining table (P6) — a proof by
table comparison, not by enumeration of 2^32 inputs.
  R1 BoxType: From<u32> and From<BoxType> for u32 list the same (variant, code) pairs, codes pairwise distinct,
     wildcard <-> UnknownBox(t) is the identity => u32 -> BoxType -> u32 is the identity on every code and
     BoxType -> u32 -> BoxType on every value; each code equals the independent table spec/fourcc.json.
  R2 FourCC: From<u32> stores to_be_bytes, From<&FourCC> for u32 is from_be_bytes of the same field (inverse pair,
     same endianness), From<FourCC> delegates, From<[u8;4]> stores its argument, From<BoxType> composes the two,
     FromStr accepts exactly the 4-element byte-slice pattern and stores the bytes in order.
     Text form: Display/Debug must not call a lossy conversion (from_utf8_lossy) — to_string().parse() is otherwise
     not the identity for bytes >= 0x80.
  R3 enum tables: every TryFrom<uN> for a fieldless enum maps exactly {discriminant(V) -> Ok(V)} for every variant
     and everything else to Err; SampleFreqIndex::freq is total and equals the MPEG-4 table; discriminants equal the
     spec tables.  TrackType / MediaType string and byte tables: forward and reverse maps are mutually inverse, the
     &str and [u8;4] handler constants spell the same bytes and equal the registered handler types; sibling From
     impls agree.  AvcProfile: every arm is reachable for some input (dead-arm check with bit-level value sets) and
     the constraint flag is routed from the spec's bit.
  R4 fixed point: multiplier in `new` == denominator in `new`/`new_raw` == 2^8 / 2^16; value() is to_integer();
     raw_value() is the numerator; `new` cannot overflow (interval arithmetic on the source type).
  R5 packed language: the decoder's and encoder's 5-bit groups sit at the same shifts, use mask 0x1F and offset 0x60,
     and are mutually inverse on the 15 payload bits.
Not decided: whether non-letter language triples should be rejected (the code never rejects).
"""
import json
import os

import hirq
import sval
import tables
from bits import BV, Evaluator
from facts import short
from mir import INT_TYPES, body_of
from report import site_of

SPEC = json.load(open(os.path.join(os.path.dirname(os.path.dirname(os.path.dirname(os.path.abspath(__file__)))), "spec", "fourcc.json")))

AAC_OBJECT_TYPES = set(range(1, 10)) | set(range(12, 18)) | set(range(19, 31)) | set(range(32, 47))


def code_of(s):
    b = s.encode("latin-1")
    return (b[0] << 24) | (b[1] << 16) | (b[2] << 8) | b[3]


def last(p):
    return (p or "").split("::")[-1]


def run(fx, chk, tier):
    chk.rule("R1", "BoxType <-> u32 tables are mutually inverse, injective, wildcard<->UnknownBox identity, codes equal the registered four-character codes")
    chk.rule("R2", "FourCC conversions are the big-endian byte identity in both directions; textual form not lossy")
    chk.rule("R3", "TryFrom tables equal {discriminant -> variant} exactly with wildcard -> Err; string/byte tables mutually inverse; no dead arms; discriminants equal spec tables")
    chk.rule("R4", "fixed-point multiplier == denominator == 2^frac_bits; value()=to_integer; raw_value()=numer; new() cannot overflow")
    chk.rule("R5", "language decoder/encoder bit groups agree (shifts 10/5/0, mask 0x1F, offset 0x60) and are mutually inverse on 15 bits")
    r1(fx, chk)
    r2(fx, chk)
    r3(fx, chk)
    r4(fx, chk)
    r5(fx, chk)
    return chk.finish(
        "proof" if not chk.violations else "other",
        "Finite tables and bit routings extracted from HIR (match arms, constants, enum discriminants) are compared with their inverses and with "
        "independent defining tables (spec/fourcc.json); equality of tables implies the mapping property for every value of the domain. "
        "Not decided: rejection of non-letter language codes.",
    )


# ---------------------------------------------------------------------------------------------
def r1(fx, chk):
    f_from = fx.impl_fn("BoxType", "From<u32>", "from")
    f_into = fx.impl_fn("u32", "From<BoxType>", "from")
    if not (chk.anchor("R1", "impl From<u32> for BoxType", f_from) and chk.anchor("R1", "impl From<BoxType> for u32", f_into)):
        return
    adt = fx.adt_short("BoxType")
    variants = [v["name"] for v in adt["variants"]]
    m1 = tables.find_match(f_from)
    m2 = tables.find_match(f_into)
    fwd = {}   # code -> variant
    wild_ok = False
    t1 = tables.match_table(fx, m1) if m1 is not None else []
    if m1 is None:
        # second form: a constant table of (code, variant) pairs searched for the code, with UnknownBox(t) as the fallback
        pairs = None
        for cid, c in fx.consts.items():
            if not cid.startswith(f_from["id"] + "::"):
                continue
            for n, _ in hirq.walk((c.get("hir") or {}).get("body") or {}):
                if n.get("k") == "array" and n.get("es") and all(e.get("k") == "tup" and len(e.get("es", [])) == 2 for e in n["es"]):
                    pairs = n["es"]
        root1 = hirq.body_root(f_from)
        searched = any(n.get("k") == "mcall" and n.get("m") in ("find", "position", "binary_search_by_key", "find_map") for n, _ in hirq.walk(root1))
        fallback = any(n.get("k") == "call" and (n.get("fn") or "").endswith("BoxType::UnknownBox") and n.get("args") and n["args"][0].get("res") == "local" for n, _ in hirq.walk(root1))
        if pairs is not None and searched:
            for e in pairs:
                code_n, var_n = e["es"]
                cv = code_n.get("val") if code_n.get("k") == "lit" else None
                vv = var_n.get("def") if var_n.get("k") == "path" else None
                if not isinstance(cv, int) or not vv:
                    chk.bad("R1", "pair|%s" % hirq.expr_str(e)[:30], "unexpected entry shape in the code table of From<u32> for BoxType", site_of(f_from, e.get("line")))
                    continue
                if cv in fwd:
                    # `find` returns the first match: a second entry with the same code is dead
                    chk.bad("R1", "dup-code|%08x" % cv, "code 0x%08x appears twice in the code table of From<u32> for BoxType (second is dead)" % cv, site_of(f_from, e.get("line")))
                else:
                    fwd[cv] = last(vv)
            wild_ok = fallback
        else:
            chk.analysed.setdefault("tables_not_compared", []).append("From<u32> for BoxType")
            chk.ok("R1", "From<u32>.form", "not compared: the decoder of box codes is neither a match nor a searched constant table", site_of(f_from))
            return
    if m2 is None:
        chk.analysed.setdefault("tables_not_compared", []).append("From<BoxType> for u32")
        chk.ok("R1", "From<BoxType>.form", "not compared: the encoder of box codes is not a match", site_of(f_into))
        return
    t2 = tables.match_table(fx, m2)
    for pat, res, arm in t1:
        if pat[0] == "int" and res[0] == "variant" and not res[2]:
            code = pat[1]
            if code in fwd:
                chk.bad("R1", "dup-code|%08x" % code, "code 0x%08x appears in two arms of From<u32> for BoxType (second is dead)" % code, site_of(f_from, arm.get("line")))
            else:
                fwd[code] = last(res[1])
        elif pat[0] in ("wild", "bind") and res[0] == "variant" and last(res[1]) == "UnknownBox" and res[2] and res[2][0][0] == "local":
            wild_ok = True
        else:
            chk.bad("R1", "arm|%s" % hirq.pat_str(arm["pat"]), "unexpected arm shape in From<u32> for BoxType: %s => %s" % (pat, res), site_of(f_from, arm.get("line")))
    chk.require(wild_ok, "R1", "From<u32>.wildcard", "wildcard arm returns UnknownBox(t)", "From<u32> for BoxType has no `_ => UnknownBox(t)` arm", site_of(f_from))
    back = {}  # variant -> code
    unk_ok = False
    for pat, res, arm in t2:
        if pat[0] == "variant" and not pat[2] and res[0] == "int":
            back[last(pat[1])] = res[1]
        elif pat[0] == "variant" and last(pat[1]) == "UnknownBox" and res[0] == "local" and pat[2] and pat[2][0] == ("bind", res[1]):
            unk_ok = True
        else:
            chk.bad("R1", "arm-back|%s" % hirq.pat_str(arm["pat"]), "unexpected arm shape in From<BoxType> for u32: %s => %s" % (pat, res), site_of(f_into, arm.get("line")))
    chk.require(unk_ok, "R1", "From<BoxType>.unknown", "UnknownBox(t) => t", "From<BoxType> for u32 does not return the payload of UnknownBox", site_of(f_into))
    # inverse
    named = [v for v in variants if v != "UnknownBox"]
    chk.floor("R1", "BoxType named variants", len(named), 50)
    for v in named:
        c = back.get(v)
        if c is None:
            chk.bad("R1", "missing-back|%s" % v, "variant %s has no arm in From<BoxType> for u32" % v, site_of(f_into))
            continue
        chk.require(fwd.get(c) == v, "R1", "inverse|%s" % v, "0x%08x <-> %s in both tables" % (c, v),
                    "BoxType::%s encodes as 0x%08x ('%s') but that code decodes as %s" % (v, c, tables.fourcc_of(c), fwd.get(c)), site_of(f_from))
    for c, v in fwd.items():
        if back.get(v) != c:
            chk.bad("R1", "inverse-fwd|%s" % v, "code 0x%08x decodes as %s which encodes as %s" % (c, v, back.get(v)), site_of(f_from))
    codes = list(back.values())
    chk.require(len(set(codes)) == len(codes), "R1", "injective", "%d distinct codes" % len(codes), "two BoxType variants share a code", site_of(f_into))
    # spec
    spec = SPEC["box_types"]
    for v in named:
        if v not in spec:
            chk.note("BoxType::%s has no entry in spec/fourcc.json (not checked against the registry)" % v)
            continue
        want = code_of(spec[v])
        got = back.get(v)
        if got is None:
            continue
        chk.require(got == want, "R1", "spec|%s" % v, "'%s'" % spec[v],
                    "BoxType::%s has code 0x%08x ('%s'); the registered code is '%s' (0x%08x)" % (v, got, tables.fourcc_of(got), spec[v], want), site_of(f_into))


# ---------------------------------------------------------------------------------------------
def body_expr(fn):
    return tables.peel(hirq.body_root(fn))


def be_bytes_of(arr, name, nbytes=4):
    """is `arr` (term) the big-endian byte sequence of the `nbytes`-byte input `name`?"""
    if arr[0] != "arr" or len(arr[1]) != nbytes:
        return False
    for i, x in enumerate(arr[1]):
        b = sval.bv(x)
        if b is None or b.w != 8:
            return False
        hi = (nbytes - 1 - i) * 8
        if b.routing() != {k: (name, hi + k) for k in range(8)}:
            return False
    return True


def _hoist_try(t):
    """`f(.. g(x).map_err(h)? ..)` with g(x) = if c { Ok(v) } else { Err(e) }  ==  if c { f(.. v ..) } else { return Err(..) }"""
    found = []

    def walk(x):
        if isinstance(x, tuple):
            if len(x) == 3 and x[0] == "ext" and x[1] == "try" and isinstance(x[2], list) and len(x[2]) == 1:
                found.append(x)
            for y in x:
                walk(y)
        elif isinstance(x, list):
            for y in x:
                walk(y)
        elif isinstance(x, dict):
            for y in x.values():
                walk(y)
    walk(t)
    if len(found) != 1:
        return t
    tr = found[0]
    inner = tr[2][0]
    while isinstance(inner, tuple) and inner[0] == "ext" and str(inner[1]).startswith("map_err") and inner[2]:
        inner = inner[2][0]
    if not (isinstance(inner, tuple) and inner[0] == "ite" and inner[2][0] == "variant" and last(inner[2][1]) == "Ok" and inner[2][2] and inner[3][0] == "variant" and last(inner[3][1]) == "Err"):
        return t
    v = inner[2][2][0]

    def subst(x):
        if x is tr:
            return v
        if isinstance(x, tuple):
            return tuple(subst(y) for y in x)
        if isinstance(x, list):
            return [subst(y) for y in x]
        if isinstance(x, dict):
            return {k: subst(y) for k, y in x.items()}
        return x
    return ("ite", inner[1], subst(t), ("variant", "core::result::Result::Err", [("opaque", "mapped error")]))


def r2(fx, chk):
    f_u32 = fx.impl_fn("FourCC", "From<u32>", "from")
    f_ref = fx.impl_fn("u32", "From<&FourCC>", "from")
    f_val = fx.impl_fn("u32", "From<FourCC>", "from")
    f_arr = fx.impl_fn("FourCC", "From<[u8; 4]>", "from")
    f_bt = fx.impl_fn("FourCC", "From<BoxType>", "from")
    f_str = fx.impl_fn("FourCC", "FromStr", "from_str")
    for nm, f in (("From<u32> for FourCC", f_u32), ("From<&FourCC> for u32", f_ref), ("From<FourCC> for u32", f_val),
                  ("From<[u8;4]> for FourCC", f_arr), ("From<BoxType> for FourCC", f_bt), ("FromStr for FourCC", f_str)):
        if not chk.anchor("R2", nm, f):
            return
    # Every conversion is evaluated abstractly (sval): the rule looks at the value it computes, so delegation between the
    # impls, temporaries and the spelling of the byte shuffling do not matter.
    def ev(f, keep=()):
        return sval.SVal(fx, keep=lambda fid: fid in keep).eval_fn(f)

    def fourcc_value(t):
        return t[2].get("value") if t[0] == "struct" and last(t[1]) == "FourCC" else None
    # From<u32>: value = big-endian bytes of the number
    t = ev(f_u32)
    pname = f_u32["hir"]["params"][0].get("name")
    v = fourcc_value(t)
    chk.require(v is not None and be_bytes_of(v, pname), "R2", "From<u32>", "value = big-endian bytes of the number", "From<u32> for FourCC does not store the big-endian bytes of the number: " + sval.show(t)[:200], site_of(f_u32))
    # u32 from (&)FourCC: the four stored bytes, first byte most significant
    for key, f in (("From<&FourCC>", f_ref), ("From<FourCC>", f_val)):
        t = ev(f)
        b = sval.bv(t)
        pn = f["hir"]["params"][0].get("name")
        want = {}
        for i in range(4):
            for k in range(8):
                want[(3 - i) * 8 + k] = ("%s.value[%d]" % (pn, i), k)
        chk.require(b is not None and b.w == 32 and b.routing() == want, "R2", key, "u32 = stored bytes, first byte most significant",
                    "%s for u32 is not the big-endian value of the stored bytes: %s" % (key, sval.show(t)[:200]), site_of(f))
    # From<[u8;4]>: stores its argument unchanged
    t = ev(f_arr)
    pn = f_arr["hir"]["params"][0].get("name")
    v = fourcc_value(t)
    ok = v is not None and v[0] == "arr" and len(v[1]) == 4 and all(sval.bv(x) is not None and sval.bv(x).routing() == {k: ("%s[%d]" % (pn, i), k) for k in range(8)} for i, x in enumerate(v[1]))
    chk.require(ok, "R2", "From<[u8;4]>", "stores its argument", "From<[u8;4]> for FourCC does not store its argument unchanged: " + sval.show(t)[:200], site_of(f_arr))
    # From<BoxType>: big-endian bytes of the code that From<BoxType> for u32 (checked by R1) assigns
    f_into = fx.impl_fn("u32", "From<BoxType>", "from")
    ok = False
    t = ("opaque", "From<BoxType> for u32 not found")
    if f_into is not None:
        t = ev(f_bt, keep=(f_into["id"],))
        v = fourcc_value(t)
        names = set()
        if v is not None and v[0] == "arr":
            for x in v[1]:
                b = sval.bv(x)
                names |= {r[0] for r in (b.routing().values() if b is not None else [])}
        ok = len(names) == 1 and list(names)[0].startswith("conv:" + f_into["id"] + "(") and be_bytes_of(v, list(names)[0])
    chk.require(ok, "R2", "From<BoxType>", "big-endian bytes of u32::from(box type)", "From<BoxType> for FourCC is not the big-endian code of the box type: " + sval.show(t)[:200], site_of(f_bt))
    # FromStr: exactly four bytes, stored in order, anything else rejected
    t = _hoist_try(ev(f_str))
    # `<[u8; 4]>::try_from(bytes).map(Self::from).map_err(..)`: Result::map / map_err distribute over the two outcomes
    def _push_result_adaptors(x):
        if isinstance(x, tuple) and len(x) == 3 and x[0] == "ext" and isinstance(x[2], list) and x[2]:
            nm = str(x[1])
            inner = _push_result_adaptors(x[2][0])
            is_ite = isinstance(inner, tuple) and inner[0] == "ite" and inner[2][0] == "variant" and last(inner[2][1]) == "Ok" and inner[2][2] and inner[3][0] == "variant" and last(inner[3][1]) == "Err"
            if is_ite and nm.startswith("map_err"):
                return ("ite", inner[1], inner[2], ("variant", inner[3][1], [("opaque", "map_err")]))
            if is_ite and nm.startswith("map::<") and "From<[u8; 4]>>::from" in nm and f_arr is not None:
                # the mapped function is the crate's From<[u8; 4]> for FourCC (checked above to store its argument unchanged)
                return ("ite", inner[1], ("variant", inner[2][1], [("struct", "FourCC", {"value": inner[2][2][0]})]), inner[3])
        return x
    t = _push_result_adaptors(t)
    pn = f_str["hir"]["params"][0].get("name")
    ok = False
    if t[0] == "ite" and t[1] == ("lenis", ("slice", pn), 4):
        a, b = t[2], t[3]
        if a[0] == "return":
            a = a[1]
        if b[0] == "return":
            b = b[1]
        va = fourcc_value(a[2][0]) if a[0] == "variant" and last(a[1]) == "Ok" and a[2] else None
        good = va is not None and va[0] == "arr" and len(va[1]) == 4 and all(sval.bv(x) is not None and sval.bv(x).routing() == {k: ("%s[%d]" % (pn, i), k) for k in range(8)} for i, x in enumerate(va[1]))
        ok = good and b[0] == "variant" and last(b[1]) == "Err"
    chk.require(ok, "R2", "FromStr", "accepts exactly 4 bytes, stores them in order, else Err", "FromStr for FourCC does not accept exactly the 4-byte strings in order: " + sval.show(t)[:240], site_of(f_str))
    # textual form: lossy conversion denylist
    for tr in ("Display",):
        f = fx.impl_fn("FourCC", tr, "fmt")
        if f is None:
            continue
        # the text form is computed by fmt and by the local functions it reaches (a `printable()` helper is part of it)
        from callgraph import callgraph as _cg
        roots_ = [hirq.body_root(fx.fns[g_]) for g_ in _cg(fx).closure([f["id"]]) if g_ in fx.fns and not fx.fns[g_].get("derived") and fx.fns[g_].get("hir")]
        roots_ = [r_ for r_ in roots_ if r_ is not None]
        lossy = [n for r_ in roots_ for n, _ in hirq.walk(r_) if n.get("k") in ("call", "mcall") and (n.get("fn") or "").endswith("from_utf8_lossy")]
        REWRITE = ("replace", "replacen", "replace_range", "escape_default", "escape_debug", "escape_unicode", "escape_ascii", "trim", "trim_start", "trim_end", "trim_matches",
                   "to_uppercase", "to_lowercase", "to_ascii_uppercase", "to_ascii_lowercase", "make_ascii_uppercase", "make_ascii_lowercase", "filter", "filter_map", "retain",
                   "is_control", "is_ascii_control", "is_ascii_graphic", "is_alphanumeric", "is_ascii_alphanumeric", "is_ascii_punctuation", "is_whitespace", "truncate", "take", "skip")
        rewrite = sorted({(n.get("m") or last(n.get("resolved") or n.get("fn") or "")) for r_ in roots_ for n, _ in hirq.walk(r_)
                          if (n.get("k") in ("call", "mcall") and (n.get("m") or last(n.get("resolved") or n.get("fn") or "")) in REWRITE)
                          or (n.get("k") == "path" and n.get("res") != "local" and last(n.get("def") or "") in REWRITE)} - {None, ""})
        chk.require(not rewrite, "R2", "text-rewrite|%s" % tr, "the rendering applies no character-level rewriting",
                    "%s for FourCC rewrites, drops or classifies characters of the code (%s): distinct codes can print alike and to_string()/parse() is no longer the identity on them" % (tr, ", ".join(rewrite)), site_of(f))
        chk.require(not lossy, "R2", "text-lossy|%s" % tr, "no lossy conversion",
                    "%s for FourCC renders the bytes with String::from_utf8_lossy: codes with a byte >= 0x80 (e.g. 0xA9 'nam') do not survive to_string()/parse()" % tr, site_of(f))


# ---------------------------------------------------------------------------------------------
def enum_discrs(adt):
    return {v["name"]: v.get("discr") for v in adt["variants"]}


def table_of(fx, f, depth=0):
    """match table of a conversion function, following delegation to another local conversion (`(&t).into()`,
    `Self::from(*t)`): list of (pattern, result, arm)"""
    m = tables.find_match(f)
    if m is not None:
        return tables.match_table(fx, m)
    ic = tables.ifchain_table(fx, f)
    if ic is not None:
        return ic
    if depth > 3:
        return None
    e = body_expr(f)
    while e.get("k") in ("try", "addrof") or (e.get("k") == "un" and e.get("op") == "Deref"):
        e = e["e"]
    if e.get("k") in ("call", "mcall"):
        g = tables.resolve_conv(fx, e)
        if g in fx.fns and g != f["id"]:
            return table_of(fx, fx.fns[g], depth + 1)
    return None


def r3(fx, chk):
    # (a) TryFrom<uN> for fieldless enums, discovered
    found = 0
    compared = 0
    not_compared = []
    for f in sorted(fx.fns.values(), key=lambda f: f["id"]):
        im = f.get("impl") or {}
        tr = short(im.get("trait") or "")
        if f["name"] != "try_from" or tr not in ("TryFrom<u8>", "TryFrom<u16>", "TryFrom<u32>", "TryFrom<u64>"):
            continue
        adt = fx.adts.get(im.get("self_ty"))
        if adt is None or adt["kind"] != "Enum" or any(v["fields"] for v in adt["variants"]):
            continue
        found += 1
        ename = last(adt["id"])
        discr = enum_discrs(adt)
        m = tables.find_match(f)
        # vocabulary: a `match` on (bits of) the converted value with integer / wildcard arms.  A conversion written another
        # way (lookup in a const array, arithmetic on the discriminant, ...) is outside what this rule can read: it is
        # listed as not compared, never reported; the floor below keeps the rule from passing vacuously
        import bits as _bits
        in_vocab = m is not None
        if in_vocab:
            try:
                bv0 = _bits.Evaluator(fx).ev(m["scrut"])
            except Exception:
                bv0 = None
            in_vocab = bv0 is not None and all(b in (0, 1) or (isinstance(b, tuple) and b[0] == "v") for b in bv0.bits)
            in_vocab = in_vocab and all(p[0] in ("int", "wild", "bind", "range", "or") for p, _r, _a in tables.match_table(fx, m))
        if not in_vocab:
            not_compared.append(ename)
            continue
        compared += 1
        # the table must be keyed on the value itself: any masking / shifting / arithmetic on the scrutinee changes which
        # inputs are accepted (decided with the bit-routing evaluator: every bit of the scrutinee is the same bit of the input)
        sc = m["scrut"]
        import bits as _bits
        ev = _bits.Evaluator(fx)
        bv = ev.ev(sc)
        pname = None
        ident = bv is not None and all(isinstance(b, tuple) and b[0] == "v" and b[2] == i for i, b in enumerate(bv.bits)) and len({b[1] for b in bv.bits}) == 1
        chk.require(ident, "R3", "%s|scrutinee" % ename, "table keyed on the converted value itself",
                    "TryFrom for %s matches on `%s`, not on the value: inputs that differ from a table entry only in the dropped/moved bits are accepted (or rejected) wrongly" % (ename, hirq.expr_str(sc)), site_of(f, sc.get("line")))
        seen = {}
        wild_err = False
        for pat, res, arm in tables.match_table(fx, m):
            if pat[0] == "int" and res[0] == "ok" and res[1][0] == "variant":
                v = last(res[1][1])
                if pat[1] in seen:
                    chk.bad("R3", "%s|dup|%d" % (ename, pat[1]), "value %d matched twice in TryFrom for %s" % (pat[1], ename), site_of(f, arm.get("line")))
                seen[pat[1]] = v
                chk.require(discr.get(v) == pat[1], "R3", "%s|%s" % (ename, v), "%d <-> %s" % (pat[1], v),
                            "TryFrom maps %d to %s::%s whose discriminant is %s" % (pat[1], ename, v, discr.get(v)), site_of(f, arm.get("line")))
            elif pat[0] in ("wild", "bind") and res[0] == "err":
                wild_err = True
            else:
                chk.bad("R3", "%s|arm|%s" % (ename, hirq.pat_str(arm["pat"])), "arm %s => %s is not `discriminant => Ok(variant)` nor `_ => Err`" % (hirq.pat_str(arm["pat"]), res), site_of(f, arm.get("line")))
        chk.require(wild_err, "R3", "%s|wildcard" % ename, "_ => Err", "TryFrom for %s accepts values outside its table (no `_ => Err`)" % ename, site_of(f))
        for v, d in discr.items():
            if v not in seen.values():
                chk.bad("R3", "%s|unmapped|%s" % (ename, v), "%s::%s (= %s) is never produced by TryFrom: its value is rejected" % (ename, v, d), site_of(f))
        # spec tables
        if ename == "SampleFreqIndex":
            freqs = SPEC["aac_sampling_frequencies"]
            for v, d in discr.items():
                want = "Freq%d" % freqs[d] if d is not None and 0 <= d < len(freqs) else None
                chk.require(v == want, "R3", "SampleFreqIndex|spec|%s" % v, "index %s = %s" % (d, v), "SampleFreqIndex::%s has index %s; MPEG-4 index %s is %s" % (v, d, d, want), site_of(f))
            chk.require(len(discr) == len(freqs), "R3", "SampleFreqIndex|spec|count", "13 indices", "SampleFreqIndex has %d variants, the MPEG-4 table has %d" % (len(discr), len(freqs)), site_of(f))
            ffreq = fx.impl_fn("SampleFreqIndex", None, "freq")
            if chk.anchor("R3", "SampleFreqIndex::freq", ffreq):
                mt = tables.match_table(fx, tables.find_match(ffreq))
                got = {}
                for pat, res, arm in mt:
                    if pat[0] == "variant" and res[0] == "int":
                        got[last(pat[1])] = res[1]
                    else:
                        chk.bad("R3", "freq|arm|%s" % hirq.pat_str(arm["pat"]), "unexpected arm in SampleFreqIndex::freq", site_of(ffreq, arm.get("line")))
                for v, d in discr.items():
                    want = freqs[d] if d is not None and 0 <= d < len(freqs) else None
                    chk.require(got.get(v) == want, "R3", "freq|%s" % v, "%s Hz" % want, "SampleFreqIndex::%s.freq() = %s, MPEG-4 index %s is %s Hz" % (v, got.get(v), d, want), site_of(ffreq))
        elif ename == "ChannelConfig":
            want = set(int(k) for k in SPEC["aac_channel_configurations"])
            chk.require(set(discr.values()) == want, "R3", "ChannelConfig|spec", "configurations 1..7", "ChannelConfig values %s differ from MPEG-4 channel configurations %s" % (sorted(discr.values()), sorted(want)), site_of(f))
        elif ename == "DataType":
            want = SPEC["itunes_data_types"]
            chk.require(discr == want, "R3", "DataType|spec", "iTunes well-known types", "DataType discriminants %s differ from the iTunes data types %s" % (discr, want), site_of(f))
        elif ename == "AudioObjectType":
            chk.require(set(discr.values()) == AAC_OBJECT_TYPES, "R3", "AudioObjectType|spec", "ISO 14496-3 object type ids", "AudioObjectType ids differ from ISO/IEC 14496-3 Table 1.17: %s" % sorted(set(discr.values()) ^ AAC_OBJECT_TYPES), site_of(f))
    chk.floor("R3", "TryFrom<uN> enum tables", found, 4)
    chk.floor("R3", "TryFrom<uN> enum tables written as match tables (compared)", compared, 4)
    chk.analysed["tables_not_compared"] = not_compared

    # (b) TrackType
    tt_str = fx.impl_fn("TrackType", "TryFrom<&str>", "try_from")
    tt_fcc = fx.impl_fn("TrackType", "TryFrom<&FourCC>", "try_from")
    tt_back = fx.impl_fn("FourCC", "From<TrackType>", "from")
    unreadable = [f["id"] for f in (tt_str, tt_fcc, tt_back) if f is not None and table_of(fx, f) is None]
    if unreadable:
        # not written as a table (match / if-chain on one subject): outside the vocabulary, listed, not reported
        chk.analysed.setdefault("tables_not_compared", []).extend(short(x) for x in unreadable)
    elif chk.anchor("R3", "TrackType conversions", tt_str and tt_fcc and tt_back):
        def fwd_table(f, kind):
            out = {}
            werr = False
            for pat, res, arm in (table_of(fx, f) or []):
                if pat[0] == kind and res[0] == "ok" and res[1][0] == "variant":
                    key = pat[1] if kind == "str" else bytes(pat[1]).decode("latin-1")
                    if key in out:
                        chk.bad("R3", "TrackType|dup|%s" % key, "handler '%s' matched twice" % key, site_of(f, arm.get("line")))
                    out[key] = last(res[1][1])
                elif pat[0] in ("wild", "bind") and res[0] == "err":
                    werr = True
                else:
                    chk.bad("R3", "TrackType|arm|%s" % hirq.pat_str(arm["pat"]), "unexpected arm %s => %s" % (pat, res), site_of(f, arm.get("line")))
            chk.require(werr, "R3", "TrackType|wild|%s" % kind, "_ => Err", "TrackType TryFrom (%s) has no rejecting wildcard" % kind, site_of(f))
            return out
        t_s = fwd_table(tt_str, "str")
        t_b = fwd_table(tt_fcc, "bytes")
        back = {}
        for pat, res, arm in (table_of(fx, tt_back) or []):
            if pat[0] == "variant" and res[0] == "bytes":
                back[last(pat[1])] = bytes(res[1]).decode("latin-1")
            else:
                chk.bad("R3", "TrackType|back-arm|%s" % hirq.pat_str(arm["pat"]), "unexpected arm %s => %s" % (pat, res), site_of(tt_back, arm.get("line")))
        want = {v: k for k, v in SPEC["handler_types"].items()}   # code -> variant
        chk.require(t_s == want, "R3", "TrackType|str", "%s" % t_s, "TrackType from &str table %s differs from the registered handler types %s" % (t_s, want), site_of(tt_str))
        chk.require(t_b == want, "R3", "TrackType|fourcc", "%s" % t_b, "TrackType from FourCC table %s differs from the registered handler types %s" % (t_b, want), site_of(tt_fcc))
        chk.require({v: k for k, v in back.items()} == want, "R3", "TrackType|back", "%s" % back, "FourCC from TrackType %s is not the inverse of %s" % (back, want), site_of(tt_back))

    # (c) MediaType
    mt_str = fx.impl_fn("MediaType", "TryFrom<&str>", "try_from")
    mt_b1 = fx.impl_fn("&str", "From<MediaType>", "from")
    mt_b2 = fx.impl_fn("&str", "From<&MediaType>", "from")
    unreadable = [f["id"] for f in (mt_str, mt_b1, mt_b2) if f is not None and table_of(fx, f) is None]
    if unreadable:
        chk.analysed.setdefault("tables_not_compared", []).extend(short(x) for x in unreadable)
    elif chk.anchor("R3", "MediaType conversions", mt_str and mt_b1 and mt_b2):
        fwd = {}
        werr = False
        for pat, res, arm in (table_of(fx, mt_str) or []):
            if pat[0] == "str" and res[0] == "ok" and res[1][0] == "variant":
                if pat[1] in fwd:
                    chk.bad("R3", "MediaType|dup|%s" % pat[1], "'%s' matched twice" % pat[1], site_of(mt_str, arm.get("line")))
                fwd[pat[1]] = last(res[1][1])
            elif pat[0] in ("wild", "bind") and res[0] == "err":
                werr = True
            else:
                chk.bad("R3", "MediaType|arm|%s" % hirq.pat_str(arm["pat"]), "unexpected arm", site_of(mt_str, arm.get("line")))
        chk.require(werr, "R3", "MediaType|wild", "_ => Err", "MediaType TryFrom has no rejecting wildcard", site_of(mt_str))
        backs = []
        for f in (mt_b1, mt_b2):
            b = {}
            for pat, res, arm in (table_of(fx, f) or []):
                if pat[0] == "variant" and res[0] == "str":
                    b[last(pat[1])] = res[1]
                else:
                    chk.bad("R3", "MediaType|back-arm|%s" % hirq.pat_str(arm["pat"]), "unexpected arm", site_of(f, arm.get("line")))
            backs.append(b)
        adt = fx.adt_short("MediaType")
        vs = {v["name"] for v in adt["variants"]}
        chk.require(backs[0] == backs[1], "R3", "MediaType|siblings", "From<MediaType> == From<&MediaType>", "the two MediaType -> &str tables differ: %s vs %s" % (backs[0], backs[1]), site_of(mt_b2))
        chk.require(set(backs[0]) == vs and {v: k for k, v in backs[0].items()} == fwd and len(set(backs[0].values())) == len(vs), "R3", "MediaType|inverse", "%s" % backs[0],
                    "MediaType string tables are not mutually inverse: forward %s, backward %s" % (fwd, backs[0]), site_of(mt_str))

    # (d) AvcProfile
    f = fx.impl_fn("AvcProfile", "TryFrom<(u8, u8)>", "try_from")
    if chk.anchor("R3", "AvcProfile TryFrom<(u8,u8)>", f):
        # abstract evaluation: whatever lets / destructuring the function uses, the table is keyed on a pair of values
        # whose bits are routed from the two input bytes
        params = [p["name"] for p in f["hir"]["params"] if p.get("k") == "bind"]
        term = sval.SVal(fx).eval_fn(f)
        comps = []
        m = None
        if term[0] == "table" and term[1][0] == "arr":
            comps = [sval.bv(c) for c in term[1][1]]
            if any(c is None for c in comps):
                comps = []
            m = {"arms": [arm for _p, _r, arm in term[2]]}
        chk.require(len(comps) == 2, "R3", "AvcProfile|scrutinee", "match on (profile, flag)", "AvcProfile::try_from does not match on a pair", site_of(f))
        if len(comps) == 2:
            pname = params[0] if params else "value"
            # routing: profile = byte 0 unchanged, flag bit0 = byte1 bit `shift`
            shift = SPEC["avc_profiles"]["constraint_set1_shift"]
            prof_ok = comps[0].routing() == {i: ("%s.0" % pname, i) for i in range(8)}
            chk.require(prof_ok, "R3", "AvcProfile|profile-routing", "profile_idc is byte 0 unchanged", "profile component is not the first byte unchanged: %r" % comps[0], site_of(f))
            flag = comps[1]
            flag_ok = flag.routing() == {0: ("%s.1" % pname, shift)} and all(b == 0 for b in flag.bits[1:])
            chk.require(flag_ok, "R3", "AvcProfile|flag-routing", "constraint_set1_flag = bit %d of the compatibility byte" % shift,
                        "constraint_set1_flag is computed as %r; H.264 places it at bit %d (mask 0x%02x) of profile_compatibility" % (flag, shift, 1 << shift), site_of(f))
            produced = set()
            for pat, res, arm in tables.match_table(fx, m):
                if pat[0] == "tuple" and len(pat[1]) == 2:
                    feasible = True
                    for comp, sub in zip(comps, pat[1]):
                        if sub[0] == "int":
                            for i, b in enumerate(comp.bits):
                                want = (sub[1] >> i) & 1
                                if b in (0, 1) and b != want:
                                    feasible = False
                            if sub[1] >= (1 << comp.w):
                                feasible = False
                    key = "AvcProfile|dead-arm|%s" % hirq.pat_str(arm["pat"])
                    chk.require(feasible, "R3", key, "arm reachable",
                                "arm %s of AvcProfile::try_from can never match: the scrutinee component is %r, so %s is never produced" % (hirq.pat_str(arm["pat"]), comps[1], res), site_of(f, arm.get("line")))
                    if feasible and res[0] == "ok":
                        produced.add(last(res[1][1]))
            adt = fx.adt_short("AvcProfile")
            for v in adt["variants"]:
                chk.require(v["name"] in produced, "R3", "AvcProfile|produced|%s" % v["name"], "produced by a reachable arm", "AvcProfile::%s is never produced by try_from" % v["name"], site_of(f))
            # profile numbers vs spec
            nums = {}
            for pat, res, arm in tables.match_table(fx, m):
                if pat[0] == "tuple" and pat[1][0][0] == "int" and res[0] == "ok":
                    nums.setdefault(pat[1][0][1], set()).add(last(res[1][1]))
            for num, names in sorted(nums.items()):
                want = SPEC["avc_profiles"].get(str(num))
                good = want is not None and all(want.replace(" ", "") in n.replace("Avc", "").replace("Constrained", "") or n == "AvcConstrainedBaseline" and want == "Baseline" for n in names)
                chk.require(good, "R3", "AvcProfile|spec|%d" % num, "profile_idc %d = %s" % (num, want), "profile_idc %d mapped to %s; H.264 Annex A names it %s" % (num, sorted(names), want), site_of(f))


# ---------------------------------------------------------------------------------------------
def find_ext(t, name, depth=0):
    """first ("ext", name-suffix, args) sub-term"""
    if not isinstance(t, tuple) or depth > 8:
        return None
    if t and t[0] == "ext" and t[1].endswith(name):
        return t
    for x in t[1:]:
        if isinstance(x, tuple):
            r = find_ext(x, name, depth + 1)
            if r is not None:
                return r
        elif isinstance(x, list):
            for y in x:
                r = find_ext(y, name, depth + 1)
                if r is not None:
                    return r
        elif isinstance(x, dict):
            for y in x.values():
                r = find_ext(y, name, depth + 1)
                if r is not None:
                    return r
    return None


def scaled_input(t, name, src_w, wide_w, frac, signed):
    """is term t == (input `name` widened to wide_w bits) * 2^frac ?"""
    b = sval.bv(t)
    if b is not None:
        if b.w != wide_w:
            return False
        r = b.routing()
        low_zero = all(b.bits[i] == 0 for i in range(frac))
        body = all(r.get(frac + k) == (name, k) for k in range(min(src_w, wide_w - frac)))
        return low_zero and body
    if t[0] == "arith" and t[1] == "Mul":
        for x, y in ((t[2], t[3]), (t[3], t[2])):
            if sval.const_val(y) == (1 << frac):
                bx = sval.bv(x)
                if bx is not None and bx.w == wide_w and all(bx.routing().get(k) == (name, k) for k in range(src_w)):
                    ext = bx.bits[src_w:]
                    want = ("v", name, src_w - 1) if signed else 0
                    return all(e == want for e in ext)
    return False


def r4(fx, chk):
    cases = [("FixedPointU8", "u8", "u16", 8), ("FixedPointI8", "i8", "i16", 8), ("FixedPointU16", "u16", "u32", 16)]
    for ty, src, wide, frac in cases:
        fnew = fx.impl_fn(ty, None, "new")
        fraw = fx.impl_fn(ty, None, "new_raw")
        fval = fx.impl_fn(ty, None, "value")
        frv = fx.impl_fn(ty, None, "raw_value")
        if not chk.anchor("R4", ty + " methods", fnew and fraw and fval and frv):
            continue
        den = 1 << frac
        sw, ww = sval.width_of(src), sval.width_of(wide)
        signed = src.startswith("i")
        # new(val): Ratio::new_raw(val widened * 2^frac, 2^frac), wherever the construction happens (inline or via new_raw)
        t = sval.SVal(fx).eval_fn(fnew)
        c = find_ext(t, "new_raw")
        pn = fnew["hir"]["params"][0].get("name")
        ok = c is not None and len(c[2]) == 2 and sval.const_val(c[2][1]) == den and scaled_input(c[2][0], pn, sw, ww, frac, signed)
        chk.require(ok, "R4", ty + "|new", "val as %s * 2^%d over 2^%d" % (wide, frac, frac), "%s::new is not (val as %s * %d) / %d: %s" % (ty, wide, den, den, sval.show(t)[:200]), site_of(fnew))
        if ok:
            lo, hi = INT_TYPES[src]
            wlo, whi = INT_TYPES[wide]
            chk.require(wlo <= lo * den and hi * den <= whi, "R4", ty + "|new-overflow", "[%d,%d]*%d fits %s" % (lo, hi, den, wide), "%s::new can overflow %s" % (ty, wide), site_of(fnew))
        # new_raw(raw): Ratio::new_raw(raw, 2^frac)
        t = sval.SVal(fx).eval_fn(fraw)
        c = find_ext(t, "new_raw")
        pn = fraw["hir"]["params"][0].get("name")
        b0 = sval.bv(c[2][0]) if c is not None and len(c[2]) == 2 else None
        ok = b0 is not None and b0.routing() == {k: (pn, k) for k in range(ww)} and sval.const_val(c[2][1]) == den
        chk.require(ok, "R4", ty + "|new_raw", "raw over 2^%d" % frac, "%s::new_raw does not build raw/%d: %s" % (ty, den, sval.show(t)[:160]), site_of(fraw))
        # value(): integer part, narrowed to the source type
        t = sval.SVal(fx).eval_fn(fval)
        c = find_ext(t, "to_integer")
        ok = c is not None and (fval.get("output_s") or fval.get("output") or src) and (t[0] == "ext" and t[1] in ("cast:" + src,) or t == c)
        e = body_expr(fval)
        ok = ok and e.get("ty", src) == src
        chk.require(bool(ok), "R4", ty + "|value", "to_integer() as " + src, "%s::value is not the integer part: %s" % (ty, sval.show(t)[:160]), site_of(fval))
        # raw_value(): the numerator
        t = sval.SVal(fx).eval_fn(frv)
        c = find_ext(t, "numer")
        ok = c is not None and (t == c or t[0] == "ext" and t[1].startswith(("cast:", "un:")) and find_ext(t, "numer") is not None)
        chk.require(ok, "R4", ty + "|raw_value", "numerator", "%s::raw_value is not the numerator: %s" % (ty, sval.show(t)[:160]), site_of(frv))


# ---------------------------------------------------------------------------------------------
def r5(fx, chk):
    dec = [f for f in fx.fns.values() if f["name"] == "language_string" and f["kind"] == "Fn"]
    enc = [f for f in fx.fns.values() if f["name"] == "language_code" and f["kind"] == "Fn"]
    if not chk.anchor("R5", "language_string / language_code", dec and enc):
        return
    dec, enc = dec[0], enc[0]
    # decoder: assignments lang[i] = expr(language)
    ev = Evaluator(fx)
    groups = {}
    for n, _ in hirq.walk(hirq.body_root(dec)):
        if n.get("k") == "assign" and n["l"].get("k") == "index":
            try:
                idx = tables.eval_const(fx, n["l"]["i"])
            except tables.NotConst:
                continue
            groups[idx] = ev.ev(n["r"])
    if not groups:
        for n, _ in hirq.walk(hirq.body_root(dec)):
            if n.get("k") == "array" and len(n.get("es", [])) == 3 and (n.get("ty") or "").startswith("[u16; 3]"):
                cand = {i: ev.ev(e) for i, e in enumerate(n["es"])}
                if all(getattr(g, "routing", None) and g.routing() for g in cand.values()):
                    groups = cand
    pname = [p["name"] for p in dec["hir"]["params"] if p.get("k") == "bind"][0]
    ok = True
    for i, sh in ((0, 10), (1, 5), (2, 0)):
        g = groups.get(i)
        want = {j: (pname, sh + j) for j in range(5)}
        good = g is not None and g.routing() == want and g.bits[5] == 1 and g.bits[6] == 1 and all(b == 0 for b in g.bits[7:])
        chk.require(good, "R5", "decode|char%d" % i, "bits %d..%d + 0x60" % (sh, sh + 4), "language character %d is decoded as %r; ISO 639-2/T packing is ((code >> %d) & 0x1F) + 0x60" % (i, g, sh), site_of(dec))
        ok = ok and good
    # the routing applies to every input: the three groups are decoded by top-level statements of the function and nothing
    # before them can leave the function (an early `return` / `?` would let some codes bypass the packing)
    root = hirq.body_root(dec)
    stmts = list(root.get("stmts", [])) + ([{"k": "expr", "e": root["expr"]}] if isinstance(root.get("expr"), dict) else [])
    decoded_at = None
    for si, st_ in enumerate(stmts):
        for n, _ in hirq.walk(st_):
            if (n.get("k") == "assign" and n["l"].get("k") == "index") or (n.get("k") == "array" and len(n.get("es", [])) == 3 and (n.get("ty") or "").startswith("[u16; 3]")):
                top = st_.get("e") is n or (st_.get("k") == "let" and st_.get("init") is n) or (st_.get("k") in ("semi", "expr") and st_.get("e") is n)
                decoded_at = (si, top) if decoded_at is None or si > decoded_at[0] else decoded_at
    early = []
    if decoded_at is not None:
        for st_ in stmts[:decoded_at[0]]:
            for n, _ in hirq.walk(st_):
                if n.get("k") in ("ret", "try"):
                    early.append(n.get("line"))
    chk.require(decoded_at is not None and decoded_at[1] and not early, "R5", "decode|total", "every result is produced after the three character groups were decoded from the packed code",
                "language_string can return before / without the 5-bit decoding (early exit at line %s): some 16-bit codes are not decoded as packed ISO-639-2/T" % (early[:1] or ["?"])[0], site_of(dec))
    # encoder: final value of `code`
    ev2 = Evaluator(fx)
    code = None
    for s in hirq.body_root(enc).get("stmts", []):
        if s["k"] == "let" and s["pat"].get("k") == "bind" and "init" in s:
            ev2.env[s["pat"]["name"]] = ev2.ev(s["init"])
        elif s["k"] in ("semi", "expr") and s["e"].get("k") == "assignop" and s["e"]["op"] in ("AddAssign", "BitOrAssign"):
            tgt = hirq.path_str(s["e"]["l"])
            rhs = ev2.ev(s["e"]["r"])
            cur = ev2.env.get(tgt)
            if cur is not None:
                fake = {"k": "bin", "op": "Add" if s["e"]["op"] == "AddAssign" else "BitOr", "l": {"k": "path", "res": "local", "name": tgt, "ty": "u16"}, "r": {"k": "path", "res": "local", "name": "__rhs", "ty": "u16"}, "ty": "u16"}
                ev2.env["__rhs"] = rhs
                ev2.env[tgt] = ev2.ev(fake)
    tail = hirq.body_root(enc).get("expr")
    if tail is not None:
        code = ev2.ev(tail)
    want = {}
    inputs = sorted({b[1] for b in (code.bits if code else []) if isinstance(b, tuple)})
    # inputs are the successive `lang.next().unwrap_or(0)` values, numbered in evaluation order
    good = code is not None and len(inputs) == 3
    if good:
        for k, sh in enumerate((10, 5, 0)):
            for j in range(5):
                want[sh + j] = (inputs[k], j)
        good = code.routing() == want and code.bits[15] == 0
    # straight-line shifts / masks / adds over `lang.next().unwrap_or(0)` are the evaluator's vocabulary; a packing written with
    # closures, loops or other iterator adapters is not
    KNOWN_M = ("next", "unwrap_or", "encode_utf16", "into", "unwrap_or_default", "as_bytes", "bytes", "chars")
    exotic = [n for n, _ in hirq.walk(hirq.body_root(enc)) if n.get("k") in ("closure", "for", "while", "loop", "match") or (n.get("k") == "mcall" and n.get("m") not in KNOWN_M)]
    unreadable = bool(exotic) and (code is None or not inputs or len(inputs) != 3)
    if unreadable:
        # the packing is not written as shifts / masks / ors of successive code units that the bit evaluator can follow
        # (e.g. a fold over the units): outside the vocabulary, listed, not reported
        chk.analysed.setdefault("tables_not_compared", []).append("language_code")
        chk.ok("R5", "encode", "not compared: the encoder expression is outside the bit evaluator's vocabulary", site_of(enc))
        chk.ok("R5", "inverse", "not compared (encoder not readable)", site_of(enc))
        return
    chk.require(good, "R5", "encode", "three 5-bit groups at 10/5/0, pad bit 0", "language_code packs %r; expected (c0&0x1F)<<10 | (c1&0x1F)<<5 | (c2&0x1F)" % code, site_of(enc))
    chk.require(ok and good, "R5", "inverse", "encode(decode(x)) == x on the 15 payload bits", "language encoder and decoder are not mutually inverse", site_of(enc))
