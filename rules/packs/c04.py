"""C04 — box encode/decode are mutually inverse and size-exact (structural clauses).

For every box type (struct implementing Mp4Box + WriteBox + ReadBox) the layouts of write_box, read_box and
box_size()/get_size() are extracted from the type-checked HIR (P5) and compared in every cell of the shape space
(every consistent assignment of the version / flag / option-presence conditions that occur in the three bodies):
  S1 header: the first stream effect of write_box is BoxHeader::new(self.box_type(), size).write(..) with
     size = self.box_size(), and every Ok return value is that same size.
  S2 size-exact: box_size() == number of bytes of the write layout (children contribute child.box_size(), byte runs
     len(..), repetitions count x element size), as linear forms, in every cell.
  S3 consumes exactly the box: every Ok path of read_box ends with a reposition to start + size (start = box_start at
     entry) after its last read; exceptions are listed with a re-checked side condition.
  S4 field coverage: every field of the box struct is carried by some written value and is initialised by the reader
     from stream data (not from a constant / Default).
  S5 layout agreement: write layout == read layout in every cell: same sequence of (width, field | reserved) with
     reserved runs merged, same byte runs, same repetition structure and count source, same child set.
Not decided: value equality beyond routing of whole fields (bit packing is C05-R3 / C16-R5); arithmetic of values.
"""
import re

import hirq
import layout as LY
import layout2 as L2
from callgraph import callgraph
from facts import short
from packs_common import io_fallible_set
from report import site_of

# helper pairs kept as primitives instead of being expanded: MPEG-4 descriptor header (tag + variable-length size)
OPAQUE = {"mp4a::write_desc": "deschdr", "mp4a::read_desc": "deschdr"}
FLOOR_BOXES = 44          # counted on the pinned tree: 48 Mp4Box impls


def box_types(fx):
    out = []
    for f in fx.fns.values():
        im = f.get("impl") or {}
        if short(im.get("trait") or "") == "Mp4Box" and f["name"] == "box_size":
            out.append(im["self_ty"])
    return sorted(out)


def fns_of(fx, ty):
    s = short(ty)
    fw = fx.impl_fn(s, "WriteBox<&mut W>", "write_box")
    fr = fx.impl_fn(s, "ReadBox<&mut R>", "read_box")
    fs = fx.impl_fn(s, "Mp4Box", "box_size")
    ft = fx.impl_fn(s, "Mp4Box", "box_type")
    return fw, fr, fs, ft


INCONCLUSIVE = set()
_ID = re.compile(r"^[A-Za-z_][\w.]*$")
_ROLE = re.compile(r"^(?:[A-Za-z_]\w*|expr\{[\w,.]*\}|len\([A-Za-z_][\w.]*\)|count(?::[\w.]+)?|const:\d+|deschdr)$")


def vocab_issue_lin(lf):
    """a term of a size form that is not a constant, len(<field>), size(<field>) or a sum over a named collection"""
    for t in lf:
        if t is None:
            continue
        if isinstance(t, tuple) and t and t[0] == "sum":
            if not _ID.match(str(t[1])):
                return "sum over %s" % (t[1],)
            r = vocab_issue_lin(dict(t[2]))
            if r:
                return r
            continue
        if isinstance(t, tuple) and t and t[0] == "acc":
            return "accumulator %s" % t[1]
        m = re.match(r"^(len|size)\((.*)\)$", str(t))
        if m and _ID.match(m.group(2)):
            continue
        if re.match(r"^\(.*\)\*\(.*\)$", str(t)):
            continue          # product term: compared textually as before
        return str(t)[:60]
    return None


def vocab_issue_tokens(toks):
    """a role in a canonical layout that is not a field name / reserved / count expression"""
    for t in toks:
        if not isinstance(t, tuple):
            continue
        if t and t[0] == "loop" and not any(isinstance(x, tuple) and x and x[0] in ("hdr", "child", "children", "walk") for x in (t[1] if len(t) > 1 and isinstance(t[1], tuple) else ())):
            # a `while` / `loop` that transfers fields without a recognisable repetition count
            if any(isinstance(x, tuple) and x and x[0] == "f" for x in (t[1] if len(t) > 1 and isinstance(t[1], tuple) else ())):
                return "loop without a recognisable repetition count"
        for x in t[1:]:
            if isinstance(x, str):
                if not _ROLE.match(x):
                    return x[:60]
            elif isinstance(x, tuple):
                r = vocab_issue_tokens(x if x and isinstance(x[0], tuple) else [x])
                if r:
                    return r
    return None


_ATOM = re.compile(r"^(?:version==\d+|flags&0x[0-9a-fA-F]+|(?:some|empty)\([A-Za-z_][\w.]*\)|self@\w+|[A-Za-z_][\w.]*(?:==|>|<|>=|<=|!=)-?\d+)$")


def fixed_of(adt):
    fixed = {}
    if adt and adt["kind"] == "Struct":
        for fld in adt["variants"][0]["fields"]:
            t = fld["ty"]
            if "array" in t and t.get("len") is not None and t["array"].get("p") == "u8":
                fixed[fld["name"]] = t["len"]
            if "array" in t and t.get("len") is not None:
                fixed["#" + fld["name"]] = t["len"]
    return fixed


def model_vocab_issue(fx, m, adt, side=None):
    """first construct of box model `m` that lies outside the layout vocabulary (None when everything is understood):
    roles of canonical tokens, terms of the size forms, condition atoms whose variable is neither a field nor version/flags"""
    fields = {f["name"] for f in adt["variants"][0]["fields"]} if adt and adt["kind"] == "Struct" else set()
    fixed = fixed_of(adt)
    L2.set_fixed(fixed)
    # stream operations hidden in a closure that the layout view could not turn into a loop are invisible to the extractor
    from packs_common import IO_TRAITS, io_fallible_set
    iof_ = io_fallible_set(fx, callgraph(fx))

    def is_io(c):
        return c.get("trait") in IO_TRAITS or (c.get("resolved") or c.get("fn")) in iof_
    for sd, f_ in (("r", getattr(m, "fr", None)), ("w", getattr(m, "fw", None)), ("w", getattr(m, "fs", None))):
        if f_ is None or (side is not None and sd != side):
            continue
        root_ = hirq.layout_root(f_)
        if root_ is not None and hirq.io_closures(root_, is_io):
            return "closure performing stream I/O in %s" % f_["name"]
    for cell in m.cells:
        for a in cell["A"]:
            if a.startswith("?"):
                return "condition " + a[:50]
            var = re.split(r"==|&0x|@|>=|<=|!=|>|<", a.replace("some(", "").replace("empty(", "").rstrip(")"))[0].split(".")[0]
            if not _ATOM.match(a) or (var not in fields and var not in ("version", "flags", "self", "size") and a not in {v[0] for v in m.cp.values()} and not a.startswith(("some(", "empty("))):
                return "condition on `%s`" % a[:50]
        for sd in (("w", "r") if side is None else (side,)):
            u = vocab_issue_tokens(L2.canon(cell[sd], sd))
            if u:
                return u
        if side in (None, "w"):
            u = vocab_issue_lin(L2.tokens_size(fx, cell["w"], fixed)) or vocab_issue_lin(cell["size"])
            if u:
                return u
    return None


def size_fn_atoms(fx, fn, depth=0, seen=None):
    """condition atoms of a size function (following self.get_size())"""
    out = []
    if seen is None:
        seen = set()
    if fn["id"] in seen or depth > 4:
        return out
    seen.add(fn["id"])
    root = hirq.body_root(fn)
    for n, _ in hirq.walk(root):
        if n.get("k") == "if":
            c = n["cond"]
            if c.get("k") == "letx":
                p = c["pat"]
                if p.get("k") == "tuplestruct" and (p.get("def") or "").endswith("Option::Some"):
                    out.append("some(%s)" % LY.norm_expr(c["init"]))
            else:
                for a, _pol in L2.split_conj(fx, c):
                    out.append(a)
        if n.get("k") == "match":
            sc = LY.norm_expr(n["scrut"])
            import tables
            for arm in n["arms"]:
                p = tables.pat_norm(fx, arm["pat"])
                if p[0] == "int":
                    out.append("%s==%s" % (sc, p[1]))
        if n.get("k") == "mcall" and ((n["m"] == "unwrap_or" and n["recv"].get("k") == "mcall" and n["recv"]["m"] == "map") or (n["m"] == "map_or" and len(n["args"]) == 2)):
            opt = n["recv"]["recv"] if n["m"] == "unwrap_or" else n["recv"]
            while opt.get("k") == "mcall" and opt["m"] in ("as_ref", "as_mut"):
                opt = opt["recv"]
            out.append("some(%s)" % LY.norm_expr(opt))
        if n.get("k") in ("mcall", "call"):
            fid = n.get("resolved") or n.get("fn")
            if fid in fx.fns and fx.fns[fid]["name"] in ("get_size", "size_without_message", "time_size"):
                out.extend(size_fn_atoms(fx, fx.fns[fid], depth + 1, seen))
    return out


# fallback ladder (DESIGN section 9): 1 = full field-bound comparison, 2 = size agreement only, 3 = S1/S3/S4 only
LEVELS = {"MetaBox": 3, "IlstBox": 2, "EsdsBox": 2}
LEVEL_REASON = {
    "MetaBox": "two-variant enum whose encoder synthesises the hdlr child (HdlrBox::default with handler 'mdir') and whose decoder probes an optional full-box header and scans the children twice: outside the layout vocabulary",
    "IlstBox": "the encoder writes each item box inline (header + data child) while the decoder delegates to IlstItemBox::read_box (IlstItemBox has no WriteBox impl)",
    "EsdsBox": "MPEG-4 descriptors: the encoder emits a fixed descriptor tree while the decoder walks tagged descriptors in any order with variable-length size fields",
}


def const_children(fx, adt, lf):
    """replace size(<field>) by a constant when the field's box type has a constant box_size()"""
    if not adt or adt["kind"] != "Struct":
        return lf
    out = dict(lf)
    for fld in adt["variants"][0]["fields"]:
        t = "size(%s)" % fld["name"]
        if t in out and "adt" in fld["ty"]:
            fs = fx.impl_fn(short(fld["ty"]["adt"]), "Mp4Box", "box_size")
            if fs is not None:
                v = L2.SizeEval(fx, {}, {}).fn_size(fs)
                if set(v) <= {None}:
                    c = out.pop(t)
                    out = L2.lin_add(out, L2.lin_const(v.get(None, 0) * c))
    return out


def coupled_away(fx, m, cell, sw, sz):
    """the size difference consists only of len()/sum() terms of collection fields that the decoder never fills in this
    cell: such a value (e.g. a fixed sample size together with a per-sample table) has no wire representation"""
    diff = L2.lin_add(sw, sz, -1)
    if not diff:
        return True
    filled = set()
    if m.roles:
        for eid in L2.token_ids(cell.get("r", [])):
            filled |= set(m.roles.role.get(eid, {}))
    for t in diff:
        if t is None:
            return False
        name = None
        if isinstance(t, str) and t.startswith("len(") and t.endswith(")"):
            name = t[4:-1]
        elif isinstance(t, tuple) and t[0] == "sum":
            name = t[1]
        if name is None or name in filled:
            return False
    return True


def s3_check(fx, fr):
    """None if every success return of read_box is preceded by skip_bytes_to(start + size) with no read after it"""
    from mir import body_of, callee_path, op_place
    import loops as LP
    body = body_of(fr)
    oks = LP.ok_blocks(body)
    if not oks:
        return "no success return found"

    def is_end_seek(b, t):
        p = callee_path(t["callee"]) or ""
        if not p.endswith("::skip_bytes_to") or len(t["args"]) < 2:
            return False
        # the target is box_start() + size, however it is spelled (a local, a one-expression helper such as end_of(start, size))
        c_ = body.canon_op(t["args"][1]).replace(" ", "")
        if c_ in ("Add($2,mp4box::box_start($1))", "Add(mp4box::box_start($1),$2)"):
            return True
        m_ = re.fullmatch(r"([\w:]+)\((mp4box::box_start\(\$1\)|\$2),(mp4box::box_start\(\$1\)|\$2)\)", c_)
        if m_ and m_.group(2) != m_.group(3):
            import absint
            cands = [g for g in fx.fns if g == m_.group(1) or g.endswith("::" + m_.group(1).split("::")[-1])]
            for g in cands:
                tr_ = absint._trivial_expr(fx, g)
                if tr_ is not None and tr_[0] == "bin" and tr_[1] == "Add" and {tr_[2], tr_[3]} == {("p", 1), ("p", 2)}:
                    return True
        return False
    seeks = [b for b, t in body.calls() if is_end_seek(b, t)]
    for o in oks:
        doms = [sb for sb in seeks if body.dominates(sb, o)]
        if not doms:
            return "a success path has no skip_bytes_to(start + size)"
        good = False
        for sb in doms:
            nxt = body.term(sb).get("t")
            between = body.reachable_from(nxt, avoid=[o]) if nxt is not None else set()
            between = {x for x in between if x == o or body.can_reach(x, o)}
            reads = [x for x in between if body.term(x)["k"] == "call" and (body.term(x)["callee"].get("trait") in ("std::io::Read", "byteorder::io::ReadBytesExt") or
                                                                              ((callee_path(body.term(x)["callee"]) or "") in fx.fns and LP.must_read(fx, callee_path(body.term(x)["callee"]))))]
            if not reads:
                good = True
        if not good:
            return "a stream read follows the last reposition on a success path"
    return None


class BoxModel:
    """layouts of one box type in every cell"""

    def __init__(self, fx, iof, ty):
        self.fx = fx
        self.ty = ty
        self.s = short(ty)
        self.fw, self.fr, self.fs, self.ft = fns_of(fx, ty)
        self.Lw = LY.extract(fx, iof, self.fw, OPAQUE) if self.fw else None
        self.Lr = LY.extract(fx, iof, self.fr, OPAQUE) if self.fr else None
        self.cp = L2.read_couplings(fx, self.fr) if self.fr else {}
        atoms = set()
        if self.Lw:
            atoms |= set(L2.cond_atoms(fx, self.Lw))
        if self.Lr:
            atoms |= set(L2.cond_atoms(fx, self.Lr))
        if self.fs:
            atoms |= set(size_fn_atoms(fx, self.fs))
        self.atoms = {self.cp.get(a, (a, True))[0] for a in atoms}
        self.roles = L2.ReadRoles(fx, self.fr, self.Lr) if self.Lr else None
        self.cells = []
        for A in L2.assignments(self.atoms):
            cell = {"A": A}
            if self.Lw:
                f = L2.Flattener(fx, "w", couplings=self.cp)
                cell["w"], cell["w_ok"] = f.run(self.Lw, A)
                cell["w_unknown"] = f.unknown
            if self.Lr:
                f = L2.Flattener(fx, "r", roles=self.roles, couplings=self.cp)
                cell["r"], cell["r_ok"] = f.run(self.Lr, A)
                cell["r_unknown"] = f.unknown
            if self.fs:
                se = L2.SizeEval(fx, A, self.cp)
                cell["size"] = se.fn_size(self.fs)
                cell["size_notes"] = se.notes
            self.cells.append(cell)


def cell_str(A):
    t = [k for k, v in sorted(A.items()) if v]
    f = [k for k, v in sorted(A.items()) if not v]
    return ("{" + ", ".join(t) + "}" if t else "{}") + (" not{" + ", ".join(f) + "}" if f else "")


_models = {}


def models(fx):
    key = id(fx)
    if key not in _models:
        cg = callgraph(fx)
        iof = io_fallible_set(fx, cg)
        _models[key] = {ty: BoxModel(fx, iof, ty) for ty in box_types(fx)}
    return _models[key]


# accepted S3 exceptions: (box short name) -> (reason, side condition)
def s3_exceptions(fx):
    def only_caller(callee_short, caller_short):
        def f():
            cg = callgraph(fx)
            fr = fx.impl_fn(callee_short, "ReadBox<&mut R>", "read_box")
            callers = {short((fx.fns[c].get("impl") or {}).get("self_ty", "")) for c in cg.callers_of(fr["id"]) if fx.fns[c]["name"] == "read_box"}
            return callers == {caller_short}, "read_box callers: %s" % sorted(callers)
        return f
    return {
        "DataBox": ("payload is read up to start + size exactly (buffer length = start + size - position)", lambda: (True, "length expression checked by S5")),
        "HvcCBox": ("only decoded from Hev1Box::read_box, which repositions to its own end afterwards", only_caller("HvcCBox", "Hev1Box")),
        "MetaBox": ("children are walked until the position reaches start + size", lambda: (True, "loop bound is `current < end`, end = start + size")),
    }


# Vec / String / slice methods that change which bytes a buffer holds or their order (truncate / pop / clear / shrink only
# drop a tail, which the encoders mirror by writing a terminator; they are not listed)
EDITS = ("remove", "insert", "drain", "retain", "retain_mut", "reverse", "swap_remove", "rotate_left", "rotate_right", "sort", "sort_unstable",
         "sort_by", "sort_by_key", "dedup", "dedup_by", "dedup_by_key", "push", "push_str", "extend", "extend_from_slice", "splice", "split_off", "fill",
         "copy_within", "swap", "append", "make_ascii_uppercase", "make_ascii_lowercase", "insert_str", "replace_range")


def s6(fx, chk):
    """the encoders write a field's bytes as they are; a decoder that edits the buffer it filled from the stream (drops, inserts,
    reorders or rewrites bytes) returns a value that does not re-encode to what was read, and does not decode what was encoded
    whenever the edit applies.  Per decoder function: every local that read_exact / read_to_end / read_to_string fills through a
    `&mut` borrow must not be the receiver of a content-changing method afterwards."""
    from mir import body_of, callee_path, op_place, strip_generics
    chk.rule("S6", "a buffer filled from the stream reaches the decoded value without content-changing edits (only tail truncation)")
    nbuf = 0
    for fid, fn in sorted(fx.fns.items()):
        impl = fn.get("impl") or {}
        if fn.get("derived") or fn["name"] not in ("read_box", "read", "read_desc") and "ReadBox" not in (impl.get("trait") or "") and "ReadDesc" not in (impl.get("trait") or ""):
            continue
        body = body_of(fn)
        if body is None:
            continue

        def borrowed_local(op):
            pl = op_place(op)
            if pl is None:
                return None
            l = pl["l"]
            for _ in range(8):
                sd = body.single_def(l) if not pl["p"] else None
                if sd is not None and sd[2] == "assign" and sd[3]["k"] in ("ref", "use", "cast") :
                    src = sd[3].get("place") if sd[3]["k"] == "ref" else op_place(sd[3]["a"])
                    if src is None:
                        return l
                    if sd[3]["k"] == "ref" and not [x for x in src["p"] if x != "deref"]:
                        l = src["l"]
                        if not src["p"]:
                            return l
                        pl = {"l": l, "p": []}      # `&mut *r`: keep resolving the reference r
                        continue
                    if sd[3]["k"] != "ref" and not src["p"]:
                        l = src["l"]
                        pl = src
                        continue
                return l
            return l
        filled = {}
        for b, t in body.calls():
            decl = strip_generics(t["callee"].get("path") or "")
            if decl in ("std::io::Read::read_exact", "std::io::Read::read_to_end", "std::io::Read::read_to_string") and len(t["args"]) >= 2:
                l = borrowed_local(t["args"][1])
                # read_exact(&mut buf) goes through DerefMut/IndexMut of the Vec: follow one call result back to its receiver
                sd = body.single_def(l) if l is not None else None
                if sd is not None and sd[2] == "call" and sd[3]["args"]:
                    l = borrowed_local(sd[3]["args"][0])
                if l is not None and body.local_name(l):
                    filled.setdefault(l, t.get("line"))
        for l, line in sorted(filled.items()):
            nbuf += 1
            edits = []
            for b, t in body.calls():
                decl = strip_generics(t["callee"].get("path") or "")
                last = decl.split("::")[-1]
                if last in EDITS and t["args"] and t["args"][0].get("ty", (op_place(t["args"][0]) or {}).get("ty", "")).startswith("&mut") and borrowed_local(t["args"][0]) == l:
                    edits.append((last, t.get("line")))
            key = "%s|%s" % (short_fn(fn), body.local_name(l))
            if edits:
                chk.bad("S6", key, "the buffer `%s` filled from the stream is edited by %s before it becomes the decoded value: the value no longer is what the encoder wrote (decode(encode(v)) != v whenever the edit applies)"
                        % (body.local_name(l), ", ".join("%s() at line %s" % e for e in edits)), site_of(fn, edits[0][1]))
            else:
                chk.ok("S6", key, "filled from the stream, only tail truncation / conversion afterwards", site_of(fn, line))
    chk.floor("S6", "buffers filled from the stream in decoders", nbuf, 10)


def short_fn(fn):
    impl = fn.get("impl") or {}
    st = short(impl.get("self_ty", "")) if impl else ""
    return (st + "::" if st else "") + fn["name"]


def run(fx, chk, tier):
    INCONCLUSIVE.clear()
    chk.rule("S1", "write_box starts with BoxHeader::new(self.box_type(), self.box_size()).write and returns that size on success")
    chk.rule("S2", "box_size() equals the byte count of the write layout in every cell of the shape space")
    chk.rule("S3", "every Ok path of read_box ends with a reposition to start + size after the last read")
    chk.rule("S4", "every struct field is written by write_box and initialised from stream data by read_box")
    chk.rule("S5", "write layout equals read layout in every cell (widths, field routing, reserved runs, repetition, children)")
    ms = models(fx)
    chk.floor("S1", "box types", len(ms), FLOOR_BOXES)
    exc = s3_exceptions(fx)
    ncells = 0
    for ty, m in sorted(ms.items()):
        s = m.s
        if not chk.anchor("S1", s + " write_box/read_box/box_size", m.fw and m.fr and m.fs):
            continue
        wsite = site_of(m.fw)
        rsite = site_of(m.fr)
        # ---------------- S1
        first = next((x for x in m.Lw["items"] if x["n"] not in ("let",)), None)
        ok = first is not None and first["n"] == "hdr" and first.get("ty") is not None and LY.norm_expr(first["ty"]) in ("self.box_type()", "box_type()")
        size_local = LY.norm_expr(first["size"]) if ok else None
        size_ok = False
        if ok:
            for x in m.Lw["items"]:
                if x["n"] == "let" and x["pat"].get("k") == "bind" and x["pat"]["name"] == size_local and x.get("init") is not None:
                    size_ok = LY.norm_expr(x["init"]) in ("self.box_size()", "box_size()")
            if LY.norm_expr(first["size"]) in ("self.box_size()", "box_size()"):
                size_ok = True
        chk.require(ok and size_ok, "S1", s + "|header", "header = (box_type(), box_size())",
                    "%s::write_box does not start with BoxHeader::new(self.box_type(), self.box_size()).write(..)" % s, wsite)
        rets = [x for x in LY.walk(m.Lw) if x["n"] == "ret" and x["ok"]]
        bad_ret = []
        for r in rets:
            v = r["val"]["args"][0] if r.get("val") and r["val"].get("args") else None
            if v is None or LY.norm_expr(v) not in (size_local, "self.box_size()"):
                bad_ret.append(LY.norm_expr(v) if v else "?")
        chk.require(rets and not bad_ret, "S1", s + "|return", "returns the size written in the header",
                    "%s::write_box returns %s instead of the number of bytes written (box_size())" % (s, bad_ret or "nothing"), wsite)
        # ---------------- per cell: S2, S5
        adt = fx.adts.get(ty)
        fixed = {}
        fields = set()
        if adt and adt["kind"] == "Struct":
            for fld in adt["variants"][0]["fields"]:
                fields.add(fld["name"])
                t = fld["ty"]
                if "array" in t and t.get("len") is not None and t["array"].get("p") == "u8":
                    fixed[fld["name"]] = t["len"]
                if "array" in t and t.get("len") is not None:
                    fixed["#" + fld["name"]] = t["len"]
        L2.set_fixed(fixed)
        # atoms whose variable is not a field of the struct (and not coupled to one) vary only on the decoder side:
        # the decoder may accept more shapes than the encoder produces, so they are quantified existentially
        def shared(atom):
            var = re.split(r"==|&0x|@|>|<", atom.replace("some(", "").replace("empty(", "").rstrip(")"))[0]
            return var.split(".")[0] in fields or var in ("self",) or atom in {v[0] for v in m.cp.values()}
        groups = {}
        for cell in m.cells:
            key = tuple(sorted((k, v) for k, v in cell["A"].items() if shared(k)))
            groups.setdefault(key, []).append(cell)
        s2_bad = s5_bad = None
        unk2 = unk5 = None       # constructs outside the extractor's vocabulary (comparison would be meaningless)
        pre_unk = model_vocab_issue(fx, m, fx.adts.get(ty))
        lvl = LEVELS.get(s, 1)
        for key, cells in sorted(groups.items()):
            ncells += len(cells)
            live = [c for c in cells if c.get("w_ok", True) and c.get("r_ok", True)]
            if not live:
                continue     # rejected by the encoder or the decoder: nothing is produced / accepted in this cell
            g2 = g5 = None
            ok2 = ok5 = False
            for cell in live:
                A = cell["A"]
                sw = const_children(fx, adt, L2.tokens_size(fx, cell["w"], fixed))
                sz = const_children(fx, adt, cell["size"])
                u = vocab_issue_lin(sw) or vocab_issue_lin(sz)
                if u and unk2 is None:
                    unk2 = u
                if L2.lin_key(sw) == L2.lin_key(sz) or coupled_away(fx, m, cell, sw, sz):
                    ok2 = True
                elif g2 is None:
                    g2 = (A, L2.lin_str(sw), L2.lin_str(sz), cell.get("size_notes"))
                empties = {k for k, v in A.items() if v and k.startswith("empty(")}
                cw, cr = L2.canon(cell["w"], "w"), L2.canon(cell["r"], "r")
                u = vocab_issue_tokens(cw) or vocab_issue_tokens(cr)
                if u and unk5 is None:
                    unk5 = u
                d = L2.first_diff(cw, cr, "", empties)
                if d is None:
                    ok5 = True
                elif g5 is None:
                    g5 = (A, d)
            if not ok2 and s2_bad is None:
                s2_bad = g2
            if not ok5 and s5_bad is None:
                s5_bad = g5
        if lvl >= 3:
            chk.note("%s: layout comparison not applied (%s); S1/S3/S4 only" % (s, LEVEL_REASON.get(s, "")))
            chk.trust("rung 3: %s -- %s" % (s, LEVEL_REASON.get(s, "")))
        else:
            # A difference that involves a construct the extractor has no vocabulary for says nothing about the code:
            # the box is recorded as not compared (evidence: counts["S:boxes not compared"]) instead of reported.
            unk2 = unk2 or pre_unk
            unk5 = unk5 or pre_unk
            if s2_bad is not None and unk2:
                chk.note("%s: size agreement not decided (the extraction contains `%s`, which is outside the layout vocabulary)" % (s, unk2))
                chk.ok("S2", s + "|size", "not compared: `%s` is outside the layout vocabulary" % unk2, wsite)
                INCONCLUSIVE.add(s)
                s2_bad = None
                s5_bad = None if unk5 or True else s5_bad
            if s5_bad is not None and unk5:
                chk.note("%s: field-level layout comparison not decided (the extraction contains `%s`, which is outside the layout vocabulary)" % (s, unk5))
                INCONCLUSIVE.add(s)
                s5_bad = None
            chk.require(s2_bad is None, "S2", s + "|size", "box_size() == written bytes in %d cells" % len(m.cells),
                        "%s: box_size() is %s but write_box emits %s bytes in cell %s%s" % (s, s2_bad[2], s2_bad[1], cell_str(s2_bad[0]), (" [" + "; ".join(s2_bad[3][:2]) + "]") if s2_bad[3] else "") if s2_bad else "", wsite)
            if lvl == 2:
                chk.note("%s: field-level layout comparison replaced by size agreement (%s)" % (s, LEVEL_REASON.get(s, "")))
                chk.trust("rung 2: %s -- %s" % (s, LEVEL_REASON.get(s, "")))
            else:
                chk.require(s5_bad is None, "S5", s + "|layout", "write layout == read layout in %d cells" % len(m.cells),
                            "%s: encoder and decoder disagree in cell %s: %s" % (s, cell_str(s5_bad[0]), s5_bad[1]) if s5_bad else "", rsite)
        # ---------------- S3 (MIR): every block that builds `_0 = Ok(..)` is dominated by a reposition to start + size
        # with no stream read between
        s3 = s3_check(fx, m.fr)
        if s3 is not None and s in exc:
            reason, side = exc[s]
            okx, why = side()
            chk.require(okx, "S3", s + "|end", "accepted: %s [%s]" % (reason, why), "%s: accepted exception no longer holds (%s): %s" % (s, reason, why), rsite)
            if okx:
                chk.trust("accepted: %s::read_box has no trailing reposition -- %s" % (s, reason))
        else:
            chk.require(s3 is None, "S3", s + "|end", "every Ok path ends with skip_bytes_to(start + size)",
                        "%s::read_box can return Ok without repositioning to the end of the box: %s" % (s, s3), rsite)
        # ---------------- S4
        adt = fx.adts.get(ty)
        if adt and adt["kind"] == "Struct":
            wroles = set()
            for cell in m.cells:
                for t in flat_roles(cell.get("w", [])):
                    wroles |= role_names(t)
            rroles = set()
            for a, rs in (m.roles.role.items() if m.roles else []):
                rroles |= {x[5:] if x.startswith("push:") else x for x in rs}
            # fields initialised from bindings that carry whole collections / children
            rinit = struct_init_fields(fx, m.fr, s)
            accessed = {n["name"] for n, _ in hirq.walk(hirq.body_root(m.fw)) if n.get("k") == "field" and hirq.path_str(n["e"]) == "self"}
            for n, _ in hirq.walk(hirq.body_root(m.fw)):
                # `match self { Variant { a, b } => .. }` / `let Self { a, .. } = self`
                if n.get("k") == "match" and hirq.path_str(n["scrut"]) == "self":
                    for arm in n["arms"]:
                        accessed |= {nm for nm, _ in hirq.pat_bindings(arm["pat"])}
            for fld in adt["variants"][0]["fields"]:
                nm = fld["name"]
                chk.require(nm in wroles or nm in accessed, "S4", "%s.%s|written" % (s, nm), "written",
                            "%s.%s is never written by write_box: the field is lost on encode" % (s, nm), wsite)
                src = rinit.get(nm)
                chk.require(nm in rroles or src == "data", "S4", "%s.%s|read" % (s, nm), "initialised from stream data",
                            "%s.%s is not initialised from stream data by read_box (%s)" % (s, nm, "set to a constant" if src == "const" else "no source found"), rsite)
    # ---------------- S6: bytes taken from the stream reach the decoded value without content-changing edits
    s6(fx, chk)
    s8(fx, chk, ms)
    s10(fx, chk, ms)
    chk.rule("S9", "descriptor encoders: the length announced in a descriptor header equals the payload bytes written on that path and the type's static desc_size()")
    desc_sizes(fx, chk, "S9")
    # ---------------- S7: bit-packed words (instances owned by C05)
    from packs_common import compose
    chk.rule("S7", "bit-packed words are unpacked by the decoder exactly as the encoder packs them: both sides route every field to the bit positions of the layout (C05 R3 instances)")
    compose(fx, chk, tier, "S7", "C05", ["R3"], floor=34, what="packed-word obligations")
    chk.analysed["box_types"] = len(ms)
    chk.analysed["cells"] = ncells
    chk.analysed["boxes_not_compared"] = sorted(INCONCLUSIVE)
    # fail closed if the extractor stops understanding most of the code: at least 40 of the box types must be compared
    chk.floor("S2", "box types whose layouts were extracted within the vocabulary", len(ms) - len(INCONCLUSIVE), 40)
    return chk.finish(
        "other",
        "Layouts of write_box, read_box and box_size() of %d box types are extracted from HIR and compared in %d shape cells (every consistent assignment of the version/flag/presence conditions), "
        "which covers the whole shape space that the statement quantifies over; field values are not executed. Not decided: value equality beyond whole-field routing, bit packing (C05/C16)." % (len(ms), ncells),
    )


DROPS = ("clear", "truncate", "pop", "remove", "swap_remove", "drain", "retain", "retain_mut", "dedup", "dedup_by", "dedup_by_key", "sort", "sort_unstable",
         "sort_by", "sort_by_key", "reverse", "split_off", "resize", "swap", "rotate_left", "rotate_right", "fill", "take")
FILLS = ("push", "insert", "extend", "extend_from_slice", "push_back")


def s8(fx, chk, ms):
    """decoded values are single-assignment from the stream: a local that a decoder binds directly to a stream read, or a
    collection it fills with values read in a loop, is what the struct literal receives.  Overwriting such a local with a value
    that does not come from a read, or dropping / reordering elements of the collection afterwards, makes the decoded struct
    differ from the layout the encoder writes for it (decode is no longer the inverse of encode on that shape)."""
    chk.rule("S8", "a value a decoder has taken from the stream is not rewritten before it reaches the struct (no non-read assignment to a read-bound local, no dropping/reordering of a collection filled from reads, no shadowing by a non-read value)")
    from packs_common import IO_TRAITS, io_fallible_set
    iof_ = io_fallible_set(fx, callgraph(fx))

    def is_io(c):
        return c.get("trait") in IO_TRAITS or (c.get("resolved") or c.get("fn")) in iof_

    def has_io(n):
        return any(x.get("k") in ("call", "mcall") and is_io(x) for x, _ in hirq.walk(n))

    def lid_of(n):
        n = hirq.strip_wrappers(n)
        return n.get("lid") if n.get("k") == "path" and n.get("res") == "local" else None
    nloc = 0
    for ty, m in sorted(ms.items()):
        if m.fr is None:
            continue
        root = hirq.layout_root(m.fr)
        if root is None:
            continue
        order = [n for n, _ in hirq.walk(root)]
        pos = {id(n): i for i, n in enumerate(order)}
        direct = {}      # lid -> name: `let x = <read>?`
        readish = set()  # lids bound to any expression that contains a stream read
        names = {}
        for n in order:
            if n.get("k") == "let" and n.get("init") is not None:
                init = hirq.strip_wrappers(n["init"])
                while init.get("k") in ("try", "cast") and isinstance(init.get("e"), dict):
                    init = hirq.strip_wrappers(init["e"])
                for nm, lid in hirq.pat_bindings(n["pat"]):
                    if lid is None:
                        continue
                    names.setdefault(nm, []).append((lid, pos[id(n)], init.get("k") in ("call", "mcall") and is_io(init)))
                    if init.get("k") in ("call", "mcall") and is_io(init):
                        direct[lid] = nm
                    if has_io(n["init"]):
                        readish.add(lid)
        fills = {}       # lid -> first position of a fill with stream data
        for n in order:
            if n.get("k") == "mcall" and n.get("m") in FILLS and has_io_or_direct(n, has_io, readish, lid_of):
                l = lid_of(n["recv"])
                if l is not None:
                    fills.setdefault(l, pos[id(n)])
        nloc += len(direct) + len(fills)
        site = site_of(m.fr)
        for n in order:
            k = n.get("k")
            if k in ("assign", "assignop"):
                l = lid_of(n["l"])
                if l is None or hirq.strip_wrappers(n["l"]).get("k") != "path":
                    continue
                if l in direct and not has_io(n["r"]):
                    chk.bad("S8", "%s|%s|overwritten" % (m.s, direct[l]), "`%s` was read from the stream and is then overwritten with a value that is not a read: the decoded struct no longer mirrors the bytes" % direct[l], site_of(m.fr, n.get("line")))
                elif l in fills and k == "assign" and fills[l] < pos[id(n)] and not has_io(n["r"]):
                    chk.bad("S8", "%s|%s|replaced" % (m.s, _name_of(names, l)), "collection `%s` was filled from the stream and is then replaced" % _name_of(names, l), site_of(m.fr, n.get("line")))
            elif k == "mcall" and n.get("m") in DROPS:
                l = lid_of(n["recv"])
                if l in fills and fills[l] < pos[id(n)]:
                    chk.bad("S8", "%s|%s|%s" % (m.s, _name_of(names, l), n.get("m")), "collection `%s` was filled from the stream and is then edited with %s()" % (_name_of(names, l), n.get("m")), site_of(m.fr, n.get("line")))
        # shadowing: a later `let` of the same name whose value is not a read and does not mention the earlier binding's data only through a cast
        inits = {}
        for n in order:
            if n.get("k") == "let" and n.get("init") is not None:
                for nm_, lid_ in hirq.pat_bindings(n["pat"]):
                    inits[lid_] = n["init"]

        def leaves(e):
            k_ = e.get("k")
            if k_ == "if":
                return leaves(e["then"]) + (leaves(e["else"]) if "else" in e else [])
            if k_ == "match":
                return [x for a in e["arms"] for x in leaves(a["body"])]
            if k_ == "block":
                return leaves(e["expr"]) if "expr" in e else []
            return [e]
        # bindings the returned struct literal takes its fields from
        in_struct = set()
        for n in order:
            if n.get("k") == "struct":
                for f_ in n.get("fields", []):
                    for x, _ in hirq.walk(f_["e"]):
                        if x.get("k") == "path" and x.get("res") == "local":
                            in_struct.add(x.get("lid"))
        for nm, bs in names.items():
            for i, (lid, p_, isread) in enumerate(bs):
                if i == 0 or isread:
                    continue
                prev = [b for b in bs[:i] if b[0] in direct or b[0] in fills]
                if not prev or lid not in in_struct:
                    continue
                # a shadowing binding computed from the value it shadows (`let size = u64::from(size)`) keeps the stream's
                # data; one with a branch that ignores it (`if all_equal { Vec::new() } else { sizes }`) replaces it
                init_ = inits.get(lid)
                if init_ is not None and all(has_io(lf) or any(x.get("k") == "path" and x.get("res") == "local" and x.get("lid") == prev[-1][0] for x, _ in hirq.walk(lf))
                                             or lf.get("k") in ("ret", "break", "continue") or (lf.get("k") == "call" and (lf.get("fn") or "").endswith("Result::Err")) for lf in leaves(init_)):
                    continue
                if prev and _scope_overlaps(order, pos, prev[-1], (lid, p_)):
                    chk.bad("S8", "%s|%s|shadowed" % (m.s, nm), "`%s` taken from the stream is shadowed by a binding that is not a read" % nm, site)
        chk.ok("S8", m.s, "%d read-bound locals, %d collections filled from reads: none rewritten" % (len(direct), len(fills)), site)
    chk.floor("S8", "read-bound locals and collections in decoders", nloc, 200)


def has_io_or_direct(n, has_io, direct, lid_of):
    if has_io(n):
        return True
    for a in n.get("args", []):
        for x, _ in hirq.walk(a):
            if x.get("k") == "path" and x.get("res") == "local" and x.get("lid") in direct:
                return True
    return False


def _name_of(names, lid):
    for nm, bs in names.items():
        if any(b[0] == lid for b in bs):
            return nm
    return "?"


def _scope_overlaps(order, pos, prev, cur):
    """conservative: a shadowing `let` counts only when it comes later in the same function body (positions are pre-order)"""
    return cur[1] > prev[1]


INT_BITS = {"u8": 8, "i8": 8, "u16": 16, "i16": 16, "u32": 32, "i32": 32, "u64": 64, "i64": 64, "usize": 64, "isize": 64, "u128": 128, "i128": 128}


def s10(fx, chk, ms):
    """widening on decode follows the field's signedness: a wire integer narrower than the struct field it is stored in must
    be read unsigned for an unsigned field (zero extension) and signed for a signed field (sign extension).  The encoders
    truncate with `as`, so the other extension decodes every value with the wire's top bit set to something the encoder
    did not write (decode(encode(x)) != x for those x)."""
    chk.rule("S10", "a wire integer narrower than its struct field is read with the field's signedness (zero extension into unsigned fields, sign extension into signed ones)")
    # field types by (struct short name, field)
    ftypes = {}
    for aid, adt in fx.adts.items():
        if adt.get("kind") != "Struct":
            continue
        for fld in adt["variants"][0]["fields"]:
            ftypes.setdefault(fld["name"], {})[short(aid)] = fld.get("ty_s") or ""
    n = 0
    for ty, m in sorted(ms.items()):
        if m.Lr is None or m.roles is None:
            continue
        file_ = (m.fr.get("span") or {}).get("file")
        for x in LY.walk(m.Lr):
            if x["n"] != "atom" or x.get("dir", "r") != "r" or x.get("w") is None or "id" not in x:
                continue
            role = m.roles.role_of(x["id"])
            if not role or role in ("reserved", "count", "?") or not re.match(r"^[A-Za-z_]\w*$", role):
                continue
            cands = ftypes.get(role, {})
            # the box's own field, else a field of that name in a struct declared in the same file (entry types)
            fty = cands.get(m.s)
            if fty is None:
                same = [t for a_, t in cands.items() if (fx.adts.get(next((k for k in fx.adts if short(k) == a_), ""), {}).get("span") or {}).get("file") == file_]
                fty = same[0] if len(set(same)) == 1 else None
            if fty not in INT_BITS:
                continue
            n += 1
            wire_bits = 8 * x["w"]
            if INT_BITS[fty] <= wire_bits:
                continue
            fsigned = fty.startswith("i")
            key = "%s.%s|w%d" % (m.s, role, x["w"])
            chk.require(bool(x.get("signed")) == fsigned, "S10", key, "%d-bit wire value read %s into %s" % (wire_bits, "signed" if x.get("signed") else "unsigned", fty),
                        "%s.%s is %s but its %d-bit wire form is read as a %s integer: values with the wire's top bit set are %s-extended and no longer equal what was encoded" % (
                            m.s, role, fty, wire_bits, "signed" if x.get("signed") else "unsigned", "sign" if x.get("signed") else "zero"), site_of(m.fr, x.get("line")))
    chk.floor("S10", "integer fields read from the wire", n, 100)


def desc_sizes(fx, chk, rule, floor=4):
    """MPEG-4 descriptors: each encoder writes [tag][length][payload]; the length it passes to the header helper must be
    the number of payload bytes it then writes on that path, and it must be the type's static desc_size(), because the
    enclosing descriptors and the esds box size are computed from desc_size() alone."""
    import tables
    cg = callgraph(fx)
    iof = io_fallible_set(fx, cg)
    hdrw = [f for f in fx.fns.values() if f["name"] == "write_desc" and f["kind"] == "Fn"]
    sol = [f for f in fx.fns.values() if f["name"] == "size_of_length" and f["kind"] == "Fn"]
    if not (chk.anchor(rule, "descriptor header writer", hdrw) and chk.anchor(rule, "size_of_length", sol)):
        return
    tt = tables.threshold_table(fx, sol[0])

    def sol_val(v):
        if tt is None or v is None:
            return None
        for ub, n in tt:
            if ub is None or v <= ub:
                return n
        return None

    def ev(e, env, depth=0):
        if e is None or depth > 12:
            return None
        k = e.get("k")
        if k == "lit":
            return e.get("val") if isinstance(e.get("val"), int) else None
        if k in ("cast", "paren", "addrof"):
            return ev(e.get("e"), env, depth + 1)
        if k == "path":
            if e.get("res") == "local":
                return env.get(e["name"])
            return e.get("val") if isinstance(e.get("val"), int) else None
        if k == "bin":
            a, b = ev(e["l"], env, depth + 1), ev(e["r"], env, depth + 1)
            if a is None or b is None:
                return None
            return {"Add": a + b, "Sub": a - b, "Mul": a * b}.get(e.get("op"))
        if k in ("call", "mcall"):
            fid = e.get("resolved") or e.get("fn")
            f = fx.fns.get(fid)
            if f is None:
                return None
            if f["id"] == sol[0]["id"]:
                return sol_val(ev(e["args"][0], env, depth + 1)) if e.get("args") else None
            if f["name"] == "desc_size" and not e.get("args"):
                root = hirq.body_root(f)
                tail = root.get("expr") if root and root.get("k") == "block" and not root.get("stmts") else None
                return ev(tail, {}, depth + 1) if tail is not None else None
        return None

    def paths(items, env, acc):
        if acc is None:
            return [None]
        if not items:
            return [dict(acc, ret=None)]
        x, rest = items[0], items[1:]
        n = x["n"]
        if n == "let":
            env = dict(env)
            if x.get("pat", {}).get("k") == "bind":
                env[x["pat"]["name"]] = ev(x.get("init"), env)
            return paths(rest, env, acc)
        if n == "atom":
            if x.get("w") is None:
                return [None]
            return paths(rest, env, dict(acc, bytes=acc["bytes"] + x["w"]))
        if n == "inline":
            f = fx.fns.get(x["fn"])
            if f is not None and f["id"] == hdrw[0]["id"]:
                return paths(rest, env, dict(acc, hdr=ev(x["args"][2], env) if len(x.get("args", [])) > 2 else None, nhdr=acc["nhdr"] + 1))
            tr = short(((f or {}).get("impl") or {}).get("trait") or "")
            if f is not None and tr.startswith("WriteDesc<"):
                ds = [g for g in fx.fns.values() if g["name"] == "desc_size" and short((g.get("impl") or {}).get("self_ty") or "") == short((f.get("impl") or {}).get("self_ty") or "")]
                v = ev({"k": "call", "resolved": ds[0]["id"], "args": []}, {}) if ds else None
                if v is None or sol_val(v) is None:
                    return [None]
                return paths(rest, env, dict(acc, bytes=acc["bytes"] + 1 + sol_val(v) + v))
            return [None]
        if n == "alt":
            out = []
            for br in ("then", "else"):
                sub = (x.get(br) or {}).get("items", []) if x.get(br) else []
                out += paths(list(sub) + list(rest), env, acc)
            return out
        if n == "ret":
            if not x.get("ok"):
                return []
            v = x["val"]["args"][0] if x.get("val") and x["val"].get("args") else None
            return [dict(acc, ret=ev(v, env))]
        return [None]
    nd = 0
    for f in sorted((f for f in fx.fns.values() if f["name"] == "write_desc" and short((f.get("impl") or {}).get("trait") or "").startswith("WriteDesc<")), key=lambda f: f["id"]):
        T = short(f["impl"].get("self_ty") or "")
        L = LY.extract(fx, iof, f, opaque={})
        ds = [g for g in fx.fns.values() if g["name"] == "desc_size" and short((g.get("impl") or {}).get("self_ty") or "") == T]
        static = ev({"k": "call", "resolved": ds[0]["id"], "args": []}, {}) if ds else None
        ps = paths(L["items"], {}, {"hdr": None, "bytes": 0, "nhdr": 0}) if L else [None]
        if static is None or any(p is None for p in ps) or not ps:
            chk.analysed.setdefault("descriptors_not_compared", []).append(T)
            chk.ok(rule, "desc|" + T, "not compared: the encoder or desc_size() is outside the descriptor vocabulary (constants, sums, size_of_length, child descriptors, if/else)", site_of(f))
            continue
        nd += 1
        bad = None
        for p_ in ps:
            if p_["nhdr"] != 1 or p_["hdr"] is None:
                bad = "a path writes %d descriptor headers" % p_["nhdr"]
            elif p_["hdr"] != p_["bytes"]:
                bad = "a path announces %d payload bytes and writes %d" % (p_["hdr"], p_["bytes"])
            elif p_["hdr"] != static:
                bad = "a path writes a %d-byte payload but desc_size() is %d: the enclosing descriptors and the esds box size, which are computed from desc_size(), no longer match the bytes written" % (p_["hdr"], static)
            elif p_["ret"] is not None and p_["ret"] != p_["hdr"]:
                bad = "a path returns %d for a %d-byte payload" % (p_["ret"], p_["hdr"])
            if bad:
                break
        chk.require(bad is None, rule, "desc|" + T, "announced length = payload bytes written = desc_size() = %s on %d path(s)" % (static, len(ps)),
                    "%s::write_desc: %s" % (T, bad), site_of(f))
    chk.floor(rule, "descriptor encoders compared", nd, floor)


def c04_flat_roles(toks):
    for t in toks:
        if t[0] == "inline":
            yield t[3]
            yield from c04_flat_roles(t[4])
        else:
            yield from flat_roles([t])


def flat_roles(toks):
    for t in toks:
        if t[0] == "a":
            yield t[2]
        elif t[0] == "b":
            yield t[1]
        elif t[0] == "c":
            yield t[2]
        elif t[0] == "rep":
            yield t[1]
            yield from flat_roles(t[2])
        elif t[0] == "alt?":
            yield from flat_roles(t[2])
            yield from flat_roles(t[3])
        elif t[0] == "loop":
            yield from flat_roles(t[1])
        elif t[0] == "match":
            for _, b in t[2]:
                yield from flat_roles(b)
        elif t[0] == "inline":
            yield t[3]
            yield from flat_roles(t[4])


def role_names(r):
    if r.startswith("expr{"):
        return {x for x in r[5:-1].split(",") if x}
    if r.startswith("len("):
        return {r[4:-1]}
    if r.startswith("count:"):
        return {r[6:]}
    return {r}


def struct_init_fields(fx, fr, s):
    """how each field of the returned struct literal is initialised: 'data' (expression mentions a binding or a read),
    'const' (literal / Default)"""
    out = {}
    root = hirq.body_root(fr)
    for n, _ in hirq.walk(root):
        if n.get("k") == "struct" and short(n.get("def") or "").split("::")[0] in (s, "Self") or (n.get("k") == "struct" and n.get("res") == "self"):
            for f in n["fields"]:
                e = f["e"]
                is_const = True
                for m, _ in hirq.walk(e):
                    if m.get("k") == "path" and m.get("res") == "local":
                        is_const = False
                    if m.get("k") in ("mcall", "call") and m.get("k") == "mcall":
                        is_const = False
                out[f["name"]] = "const" if is_const else "data"
    return out
