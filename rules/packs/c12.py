"""C12 — the parse result is independent of physical layout choices (structural clauses).

  R1 unknown / free boxes are skipped: every dispatch on the child type inside a box-walk loop (20 loops) has a default
     path whose only stream effect is the advance by the child's size (wildcard arm of the `match name`, or the final
     `else` of an `if name == X` chain); the default path stores nothing.
  R2 spare bytes after the last field are skipped: every decoder's success return is dominated by the reposition to
     start + size (same MIR rule as C04-S3, with the same three side-conditioned exceptions).
  R3 sibling order does not matter: in each dispatch the arms write pairwise distinct accumulators (or distinct constant
     keys of one map), no arm reads an accumulator that another arm writes, and nothing after the dispatch inside the
     loop reads what an arm wrote.
  R4 header forms: BoxHeader::read subtracts from a 64-bit largesize exactly the number of extra header bytes it
     consumed (8), box_start subtracts the same constant, so start + size is the end of the box for both header forms;
     contradiction rule: a value computed as position - 8 that is used as an absolute file offset (not only in
     start + size) is wrong for 64-bit headers.
Not decided: equality of parse results across layout variants (a runtime relation).
"""
import re
import c04
import c06
import hirq
import loops as LP
from facts import short
from mir import body_of, callee_path, op_const, op_place, strip_generics
from packs_common import IO_TRAITS
from panicfree import fn_short
from report import site_of

FLOOR_DISPATCH = 18


def header_loops(fx, fn):
    """HIR loops (while / loop / for) of fn whose body calls BoxHeader::read directly (not in a nested loop)"""
    root = hirq.body_root(fn)
    out = []
    for n, ps in hirq.walk(root):
        if n.get("k") in ("while", "loop", "for"):
            body = n["body"]
            for m, ps2 in hirq.walk(body):
                if m.get("k") == "call" and (m.get("fn") or "").endswith("BoxHeader::read"):
                    if not any(p.get("k") in ("while", "loop", "for") for p in ps2):
                        out.append(n)
                        break
    return out


def name_binding(loop):
    """name of the local bound to the child's box type (`let BoxHeader { name, size: s } = header`)"""
    for m, _ in hirq.walk(loop["body"]):
        if m.get("k") == "let" and m["pat"].get("k") == "struct" and (m["pat"].get("def") or "").endswith("BoxHeader"):
            d = {f["name"]: f["pat"] for f in m["pat"]["fields"]}
            nm = d.get("name", {}).get("name")
            sz = d.get("size", {}).get("name")
            return nm, sz
    # `let (name, s) = (header.name, header.size)` / `let name = header.name; let s = header.size;`
    nm = sz = None

    def hdr_field(e):
        e = hirq.strip_wrappers(e)
        while e.get("k") == "cast":
            e = hirq.strip_wrappers(e["e"])
        if e.get("k") == "field" and e["name"] in ("name", "size") and "BoxHeader" in str(hirq.strip_wrappers(e["e"]).get("ty") or ""):
            return e["name"]
        return None
    for m, _ in hirq.walk(loop["body"]):
        if m.get("k") != "let" or "init" not in m:
            continue
        pairs = []
        if m["pat"].get("k") == "bind":
            pairs = [(m["pat"], m["init"])]
        elif m["pat"].get("k") == "tuple" and m["init"].get("k") == "tup":
            subs = m["pat"].get("subs") or []
            es = m["init"].get("es") or []
            if len(subs) == len(es):
                pairs = [(p_, e_) for p_, e_ in zip(subs, es) if p_.get("k") == "bind"]
        for p_, e_ in pairs:
            f = hdr_field(e_)
            if f == "name":
                nm = nm or p_["name"]
            elif f == "size":
                sz = sz or p_["name"]
    if nm is not None:
        return nm, sz
    return None, None


def stream_calls(node):
    """resolved stream-effecting calls inside a HIR subtree: list of (kind, node)"""
    out = []
    for m, _ in hirq.walk(node):
        if m.get("k") in ("call", "mcall"):
            fid = m.get("resolved") or m.get("fn") or ""
            tr = m.get("trait")
            if tr in IO_TRAITS:
                out.append((m.get("m") or fid.split("::")[-1], m))
            elif fid.endswith(("::skip_box", "::skip_bytes_to", "::skip_bytes", "::box_start")) or fid.endswith("::read_box") or fid.endswith("BoxHeader::read"):
                out.append((fid.split("::")[-1], m))
    return out


def _acc_name(t):
    """an accumulator is a local, or one field of a local accumulator struct (`acc.ftyp`, `parts.moofs`)"""
    ps = t.split(".")
    if len(ps) >= 2 and ps[0] not in ("self",):
        return ps[0] + "." + ps[1]
    return ps[0]


def writes_of(node):
    """accumulators written in a HIR subtree: set of (local name, key) — key is a constant first argument for inserts"""
    out = set()
    for m, _ in hirq.walk(node):
        k = m.get("k")
        if k in ("assign", "assignop"):
            t = hirq.path_str(m["l"])
            if t:
                out.add((_acc_name(t), None))
        elif k == "mcall" and m["m"] in ("push", "insert", "extend", "extend_from_slice", "push_str"):
            t = hirq.path_str(m["recv"])
            if t:
                key = None
                if m["m"] == "insert" and m["args"]:
                    key = hirq.expr_str(m["args"][0])
                out.add((_acc_name(t), key))
    return out


def reads_of(node, names):
    out = set()
    for m, _ in hirq.walk(node):
        if m.get("k") == "path" and m.get("res") == "local" and m["name"] in names:
            out.add(m["name"])
    return out


def run(fx, chk, tier):
    chk.rule("R1", "every child-type dispatch in a box-walk loop has a default path that only advances by the child's size")
    chk.rule("R2", "every decoder repositions to start + size before returning success (C04-S3)")
    chk.rule("R3", "dispatch arms write distinct accumulators, do not read each other's, and nothing after the dispatch depends on the arm taken")
    chk.rule("R5", "an absolute advance past a child box is based on the position taken after its header (the decoded size of a 64-bit header excludes the 8 largesize bytes); never pre-header position + size")
    chk.rule("R4", "64-bit header: the constant subtracted from largesize equals the extra header bytes read and equals box_start's constant; position - 8 is not used as an absolute offset")
    eng, ents = c06.build_engine(fx, chk)
    ndisp = 0
    for fid in sorted(eng.clo):
        fn = fx.fns[fid]
        if fn.get("derived"):
            continue
        for loop in header_loops(fx, fn):
            nm, sz = name_binding(loop)
            key = fn_short(fid)
            site = site_of(fn, loop.get("line"))
            if nm is None:
                # header fields accessed as header.name / header.size
                nm = "header.name"
            # the dispatch: a match on the type local, or an if-chain comparing it
            disp = None
            for m, ps in hirq.walk(loop["body"]):
                if m.get("k") == "match" and m.get("src") == "match" and hirq.path_str(m["scrut"]) == nm:
                    disp = ("match", m)
                    break
                if m.get("k") == "if" and m["cond"].get("k") == "bin" and m["cond"]["op"] == "Eq" and hirq.path_str(m["cond"]["l"]) == nm:
                    disp = ("if", m)
                    break
                # `if let BoxType::X = name { .. } else { .. }` is a two-arm match on the type
                if m.get("k") == "if" and m["cond"].get("k") == "letx" and hirq.path_str(m["cond"]["init"]) == nm and m["cond"]["pat"].get("k") in ("path", "tuplestruct", "struct", "expr"):
                    disp = ("match", {"arms": [{"pat": m["cond"]["pat"], "body": m["then"]}, {"pat": {"k": "wild"}, "body": m.get("else") or {"k": "block", "stmts": []}}]})
                    break
            if disp is None:
                # the child type is classified by a helper and the loop branches on its answer:
                # `if let Some(k) = classify(name) { .. } else { skip }` / `match classify(name) { Some(k) => .., None => skip }`
                def _on_name(e):
                    return e.get("k") in ("call", "mcall") and any(hirq.path_str(hirq.strip_wrappers(a)) == nm for a in (e.get("args") or []))
                for m, ps in hirq.walk(loop["body"]):
                    if m.get("k") == "if" and m["cond"].get("k") == "letx" and _on_name(hirq.strip_wrappers(m["cond"]["init"])) and (m["cond"]["pat"].get("def") or "").endswith("Option::Some"):
                        disp = ("match", {"arms": [{"pat": m["cond"]["pat"], "body": m["then"]}, {"pat": {"k": "wild"}, "body": m.get("else") or {"k": "block", "stmts": []}}]})
                        break
                    if m.get("k") == "match" and m.get("src") == "match" and _on_name(hirq.strip_wrappers(m["scrut"])):
                        arms2 = []
                        for a in m["arms"]:
                            if (a["pat"].get("def") or "").endswith("Option::None") or hirq.pat_str(a["pat"]) == "None":
                                arms2.append({"pat": {"k": "wild"}, "body": a["body"]})
                            else:
                                arms2.append(a)
                        disp = ("match", {"arms": arms2})
                        break
            if disp is None:
                # the whole dispatch moved into a local function that receives the child's type and size
                for m, ps in hirq.walk(loop["body"]):
                    if m.get("k") not in ("call", "mcall"):
                        continue
                    g = fx.fns.get(m.get("resolved") or m.get("fn"))
                    if g is None or hirq.body_root(g) is None:
                        continue
                    args_ = ([m["recv"]] if m.get("k") == "mcall" else []) + list(m.get("args", []))
                    names_ = [hirq.path_str(hirq.strip_wrappers(a)) for a in args_]
                    if nm not in names_:
                        continue
                    gparams = [p_.get("name") for p_ in (g.get("hir") or {}).get("params", [])]
                    if len(gparams) != len(args_) or not gparams[names_.index(nm)]:
                        continue
                    pnm = gparams[names_.index(nm)]
                    psz = gparams[names_.index(sz)] if sz in names_ else None
                    for m2, _ in hirq.walk(hirq.body_root(g)):
                        if m2.get("k") == "match" and m2.get("src") == "match" and hirq.path_str(m2["scrut"]) == pnm:
                            disp = ("match", m2)
                            nm, sz = pnm, psz
                            break
                    if disp is not None:
                        break
            if disp is None:
                chk.bad("R1", key + "|dispatch", "box-walk loop without a recognisable dispatch on the child type", site)
                continue
            ndisp += 1
            arms = []          # (label, body node)
            default = None
            if disp[0] == "match":
                for a in disp[1]["arms"]:
                    if a["pat"].get("k") in ("wild", "bind"):
                        default = a["body"]
                    else:
                        arms.append((hirq.pat_str(a["pat"]), a["body"]))
            else:
                n = disp[1]
                while True:
                    arms.append((hirq.expr_str(n["cond"]), n["then"]))
                    e = n.get("else")
                    if e is None:
                        default = {"k": "block", "stmts": []}
                        break
                    inner = e
                    if inner.get("k") == "block" and not inner.get("stmts") and inner.get("expr", {}).get("k") == "if":
                        inner = inner["expr"]
                    if inner.get("k") == "if" and inner["cond"].get("k") == "bin" and hirq.path_str(inner["cond"]["l"]) == nm:
                        n = inner
                        continue
                    default = e
                    break
            # ---- R1
            if default is None:
                chk.bad("R1", key + "|default", "dispatch on the child type has no default arm: an unknown box type is not skipped", site)
            else:
                calls = stream_calls(default)
                kinds = [k for k, _ in calls]
                stores = writes_of(default)
                adv_ok = (kinds in (["skip_box"], ["skip_bytes_to"], [])) or (kinds and all(k in ("read_exact",) for k in kinds))
                # the advance must be driven by the child's size
                if kinds in (["skip_box"], ["skip_bytes_to"]):
                    arg = calls[0][1]["args"][-1]
                    names = {m["name"] for m, _ in hirq.walk(arg) if m.get("k") == "path" and m.get("res") == "local"}
                    # skip_bytes_to(current + s) may go through a let (`let skip_to = current + s`)
                    for m, _ in hirq.walk(default):
                        if m.get("k") == "let" and m["pat"].get("k") == "bind" and m["pat"]["name"] in names and "init" in m:
                            names |= {x["name"] for x, _ in hirq.walk(m["init"]) if x.get("k") == "path" and x.get("res") == "local"}
                    adv_ok = adv_ok and (sz in names if sz else True)
                store_ok = not stores or (kinds and all(k == "read_exact" for k in kinds))    # meta's raw-children arm keeps the bytes it read
                chk.require(adv_ok and store_ok, "R1", key + "|default", "default path: %s" % (kinds or "no stream effect (next header follows)"),
                            "default arm of the child dispatch does more than advance by the child's size (stream calls %s, stores %s)" % (kinds, sorted(stores)), site)
            # ---- R3
            acc = {}
            allw = set()
            for lab, body in arms:
                w = writes_of(body)
                acc[lab] = w
                allw |= {x[0] for x in w}
            dup = []
            labs = list(acc)
            for i in range(len(labs)):
                for j in range(i + 1, len(labs)):
                    common = {x for x in acc[labs[i]] if x in acc[labs[j]] and x[1] is None} | {x for x in acc[labs[i]] if x[1] is None and any(y[0] == x[0] for y in acc[labs[j]])}
                    common = {x for x in common if x[0] not in ("reader",)}
                    if common:
                        dup.append((labs[i], labs[j], sorted(c[0] for c in common)))
            cross = []
            for lab, body in arms:
                others = set()
                for l2, w in acc.items():
                    if l2 != lab:
                        others |= {x[0] for x in w}
                others -= {x[0] for x in acc[lab]}
                r = reads_of(body, others)
                if r:
                    cross.append((lab, sorted(r)))
            chk.require(not dup, "R3", key + "|distinct", "%d arms, pairwise distinct accumulators" % len(arms),
                        "two dispatch arms write the same accumulator: %s -- the result depends on sibling order" % dup[:2], site)
            chk.require(not cross, "R3", key + "|independent", "no arm reads another arm's accumulator",
                        "a dispatch arm reads an accumulator written by another arm: %s -- the result depends on sibling order" % cross[:2], site)
            # after the dispatch inside the loop: only the position refresh
            stmts = loop["body"].get("stmts", []) if loop["body"].get("k") == "block" else []
            after = False
            late = []
            for s in stmts:
                e = s.get("e") or s.get("init")
                if e is None:
                    continue
                if after:
                    r = reads_of(e, allw)
                    if r:
                        late.append(sorted(r))
                if any(m is disp[1] for m, _ in hirq.walk(e)):
                    after = True
            chk.require(not late, "R3", key + "|after", "nothing after the dispatch reads an arm's result",
                        "code after the dispatch inside the loop reads %s" % late[:2], site)
    chk.floor("R1", "child-type dispatches in box-walk loops", ndisp, FLOOR_DISPATCH)

    # ---------------- R2 (shared with C04-S3)
    ms = c04.models(fx)
    exc = c04.s3_exceptions(fx)
    n2 = 0
    for ty, m in sorted(ms.items()):
        if not m.fr:
            continue
        n2 += 1
        s = m.s
        r = c04.s3_check(fx, m.fr)
        if r is not None and s in exc:
            okx, why = exc[s][1]()
            chk.require(okx, "R2", s, "accepted: %s [%s]" % (exc[s][0], why), "%s: accepted exception no longer holds: %s" % (s, why), site_of(m.fr))
        else:
            chk.require(r is None, "R2", s, "success return dominated by skip_bytes_to(start + size)", "%s::read_box: %s -- spare bytes at the end of the box are not skipped" % (s, r), site_of(m.fr))
    chk.floor("R2", "decoders", n2, 44)

    # ---------------- R4
    hr = [f for f in fx.fns.values() if f["id"].endswith("BoxHeader::read")]
    bs = [f for f in fx.fns.values() if f["id"].endswith("::box_start") and f["kind"] == "Fn"]
    if chk.anchor("R4", "BoxHeader::read and box_start", hr and bs):
        hb = body_of(hr[0])
        # constant subtracted from the 64-bit size
        subs = []
        for b in hb.reach:
            for s in hb.stmts(b):
                if s["k"] == "assign" and s["rv"]["k"] == "bin" and s["rv"]["op"].startswith("Sub"):
                    c = op_const(s["rv"]["b"])
                    if c is not None:
                        subs.append(c)
        # bytes consumed by the second read_exact: the buffer is a [u8; N] local
        reads = [(b, t) for b, t in hb.calls() if (t["callee"].get("path") or "").endswith("Read::read_exact")]
        buflen = None
        for l in hb.locals:
            m = __import__("re").match(r"\[u8; (\d+)\]$", l["ty"])
            if m:
                buflen = int(m.group(1))
        bb = body_of(bs[0])
        bsub = []
        for b in bb.reach:
            for s in bb.stmts(b):
                if s["k"] == "assign" and s["rv"]["k"] == "bin" and s["rv"]["op"].startswith("Sub"):
                    c = op_const(s["rv"]["b"])
                    if c is not None:
                        bsub.append(c)
        ok = len(reads) == 2 and subs == [buflen] and bsub == [buflen] and buflen == 8
        chk.require(ok, "R4", "constants", "largesize - 8, second read of 8 bytes, box_start = position - 8",
                    "64-bit header constants disagree: largesize minus %s, extra header bytes %s, box_start minus %s (%d header reads)" % (subs, buflen, bsub, len(reads)), site_of(hr[0]))
    # contradiction: position - 8 used as an absolute offset (stored, not only added to a size)
    for fid in sorted(eng.clo):
        fn = fx.fns[fid]
        body = body_of(fn)
        if body is None or fn.get("derived") or fid.endswith("::box_start"):
            continue
        for b in body.reach:
            for i, s in enumerate(body.stmts(b)):
                if s["k"] == "assign" and s["rv"]["k"] == "bin" and s["rv"]["op"].startswith("Sub") and op_const(s["rv"]["b"]) == 8:
                    a = s["rv"]["a"]
                    txt = body.op_str(a)
                    pl = op_place(a)
                    src = body.local_str(pl["l"]) if pl and not pl["p"] else txt
                    if "stream_position" in src or "stream_position" in txt or src == "val":
                        # where does the difference go? a push into a collection / struct field = absolute use
                        chk.bad("R4", fn_short(fid) + "|abs-offset", "`position - 8` is kept as the absolute offset of the box just entered: with a 64-bit size header the box starts 16 bytes before the position, so the stored offset is 8 too large", site_of(fn, s.get("line")))
    # ---------------- R5: the base of every advance past a child
    import rescan
    import c01_tables
    from callgraph import callgraph
    from packs_common import io_fallible_set
    iof = io_fallible_set(fx, callgraph(fx))
    nadv = 0
    for fid in sorted(eng.clo):
        fn = fx.fns[fid]
        if fn.get("derived") or body_of(fn) is None:
            continue
        body, ls, walks = rescan.boxwalk_loops(fx, fid)
        it = eng.res.interps.get(fid)
        if not walks or it is None:
            continue
        inv = {v: k for k, v in it.site_syms.items()}
        for L in walks:
            own = L.own_blocks(ls)
            hs = [b for b, t in LP.calls_in(body, own) if rescan.is_header_read(t)]
            if len(hs) != 1:
                continue
            H = hs[0]
            seen = {}
            for b, t in LP.calls_in(body, L.blocks):
                p = callee_path(t["callee"]) or ""
                decl = strip_generics(t["callee"].get("path") or "")
                if not (p.endswith("::skip_bytes_to") or decl == "std::io::Seek::seek") or not body.dominates(H, b):
                    continue
                st = it.out_states.get(b)
                if st is None:
                    continue
                arg = t["args"][1]
                sid = it.read_op(st, arg, (b, "t"))[0]
                if decl == "std::io::Seek::seek":
                    pl = op_place(arg)
                    sd = body.single_def(pl["l"]) if pl is not None and not pl["p"] else None
                    sid = st.cells.get((pl["l"], ".0")) if sd and sd[2] == "assign" and sd[3]["k"] == "agg" and sd[3].get("variant") == "Start" else None
                lin = c01_tables.Lin(it)
                form = lin.sym(st, sid) if sid is not None else None
                if not form:
                    continue
                # which variables are the size decoded by this iteration's header read / captured positions?
                svars, pvars, other = [], [], []
                for v, c in form.items():
                    if v == ():
                        continue
                    site = inv.get(v[1]) if isinstance(v, tuple) and v and v[0] == "sym" else None
                    if site and site[0] == "call" and site[1] == (H, "t") and site[2][-1:] == (".size",):
                        svars.append((v, c))
                    elif site and site[0] == "call" and site[2] == ("as Ok", ".0") and strip_generics(body.term(site[1][0])["callee"].get("path") or "") == "std::io::Seek::stream_position":
                        pvars.append((v, c, site[1][0]))
                    else:
                        other.append(v)
                if not svars:
                    continue          # not an advance by the child's size (e.g. jump to the parent's end)
                nadv += 1
                base = "%s|advance|%s" % (fn_short(fid), body.op_str(arg))
                k = seen.get(base, 0)
                seen[base] = k + 1
                key = base if not k else "%s#%d" % (base, k)
                site_ = site_of(fn, t.get("line"))
                const = form.get((), 0)
                if other or len(pvars) != 1 or pvars[0][1] != 1 or svars[0][1] != 1:
                    chk.bad("R5", key, "advance past a child is not `position + size` in a recognisable form (%s)" % c01_tables.l_str(form), site_)
                    continue
                cb = pvars[0][2]
                if body.dominates(H, cb) and const == -8:
                    chk.ok("R5", key, "position taken after the header + size - 8", site_)
                elif body.dominates(H, cb):
                    chk.bad("R5", key, "advance = position after the header + size %+d; the decoded size counts 8 header bytes" % const, site_)
                else:
                    chk.bad("R5", key, "advance = (position taken BEFORE the child's header) + decoded size: for a child with a 64-bit size header BoxHeader::read returns largesize - 8, "
                            "so this lands 8 bytes before the child's end and the next header is read from its payload (use skip_box / the position after the header)", site_)
    # the same rule for a cursor kept in a variable: a loop-carried integer that the iteration advances by the decoded size
    # (`current += s`) is the pre-header position + size unless its base is a position taken after the header, minus 8
    ncur = 0
    for fid in sorted(eng.clo):
        fn = fx.fns[fid]
        if fn.get("derived") or body_of(fn) is None:
            continue
        body, ls, walks = rescan.boxwalk_loops(fx, fid)
        it = eng.res.interps.get(fid)
        if not walks or it is None:
            continue
        inv = {v: k for k, v in it.site_syms.items()}
        for L in walks:
            own = L.own_blocks(ls)
            hs = [b for b, t in LP.calls_in(body, own) if rescan.is_header_read(t)]
            if len(hs) != 1:
                continue
            H = hs[0]
            carried = set()
            for b in L.blocks:
                for s_ in body.stmts(b):
                    if s_["k"] == "assign" and not s_["place"]["p"] and body.local_name(s_["place"]["l"]):
                        carried.add(s_["place"]["l"])
            outside = set()
            for b in range(body.n):
                if b not in L.blocks:
                    for s_ in body.stmts(b):
                        if s_["k"] == "assign" and not s_["place"]["p"]:
                            outside.add(s_["place"]["l"])
                    t_ = body.term(b)
                    if t_["k"] == "call" and not t_["dest"]["p"]:
                        outside.add(t_["dest"]["l"])
            for l in sorted(carried & outside):
                for lb in L.latches:
                    st = it.out_states.get(lb)
                    sid = st.cells.get((l,)) if st is not None else None
                    if sid is None:
                        continue
                    form = c01_tables.Lin(it).sym(st, sid)
                    if not form:
                        continue
                    svars, pvars, other = [], [], []
                    for v, c in form.items():
                        if v == ():
                            continue
                        site = inv.get(v[1]) if isinstance(v, tuple) and v and v[0] == "sym" else None
                        if site and site[0] == "call" and site[1] == (H, "t") and site[2][-1:] == (".size",):
                            svars.append((v, c))
                        elif site and site[0] == "call" and site[2] == ("as Ok", ".0") and strip_generics(body.term(site[1][0])["callee"].get("path") or "") == "std::io::Seek::stream_position":
                            pvars.append((v, c, site[1][0]))
                        else:
                            other.append(v)
                    if not svars:
                        continue
                    ncur += 1
                    key = "%s|cursor|%s" % (fn_short(fid), body.local_name(l))
                    site_ = site_of(fn, L.line)
                    const = form.get((), 0)
                    if not other and len(pvars) == 1 and pvars[0][1] == 1 and svars[0][1] == 1 and body.dominates(H, pvars[0][2]) and const == -8:
                        chk.ok("R5", key, "cursor = position taken after the header + size - 8", site_)
                    else:
                        chk.bad("R5", key, "the loop cursor `%s` is advanced by the decoded child size from a base that is not the position after the child's header (%s): for a child with a 64-bit size header "
                                "BoxHeader::read returns largesize - 8, so the cursor falls 8 bytes short of the child's end per such child and the walk reads past its parent (re-read stream_position(), or use the position after the header + size - 8)"
                                % (body.local_name(l), c01_tables.l_str(form)), site_)
                    break
    chk.analysed["absolute_advances_by_child_size"] = nadv
    chk.analysed["arithmetic_cursors"] = ncur
    # the relative helper: skip_box(reader, s) must be called with the stream still at the end of the header just read,
    # and its own target must be (position - 8) + size
    sb = [f for f in fx.fns.values() if f["id"].endswith("::skip_box") and f["kind"] == "Fn"]
    nskip = 0
    if chk.anchor("R5", "skip_box", sb):
        sbody = body_of(sb[0])
        it0 = eng.res.interps.get(sb[0]["id"])
        good = False
        why = "no absolute reposition found"
        if it0 is not None:
            bsum = None
            for b, t in sbody.calls():
                if (callee_path(t["callee"]) or "").endswith("::skip_bytes_to"):
                    st = it0.out_states.get(b)
                    sid = it0.read_op(st, t["args"][1], (b, "t"))[0] if st is not None else None
                    lin = c01_tables.Lin(it0)
                    form = lin.sym(st, sid) if sid is not None else None
                    why = "target = %s" % c01_tables.l_str(form)
                    if form:
                        inv0 = {v: k for k, v in it0.site_syms.items()}
                        params = [v for v in form if isinstance(v, tuple) and v and v[0] == "param" and form[v] == 1]
                        calls_ = [v for v in form if isinstance(v, tuple) and v and v[0] == "sym" and form[v] == 1 and (inv0.get(v[1]) or ("",))[0] == "call"]
                        rest = [v for v in form if v != () and v not in params and v not in calls_]
                        if len(params) == 1 and len(calls_) == 1 and not rest:
                            cpath = callee_path(sbody.term(inv0[calls_[0][1]][1][0])["callee"]) or ""
                            if cpath.endswith("::box_start") and form.get((), 0) == 0:
                                good = True        # box_start's own constant is R4's subject
                            elif strip_generics(sbody.term(inv0[calls_[0][1]][1][0])["callee"].get("path") or "") == "std::io::Seek::stream_position" and form.get((), 0) == -8:
                                good = True
        chk.require(good, "R5", "skip_box|target", "skip_box repositions to box_start() + size", "skip_box does not reposition to (position - 8) + size: %s" % why, site_of(sb[0]))
        for fid in sorted(eng.clo):
            fn = fx.fns[fid]
            if fn.get("derived") or body_of(fn) is None:
                continue
            body, ls, walks = rescan.boxwalk_loops(fx, fid)
            for L in walks:
                own = L.own_blocks(ls)
                hs = [b for b, t in LP.calls_in(body, own) if rescan.is_header_read(t)]
                if len(hs) != 1:
                    continue
                H = hs[0]
                seen = {}
                for b, t in LP.calls_in(body, L.blocks):
                    if callee_path(t["callee"]) != sb[0]["id"] or not body.dominates(H, b):
                        continue
                    nskip += 1
                    base = "%s|skip_box|%s" % (fn_short(fid), body.op_str(t["args"][1]))
                    k = seen.get(base, 0)
                    seen[base] = k + 1
                    key = base if not k else "%s#%d" % (base, k)
                    between = body.reachable_from(body.term(H)["t"], avoid=[b, L.head]) if body.term(H).get("t") is not None else set()
                    between = {x for x in between if body.can_reach(x, b, avoid=[L.head])}
                    moved = [x for x in between if x != b and body.term(x)["k"] == "call" and rescan.stream_call(fx, body.term(x), iof)]
                    chk.require(not moved, "R5", key, "called with the stream at the end of the header just read", "the stream is moved between the header read and skip_box, which measures from the current position", site_of(fn, t.get("line")))
        chk.floor("R5", "skip_box calls in box-walk loops", nskip, 20)
    # ---------------- R6: the offsets the layouts shift (instances owned by C03 / C09)
    # ---------------- R7: a child walk stops early only at a size no box can have
    chk.rule("R7", "a child walk gives up on the size of a child only when that size is smaller than a box header (0 = the library's stop convention): an empty free/skip/unknown child (size 8) before the wanted child must be skipped like any other")
    hs_c = fx.consts.get("mp4box::HEADER_SIZE")
    HS = 8
    nstop = 0
    for fid in sorted(eng.clo):
        fn = fx.fns[fid]
        if fn.get("derived") or body_of(fn) is None:
            continue
        body, ls, walks = rescan.boxwalk_loops(fx, fid)
        it = eng.res.interps.get(fid)
        if not walks or it is None:
            continue
        for L in walks:
            own = L.own_blocks(ls)
            hs = [b for b, t in LP.calls_in(body, own) if rescan.is_header_read(t)]
            if len(hs) != 1 or body.term(hs[0]).get("t") is None:
                continue
            H = hs[0]
            # blocks of the iteration reached after the header read and before any child is consumed
            stop_at = set()
            for b, t in LP.calls_in(body, L.blocks):
                p = callee_path(t["callee"]) or ""
                tr = short(((fx.fns.get(p) or {}).get("impl") or {}).get("trait") or "")
                if p.endswith("::skip_box") or tr.startswith("ReadBox<") or p.endswith("::skip_bytes_to") or p.endswith("::skip_bytes"):
                    stop_at.add(b)
            pre = (body.reachable_from(body.term(H)["t"], avoid=[L.head] + sorted(stop_at)) | {body.term(H)["t"]}) & L.blocks
            for x in sorted(pre):
                t = body.term(x)
                if t["k"] != "switch":
                    continue
                st = it.out_states.get(x)
                if st is None:
                    continue
                dl = op_place(t["discr"])
                if dl is None or dl["p"]:
                    continue
                d = body.single_def(dl["l"])
                ssid = None
                direct = False
                if d is not None and d[2] == "assign" and d[3]["k"] == "bin" and d[3].get("op") in ("Lt", "Le", "Gt", "Ge", "Eq", "Ne"):
                    # a comparison of the child size with a constant
                    sa = it.read_op(st, d[3]["a"], (x, "c"))
                    sb_ = it.read_op(st, d[3]["b"], (x, "c"))
                    for me, other in ((sa, sb_), (sb_, sa)):
                        if me[0] is not None and any(r.endswith("BoxHeader::read") for r in me[3]) and other[1] is not None and other[1] == other[2] and not any(r.endswith("BoxHeader::read") for r in other[3]):
                            ssid = me[0]
                else:
                    sd_ = it.read_op(st, t["discr"], (x, "c"))
                    if sd_[0] is not None and any(r.endswith("BoxHeader::read") for r in sd_[3]) and "int" in str(t.get("dty", "")) or (t.get("dty") in ("u64", "u32")):
                        ssid, direct = sd_[0], True
                if ssid is None:
                    continue
                for succ, st2 in it.successors(st.copy(), x):
                    if succ in L.blocks:
                        continue
                    lo, hi = it.iv(st2, ssid)
                    nstop += 1
                    key = "%s|stop|%s" % (fn_short(fid), "0" if (lo, hi) == (0, 0) else "%s..%s" % (lo, hi if hi is not None and hi < (1 << 62) else "max"))
                    site_ = site_of(fn, t.get("line"))
                    if hi is not None and hi < HS:
                        chk.ok("R7", key, "the walk stops here only for child sizes %s..%s (no box is shorter than its %d-byte header)" % (lo, hi, HS), site_)
                    else:
                        chk.bad("R7", key, "the walk over the children stops at a child whose size is in %s..%s: a well-formed empty child (size %d: free, skip or an unknown box) placed before the wanted child ends the search, so the parse depends on the order of siblings" % (lo, hi, HS), site_)
    chk.floor("R7", "size-based stops in child walks", nstop, 19)
    # ---------------- R8: spare bytes after the last field are tolerated
    chk.rule("R8", "a decoder whose fields and counted tables do not extend to the end of the box never rejects a box because of bytes left over: no rejection is guarded by a remainder test of the box size (a decoder that derives a repetition count from the size, like ftyp, consumes the whole box and is exempt)")
    nrem = ndec = 0
    for fid, fn in sorted(fx.fns.items()):
        tr = short((fn.get("impl") or {}).get("trait") or "")
        body = body_of(fn)
        if not tr.startswith("ReadBox<") or body is None or fn.get("derived"):
            continue
        ndec += 1

        def size_only(c):
            return "$2" in c and re.search(r"\$[13-9]|read_|stream_position|Index::|Iterator::|Seek::", c) is None
        def const_like(o):
            return op_const(o) is not None or re.search(r"\$\d|read_|stream_position|Index::|Iterator::|Seek::", body.canon_op(o)) is None
        count_from_size = False
        rems = []
        for b in body.reach:
            for i, s_ in enumerate(body.stmts(b)):
                if s_["k"] != "assign" or s_["rv"]["k"] not in ("bin", "checked"):
                    continue
                op_ = s_["rv"].get("op")
                if op_ in ("Div",) and size_only(body.canon_op(s_["rv"]["a"])) and const_like(s_["rv"]["b"]) and not s_["place"]["p"]:
                    # used as the bound of a range loop?  (copies followed forward)
                    holders = {s_["place"]["l"]}
                    for _ in range(4):
                        for b3 in body.reach:
                            for s3 in body.stmts(b3):
                                if s3["k"] == "assign" and not s3["place"]["p"] and s3["rv"]["k"] in ("use", "cast"):
                                    src3 = op_place(s3["rv"]["a"])
                                    if src3 is not None and not src3["p"] and src3["l"] in holders:
                                        holders.add(s3["place"]["l"])
                    for b3 in body.reach:
                        for s3 in body.stmts(b3):
                            if s3["k"] == "assign" and s3["rv"]["k"] == "agg" and "Range" in str(s3["rv"].get("adt") or ""):
                                for o3 in s3["rv"].get("ops", []):
                                    p3 = op_place(o3)
                                    if p3 is not None and not p3["p"] and p3["l"] in holders:
                                        count_from_size = True
                if op_ == "Rem" and size_only(body.canon_op(s_["rv"]["a"])) and const_like(s_["rv"]["b"]) and not s_["place"]["p"]:
                    rems.append((b, s_["place"]["l"], op_const(s_["rv"]["b"]) if op_const(s_["rv"]["b"]) is not None else body.op_str(s_["rv"]["b"]), s_.get("line")))
        oks = set(LP.ok_blocks(body))
        # an upper bound or an exact value demanded of the size (`size != 16`, `size > 24`): same intolerance
        if not count_from_size:
            NEG = {"Eq": "Ne", "Ne": "Eq", "Lt": "Ge", "Ge": "Lt", "Gt": "Le", "Le": "Gt"}
            FLIP = {"Eq": "Eq", "Ne": "Ne", "Lt": "Gt", "Gt": "Lt", "Le": "Ge", "Ge": "Le"}
            for b in body.reach:
                t = body.term(b)
                if t["k"] != "switch":
                    continue
                dl = op_place(t["discr"])
                d = body.single_def(dl["l"]) if dl is not None and not dl["p"] else None
                if d is None or d[2] != "assign" or d[3]["k"] != "bin" or d[3].get("op") not in NEG:
                    continue
                ca, cb = body.canon_op(d[3]["a"]), body.canon_op(d[3]["b"])
                if size_only(ca) and const_like(d[3]["b"]) and "$2" not in cb:
                    rel = d[3]["op"]
                elif size_only(cb) and const_like(d[3]["a"]) and "$2" not in ca:
                    rel = FLIP[d[3]["op"]]
                else:
                    continue
                t_true = t["otherwise"]
                t_false = next((tg for v, tg in t["targets"] if v == 0), None)
                for tgt, holds in ((t_true, rel), (t_false, NEG[rel])):
                    if tgt is None or tgt in oks or any(body.can_reach(tgt, o) for o in oks):
                        continue
                    if holds in ("Ne", "Gt", "Ge"):
                        nrem += 1
                        chk.bad("R8", "%s|size %s" % (fn_short(fid), holds), "%s rejects a box because its size is %s a constant: bytes after the last field (which every other decoder skips) make the file unreadable" % (
                            fn_short(fid), {"Ne": "different from", "Gt": "greater than", "Ge": "at least"}[holds]), site_of(fn, t.get("line")))
        if not rems:
            continue
        for rb, rl, c_, line_ in rems:
            nrem += 1
            key = "%s|size %% %s" % (fn_short(fid), c_)
            if count_from_size:
                chk.ok("R8", key, "the decoder derives a repetition count from the size: it consumes the whole box, a remainder is malformed data, not spare bytes", site_of(fn, line_))
                continue
            # does a branch on (rem ==/!= 0) lead to a block from which no successful return is reachable?
            rejects = False
            for b in body.reach:
                t = body.term(b)
                if t["k"] != "switch":
                    continue
                dl = op_place(t["discr"])
                d = body.single_def(dl["l"]) if dl is not None and not dl["p"] else None
                uses_rem = False
                if dl is not None and dl["l"] == rl:
                    uses_rem = True
                elif d is not None and d[2] == "assign" and d[3]["k"] == "bin" and d[3].get("op") in ("Eq", "Ne", "Gt", "Lt", "Ge", "Le"):
                    for side in ("a", "b"):
                        pl = op_place(d[3][side])
                        for _ in range(3):
                            if pl is None or pl["p"] or pl["l"] == rl:
                                break
                            sd = body.single_def(pl["l"])
                            pl = op_place(sd[3]["a"]) if sd and sd[2] == "assign" and sd[3]["k"] == "use" else None
                        if pl is not None and not pl["p"] and pl["l"] == rl:
                            uses_rem = True
                if not uses_rem:
                    continue
                for tgt in [x[1] for x in t["targets"]] + [t["otherwise"]]:
                    if tgt not in oks and not any(body.can_reach(tgt, o) for o in oks):
                        rejects = True
            chk.require(not rejects, "R8", key, "the remainder test does not guard a rejection",
                        "%s rejects a box whose size leaves a remainder modulo %s: bytes after the last field (which every other decoder skips) make the file unreadable" % (fn_short(fid), c_), site_of(fn, line_))
    chk.floor("R8", "box decoders scanned for size-remainder rejections", ndec, 40)
    chk.analysed["size_remainder_tests"] = nrem
    from packs_common import compose
    chk.rule("R6", "sample offsets move with the layout: the offset arithmetic of both lookups is dimension-, scope- and sign-correct, so media data before its header (negative run offset) or beyond 4 GiB resolves like any other layout (C03 / C09 R-UNITS instances)")
    compose(fx, chk, tier, "R6", "C03", ["R-UNITS"], floor=15, what="non-fragmented offset arithmetic obligations")
    compose(fx, chk, tier, "R6", "C09", ["R-UNITS"], floor=13, what="fragmented offset arithmetic obligations")
    return chk.finish(
        "other",
        "%d child-type dispatches, %d decoders and the header-form constants are checked structurally on HIR/MIR; the rules are necessary conditions of layout independence "
        "(breaking one changes the result for some layout variant). Not decided: equality of results across variants." % (ndisp, n2),
    )
