"""C02 — muxer output is a structurally valid, self-consistent ISO-BMFF file (structural clauses only).

  R1/R2 container and leaf sizes: for every box type whose encoder is reachable from the muxer (ftyp, moov and
        everything below it) box_size() equals the bytes written in every shape cell (C04-S2 restricted to the muxer
        closure), the header carries box_size() and the box's own type (C04-S1).
  R3 media-data patch ordering in Mp4Writer::write_end: all track flushes precede update_mdat_size, which precedes
     moov.write_box; the patch measures `position - mdat_pos`, and its last stream effect is seek(Start(mdat_end))
     (the position it started from), so the movie box is appended right after the media data.
  R4 prologue: write_start = ftyp.write_box, mdat_pos := position, 8-byte mdat header, 8-byte wide header, nothing else
     (shared with C13 R-MDAT).
  R5 who-may-write: the functions of the muxer closure that touch the output stream directly are exactly the box
     encoders, the chunk flush, the mdat patch and the prologue; box encoders are invoked only from write_start (ftyp)
     and write_end (moov); the closure of Mp4Writer::write_sample writes nothing but chunk payloads.  Hence between
     prologue and write_end only chunk payloads enter the stream, in call order, each at its recorded offset (chunks lie
     inside mdat and are pairwise disjoint).
  R6 duration stores (lower bounds): mdhd.duration is stored as old + sample.duration; tkhd.duration as old + f(duration,
     movie timescale, track timescale); the writer's movie duration as max(old, track duration); mvhd.duration/timescale
     are copied from those writer fields in write_end.
  R7 dimension typing of the muxer's table bookkeeping (rules/units.py): what is stored into each table field is the
     quantity ISO gives that field - sample numbers into stss / first_sample, chunk numbers into first_chunk, counts into
     sample_count, media ticks into stts deltas and mdhd.duration, movie ticks (media ticks x movie timescale / media
     timescale) into tkhd / mvhd durations - and no operation combines incompatible quantities.
  R8 no header field of the output is narrower than the value stored in it (C13 R-CAST / R-STCO instances): a duration or
     offset truncated on write no longer equals the sum the statement demands.
  R9 each sample table accounts for exactly the samples written (C01 R7 count-conservation instances).
Not decided: "within one tick", strict monotonicity of sync numbers, chunk disjointness beyond R5.
"""
import c04
import c13
import hirq
import layout as LY
import layout2 as L2
import loops as LP
import panicfree
from callgraph import callgraph
from facts import short
from mir import body_of, callee_path, op_place, place_key, strip_generics
from packs_common import muxer_entries, io_fallible_set, IO_TRAITS
from panicfree import fn_short
from report import site_of

UNITS_FLOOR = 52      # dimension checks counted on the pinned tree in the muxer bookkeeping
WRITE_TRAITS = ("std::io::Write", "std::io::Seek", "byteorder::io::WriteBytesExt")


def run(fx, chk, tier):
    chk.rule("R1", "box_size() == bytes written and header = (box_type(), box_size()) for every encoder reachable from the muxer")
    chk.rule("R3", "write_end: track flushes, then mdat size patch, then moov; the patch ends by seeking back to where it started")
    chk.rule("R4", "write_start writes ftyp, records mdat_pos, writes the 8-byte mdat header and the 8-byte wide placeholder")
    chk.rule("R5", "only encoders, the chunk flush, the mdat patch and the prologue touch the output stream; write_sample's closure writes chunk payloads only")
    chk.rule("R6", "duration stores depend on the previous value and the sample duration / timescales; mvhd copies the writer's fields")
    cg = callgraph(fx)
    iof = io_fallible_set(fx, cg)
    ents = muxer_entries(fx)
    clo = cg.closure(ents)
    ws = fx.impl_fn("Mp4Writer<W>", None, "write_start")
    we = fx.impl_fn("Mp4Writer<W>", None, "write_end")
    wsm = fx.impl_fn("Mp4Writer<W>", None, "write_sample")
    um = fx.impl_fn("Mp4Writer<W>", None, "update_mdat_size")
    wc = fx.impl_fn("Mp4TrackWriter", None, "write_chunk")
    twe = fx.impl_fn("Mp4TrackWriter", None, "write_end")
    tws = fx.impl_fn("Mp4TrackWriter", None, "write_sample")
    # (the private helpers update_mdat_size / write_chunk are not anchors: what they do is read off the effect traces of
    # the public entry points, whatever they are called)
    for nm, f in (("write_start", ws), ("write_end", we), ("write_sample", wsm), ("track write_end", twe)):
        if not chk.anchor("R3", nm, f):
            return chk.finish("other", "anchors missing")

    # ---------------- R1/R2: C04 S1+S2 for encoders in the muxer closure
    ms = c04.models(fx)
    n1 = 0
    nskip = 0
    for ty, m in sorted(ms.items()):
        if not m.fw or m.fw["id"] not in clo:
            continue
        n1 += 1
        s = m.s
        adt = fx.adts.get(ty)
        fixed = {}
        if adt and adt["kind"] == "Struct":
            for fld in adt["variants"][0]["fields"]:
                t = fld["ty"]
                if "array" in t and t.get("len") is not None and t["array"].get("p") == "u8":
                    fixed[fld["name"]] = t["len"]
                if "array" in t and t.get("len") is not None:
                    fixed["#" + fld["name"]] = t["len"]
        bad = None
        ncell = 0
        for cell in m.cells:
            if not cell.get("w_ok", True):
                continue
            ncell += 1
            sw = c04.const_children(fx, adt, L2.tokens_size(fx, cell["w"], fixed))
            sz = c04.const_children(fx, adt, cell["size"])
            if L2.lin_key(sw) != L2.lin_key(sz) and not c04.coupled_away(fx, m, cell, sw, sz) and bad is None:
                bad = (cell["A"], L2.lin_str(sw), L2.lin_str(sz))
        if c04.LEVELS.get(s, 1) >= 3:
            chk.note("%s: size comparison not applied (%s)" % (s, c04.LEVEL_REASON.get(s, "")))
            continue
        if bad is not None:
            u = c04.model_vocab_issue(fx, m, adt, "w")
            if u:
                chk.note("%s: size agreement not decided (the extraction contains `%s`, which is outside the layout vocabulary)" % (s, u))
                chk.ok("R1", s, "not compared: `%s` is outside the layout vocabulary" % u, site_of(m.fw))
                nskip += 1
                continue
        chk.require(bad is None, "R1", s, "declared size == bytes written in %d cells" % ncell,
                    "%s (reachable from the muxer): box_size() is %s but %s bytes are written in cell %s" % (s, bad[2], bad[1], c04.cell_str(bad[0])) if bad else "", site_of(m.fw))
        first = next((x for x in m.Lw["items"] if x["n"] not in ("let",)), None)
        okh = first is not None and first["n"] == "hdr" and first.get("ty") is not None and LY.norm_expr(first["ty"]) in ("self.box_type()", "box_type()")
        chk.require(okh, "R1", s + "|header", "header carries the box's own type and box_size()", "%s::write_box does not start with its own header" % s, site_of(m.fw))
    # the esds descriptors (reachable through Mp4aBox): their sizes enter every enclosing box size through desc_size()
    c04.desc_sizes(fx, chk, "R1", floor=4)
    chk.floor("R1", "encoders reachable from the muxer", n1, 30)
    chk.floor("R1", "encoders whose size was compared", n1 - nskip, 28)

    # ---------------- R3 / R4 / R5: over effect traces of the muxer's public entry points (muxrules M4-M8): every stream
    # operation each entry point can perform is accounted for, whatever private helpers it is split into
    import muxrules
    M = getattr(chk, "_mux", None) or muxrules.Mux(fx)
    chk._mux = M
    M.discover()
    res = []
    M.m8(res)
    for ok_, key_, how_, fn_, line_ in res:
        chk.require(ok_, "R3", key_ if key_ != "patch" else "patch|measure-and-return", how_, how_, site_of(fn_, line_))
    res = []
    M.m7(res)
    for ok_, key_, how_, fn_, line_ in res:
        chk.require(ok_, "R4", key_, how_, how_, site_of(fn_, line_))
    res = []
    M.io_shape(M.tw_sample, res, "write_sample-closure")
    M.io_shape(M.w_sample, res, "write_sample-closure")
    M.m4(M.w_sample, res)
    M.m6(res)
    M.io_shape(M.tw_end, res, "track-write_end")
    seen_ = set()
    for ok_, key_, how_, fn_, line_ in res:
        if (ok_, key_) in seen_:
            continue
        seen_.add((ok_, key_))
        chk.require(ok_, "R5", key_, how_, how_, site_of(fn_, line_))
    # encoders are only entered from write_start / write_end: no codec event in any other entry point's traces (checked by
    # the shapes above); and the functions that call stream *write* methods directly are encoders or lie on those traces
    direct = {}
    for fid in sorted(clo):
        fn = fx.fns[fid]
        body = body_of(fn)
        if body is None:
            continue
        for b_, t_ in body.calls():
            if t_["callee"].get("trait") in WRITE_TRAITS and (t_["callee"].get("path") or "").split("::")[-1] != "flush":
                # flush moves no byte of the output and no position
                direct.setdefault(fid, set()).add((t_["callee"].get("path") or "").split("::")[-1])

    def is_encoder(fid, depth=0):
        if depth < 3 and not _is_encoder0(fid):
            # a private helper of encoders (`Matrix::write`, a shared field writer): every caller is an encoder
            cs = [c for c in cg.callers_of(fid) if c != fid]
            return bool(cs) and all(is_encoder(c, depth + 1) for c in cs)
        return _is_encoder0(fid)

    def _is_encoder0(fid):
        if "::{closure" in fid and fid.split("::{closure")[0] in fx.fns:
            # a closure is part of the function that defines it (a loop body handed to try_for_each, a `then` continuation)
            return is_encoder(fid.split("::{closure")[0])
        if fid not in fx.fns:
            return False
        fn = fx.fns[fid]
        ts = short((fn.get("impl") or {}).get("trait") or "")
        return ts.startswith("WriteBox<") or ts.startswith("WriteDesc<") or fid.endswith("BoxHeader::write") or (fn["kind"] == "Fn" and fn["name"].startswith("write_")) or fn["name"] == "write" and short((fn.get("impl") or {}).get("self_ty", "")) == "NalUnit"
    on_traces = set()
    for fn_ in (M.w_start, M.w_add, M.w_sample, M.w_end, M.tw_sample, M.tw_end):
        for tr in M.traces(fn_):
            for e in tr:
                if e["k"] == "io":
                    on_traces.add(e["fn_id"])
    for fid, ops in sorted(direct.items()):
        if is_encoder(fid):
            chk.ok("R5", fn_short(fid), "box encoder: %s" % sorted(ops), site_of(fx.fns[fid]))
        elif fid in on_traces:
            chk.ok("R5", fn_short(fid), "its stream operations appear on the checked traces of the entry points: %s" % sorted(ops), site_of(fx.fns[fid]))
        else:
            chk.bad("R5", fn_short(fid), "%s writes or seeks the output stream directly (%s) but is neither a box encoder nor part of a checked entry-point trace" % (fn_short(fid), sorted(ops)), site_of(fx.fns[fid]))
    chk.floor("R5", "functions touching the output stream", len(direct), 40)

    # ---------------- R6  (dependencies of the stored values, from the abstract interpreter's provenance: independent of
    # parameter names, temporaries, cast spelling and of whether the total is accumulated or recomputed)
    from absint import Interp
    ud = fx.impl_fn("Mp4TrackWriter", None, "update_durations")
    if chk.anchor("R6", "Mp4TrackWriter::update_durations", ud):
        ub = body_of(ud)
        it = Interp(fx, ub).run()
        # parameters by type: the u32 sample duration and the u32 movie timescale are P2 / P3 in declaration order
        stores = {}
        for b in ub.reach:
            st = it.in_states.get(b)
            if st is None:
                continue
            st = st.copy()
            for i, s_ in enumerate(ub.stmts(b)):
                if s_["k"] == "assign" and s_["place"]["p"] and isinstance(s_["place"]["p"][-1], dict) and s_["place"]["p"][-1].get("f") == "duration" and s_["rv"]["k"] == "use" \
                        and it.norm_target(st, place_key(s_["place"]))[:2] == (1, "deref"):
                    adt = short(s_["place"]["p"][-1].get("adt", ""))
                    sid, lo, hi, prov = it.read_op(st, s_["rv"]["a"], (b, i))
                    stores[adt] = set(prov or ())
                if s_["k"] == "assign":
                    it.assign(st, b, i, s_)
        m = stores.get("MdhdBox", set())
        t = stores.get("TkhdBox", set())
        dur_root = "P2"
        chk.require(dur_root in m and any(r.endswith("mdhd.duration") or r == "F:MdhdBox.duration" for r in m), "R6", "mdhd.duration", "depends on %s" % sorted(m),
                    "mdhd.duration is not stored as previous value + sample duration (depends on %s)" % sorted(m), site_of(ud))
        need_t = dur_root in t and "P3" in t and any(r.endswith("mdhd.timescale") or r == "F:MdhdBox.timescale" for r in t)
        chk.require(need_t, "R6", "tkhd.duration", "depends on %s" % sorted(t),
                    "tkhd.duration does not depend on the sample durations, the movie timescale and the track timescale (depends on %s)" % sorted(t), site_of(ud))
    wud = fx.impl_fn("Mp4Writer<W>", None, "update_durations")
    if wud is not None:
        wb2 = body_of(wud)
        it2 = Interp(fx, wb2).run()
        good = None
        why = "no store to the writer's duration"
        for b in wb2.reach:
            st = it2.in_states.get(b)
            if st is None:
                continue
            st = st.copy()
            for i, s_ in enumerate(wb2.stmts(b)):
                if s_["k"] == "assign" and s_["place"]["p"] and isinstance(s_["place"]["p"][-1], dict) and s_["place"]["p"][-1].get("f") == "duration" and s_["rv"]["k"] == "use" \
                        and it2.norm_target(st, place_key(s_["place"]))[:2] == (1, "deref"):
                    pl = op_place(s_["rv"]["a"])
                    sd = wb2.single_def(pl["l"]) if pl is not None and not pl["p"] else None
                    sid, lo, hi, prov = it2.read_op(st, s_["rv"]["a"], (b, i))
                    prov = set(prov or ())
                    if sd and sd[2] == "call" and strip_generics(sd[3]["callee"].get("path") or "") in ("core::cmp::Ord::max", "core::cmp::max"):
                        ok_ = "P2" in prov and any(r.endswith(".duration") for r in prov)
                        good = ok_ if good is None else (good and ok_)
                        why = "max() of %s" % sorted(prov)
                    else:
                        # plain store of the track duration: must sit under a comparison of it with the old value
                        guarded = False
                        for b0 in wb2.reach:
                            t0 = wb2.term(b0)
                            if t0["k"] == "switch" and wb2.dominates(b0, b) and b0 != b:
                                dp = op_place(t0["discr"])
                                d0 = wb2.single_def(dp["l"]) if dp is not None and not dp["p"] else None
                                if d0 and d0[2] == "assign" and d0[3]["k"] == "bin" and d0[3]["op"] in ("Gt", "Lt", "Ge", "Le"):
                                    txt = wb2.canon_op(d0[3]["a"]) + " " + wb2.canon_op(d0[3]["b"])
                                    guarded = "$2" in txt and ".duration" in txt
                        ok_ = prov == {"P2"} and guarded
                        good = ok_ if good is None else (good and ok_)
                        why = "store of %s %s" % (sorted(prov), "under a comparison with the old value" if guarded else "without a comparison with the old value")
                if s_["k"] == "assign":
                    it2.assign(st, b, i, s_)
        chk.require(bool(good), "R6", "movie duration", "max(old, track duration): %s" % why, "the writer's movie duration is not max(old, track duration): %s" % why, site_of(wud))
    stores = {}
    for tr in M.traces(M.w_end):
        # the header value at the end of the path: later stores / a later struct literal override earlier ones
        cur = {}
        for e in tr:
            if e["k"] == "store" and e["adt"] == "MvhdBox":
                cur[e["field"]] = e["val"]
            if e["k"] == "agg" and str(e.get("adt", "")).endswith("MvhdBox"):
                for fk, fv in (e.get("fields") or {}).items():
                    cur[fk] = fv
        for fk in ("timescale", "duration"):
            if fk in cur:
                stores.setdefault(fk, set()).add(cur[fk])
    chk.require(stores.get("timescale") == {"$1.timescale"} and stores.get("duration") == {"$1.duration"}, "R6", "mvhd", "mvhd.timescale/duration copied from the writer",
                "mvhd.timescale / mvhd.duration are not copied from the writer's fields in write_end (%s)" % {k: sorted(v) for k, v in stores.items()}, site_of(we))
    # ---------------- R7
    import units
    chk.rule("R7", "every store into a sample-table / header field and every operation of the muxer's bookkeeping combines dimensionally compatible quantities")
    units.run_rule(fx, chk, "R7", units.MUXER_ENTRIES, regions=(None,), widths=False, floor=UNITS_FLOOR, what="in the muxer bookkeeping")
    # ---------------- R8 (instances owned by C13)
    chk.rule("R8", "no stored duration / offset is truncated by a narrower wire field (C13 R-CAST, R-STCO instances)")
    import report
    s13 = report.Check("C13")
    s13.finish = lambda *a, **k: 0
    c13.run(fx, s13, tier)
    n8 = 0
    for o in s13.obligations:
        r = o["rule"].split(".floor")[0].split(".anchor")[0]
        if r not in ("R-CAST", "R-STCO"):
            continue
        n8 += 1
        key = "C13:%s|%s" % (o["rule"], o["key"])
        if o["ok"]:
            chk.ok("R8", key, o["how"], o["site"])
        else:
            chk.bad("R8", key, o["how"], o["site"], o.get("detail"))
    chk.floor("R8", "narrowing obligations", n8, 10)
    # ---------------- R9: every table accounts for exactly the samples written (the rule itself lives in c01_tables, owned by C01)
    chk.rule("R9", "count conservation: each run-length table grows by exactly one sample per write_sample; a lazily created table and a back-filled vector cover exactly the samples written before (C01 R7 instances)")
    import c01_tables
    s1 = report.Check("C01")
    s1.finish = lambda *a, **k: 0
    tw = fx.impl_fn("Mp4TrackWriter", None, "write_sample")
    n9 = 0
    if chk.anchor("R9", "Mp4TrackWriter::write_sample", tw):
        c01_tables.run(fx, s1, cg, tw)
        for o in s1.obligations:
            if not o["rule"].startswith("R7"):
                continue
            n9 += 1
            key = "C01:%s|%s" % (o["rule"], o["key"])
            if o["ok"]:
                chk.ok("R9", key, o["how"], o["site"])
            else:
                chk.bad("R9", key, o["how"], o["site"], o.get("detail"))
    chk.floor("R9", "count-conservation obligations", n9, 8)
    return chk.finish(
        "other",
        "Sizes of the %d encoders reachable from the muxer are compared with their layouts in every shape cell; ordering, who-may-write and prologue/patch pairing are dominance and call-graph rules over the muxer closure. "
        "These are necessary conditions of structural validity; numeric totals of the sample tables and the one-tick duration bound are NOT decided." % n1,
    )
