"""C09 — sample lookup in fragmented files follows movie-fragment semantics (thin, explicit).

Decided (structural clauses only):
  R-SIBLING  the fragment-attach code exists twice (Mp4Reader::read_header for fragments that follow the movie header,
             read_fragment_header for a separately opened media segment).  After renaming `self.moov` <-> `moov` the two
             copies must be the same algorithm: same handling of a moof box in the top-level loop (offset captured
             before the box is decoded, offset and box pushed in lock step), the same attach loop (per fragment, per
             track fragment: look up the track by tfhd.track_id, set the movie-level default duration, push offset and
             traf together, error on an unknown track id) and the same source of the movie-level default duration
             (mvex.trex.default_sample_duration).
  R-COUNT    in the fragmented branch the reported sample count depends on trun.sample_count of every attached traf
             (it is accumulated inside the loop over the track fragments).
  R-OFFSET   the offset recorded for a fragment is the position where its header starts (the loop's position variable),
             not `position - 8` (C12-R4 contradiction rule; repaired defect).
  R-FOOT     lower-bound footprints of the fragmented lookups: offset reads tfhd.base_data_offset, the recorded moof
             offset, trun.data_offset and trun.sample_sizes; time reads tfdt, tfhd.default_sample_duration,
             trun.sample_durations and the movie-level default; rendering offset reads trun.sample_cts.
  R-UNITS    dimension and scope typing (rules/units.py) of the fragmented branches of sample_size / sample_offset /
             sample_time / sample_rendering_offset / sample_count and of find_traf_idx_and_sample_idx: base data offset,
             moof offset and base decode time are origins of ONE fragment, the per-run arrays of trun are indexed by a
             run-relative sample index, default durations are per-sample rates; an operation that adds a file-relative
             quantity to a fragment origin, indexes a run array with a file-relative index, mixes bytes with ticks or
             forms a byte / tick product in 32 bits, or compares a run position with the run's count inclusively, is reported.  (Found on the pinned tree and repaired: the
             default-duration start time was (sample_id - 1) * duration added to the fragment's own decode time.)
NOT decided: the values themselves (constants are polymorphic in R-UNITS: off-by-one errors), the duration inheritance
order, and two choices outside the statement that are visible while reading: is_sync for fragments is a heuristic
(`sample_id % n`, dimensionally meaningless and excluded from R-UNITS because C09 says nothing about sync flags), and one
trex is shared by all tracks.
"""
import re

import hirq

UNITS_FLOOR = 88      # dimension checks counted on the pinned tree in the fragmented + common regions
from callgraph import callgraph
from facts import short
from mir import body_of, callee_path, op_place, strip_generics
from panicfree import fn_short
from report import site_of


def moof_arm(fn):
    """body of the `BoxType::MoofBox => {..}` arm of the top-level dispatch"""
    for n, _ in hirq.walk(hirq.body_root(fn)):
        if n.get("k") == "match" and n.get("src") == "match":
            for a in n["arms"]:
                if hirq.pat_str(a["pat"]) == "MoofBox":
                    return a["body"]
    return None


def attach_loop(fn):
    """the `for (moof, moof_offset) in moofs.iter().zip(moof_offsets)` loop"""
    for n, _ in hirq.walk(hirq.body_root(fn)):
        if n.get("k") == "for" and "zip" in hirq.expr_str(n["iter"]) and "moofs" in hirq.expr_str(n["iter"]):
            return n
    return None


def default_duration_source(fn):
    """rendered right-hand sides assigned to the movie-level default duration local"""
    out = []
    for n, _ in hirq.walk(hirq.body_root(fn)):
        if n.get("k") == "assign" and (hirq.path_str(n["l"]) or "") == "default_sample_duration":
            out.append(hirq.dump(n["r"], REN))
    return out


REN = [("self.moov", "moov"), ("self.ftyp", "ftyp")]


def fields_read(fx, cg, fid):
    out = set()
    for f2 in cg.closure([fid]):
        fn = fx.fns[f2]
        body = body_of(fn)
        if body is None or fn.get("derived"):
            continue

        def scan(pl):
            for p in pl["p"]:
                if isinstance(p, dict) and p.get("adt") in fx.adts:
                    out.add("%s.%s" % (short(p["adt"]), p["f"]))
        for b in body.reach:
            for s in body.stmts(b):
                if s["k"] == "assign":
                    rv = s["rv"]
                    for key in ("a", "b"):
                        o = rv.get(key)
                        if isinstance(o, dict):
                            pl = op_place(o)
                            if pl:
                                scan(pl)
                    if "place" in rv:
                        scan(rv["place"])
            t = body.term(b)
            if t["k"] == "call":
                for a in t["args"]:
                    pl = op_place(a)
                    if pl:
                        scan(pl)
    return out


def vec_elem_ty(ty):
    import re
    m = re.match(r"(?:&mut |&)?alloc::vec::Vec<(.+)>$", ty)
    return m.group(1) if m else None


def root_local(body, op, depth=0):
    """the local a `&mut v` / `&v` operand borrows from (through reference temporaries)"""
    pl = op_place(op)
    if pl is None:
        return None, None
    l, proj = pl["l"], list(pl["p"])
    for _ in range(4):
        sd = body.single_def(l)
        if sd and sd[2] == "assign" and sd[3]["k"] == "ref":
            proj = list(sd[3]["place"]["p"]) + [x for x in proj if x != "deref"]
            l = sd[3]["place"]["l"]
        else:
            break
    return l, proj


def fragment_facts(fx, cg, fn):
    """what a top-level open function does with movie fragments, read off its MIR (names, temporaries and helper
    functions do not matter):
      decode        a MoofBox::read_box result is pushed into a local Vec<MoofBox>
      offset        what is pushed into the local Vec<u64> next to it: 'loop-position' when it is the stream position the
                    walk loop holds for the start of the current box (captured before BoxHeader::read), else its rendering
      lockstep      the two local pushes lie on one straight path (each executes iff the other does)
      attach        pushes to <track>.trafs and <track>.moof_offsets lie on one straight path, fed from those two vectors
      lookup        the track is found with get_mut keyed by a value read from tfhd.track_id
      unknown       Error::TrakNotFound is constructed
      default       the fields the value stored into <track>.default_sample_duration is computed from
    """
    import c07
    import loops as LP
    pass
    body = body_of(fn)
    facts = {"decode": False, "offset": None, "lockstep": False, "attach": False, "lookup": False, "unknown": False, "default": None}
    pushes = [(b, t) for b, t in body.calls() if strip_generics(t["callee"].get("path") or "") == "alloc::vec::Vec::push" and len(t["args"]) == 2]
    local_moof = local_off = None
    for b, t in pushes:
        l, proj = root_local(body, t["args"][0])
        ety = vec_elem_ty(body.local_ty(l)) if l is not None and not [x for x in proj if x != "deref"] else None
        if ety and ety.endswith("MoofBox"):
            local_moof = (b, t, l)
        elif ety == "u64":
            local_off = (b, t, l)
    if local_moof:
        b, t, l = local_moof
        vl = op_place(t["args"][1])
        for b2, t2 in body.calls():
            if (callee_path(t2["callee"]) or "").endswith("MoofBox as mp4box::ReadBox<&mut R>>::read_box") and vl is not None and c07.derives_from(body, vl["l"], t2["dest"]["l"]):
                facts["decode"] = True
    def field_elem_ty(proj):
        flds = [x for x in proj if isinstance(x, dict) and "f" in x]
        if len(flds) != 1 or flds[0].get("adt") not in fx.adts:
            return None
        for v in fx.adts[flds[0]["adt"]]["variants"]:
            for f_ in v["fields"]:
                if f_["name"] == flds[0]["f"]:
                    return vec_elem_ty(f_["ty_s"].replace(", alloc::alloc::Global", ""))
        return None

    # the accumulator form: the loop body lives in a same-file helper that pushes into two fields of a `&mut` struct
    # parameter (`acc.moofs.push(moof); acc.moof_offsets.push(current)`); the local accumulator is the struct the open
    # function lends, the pushed offset is what the open function passes for that parameter
    acc_off = None
    if not (local_moof and local_off):
        f0 = (fn.get("span") or {}).get("file")
        for cb, ct in body.calls():
            g = callee_path(ct["callee"])
            gf = fx.fns.get(g)
            gb = body_of(gf) if gf is not None and (gf.get("span") or {}).get("file") == f0 and gf["kind"] != "Closure" else None
            if gb is None:
                continue
            hm = ho = None
            for pb, pt in gb.calls():
                if strip_generics(pt["callee"].get("path") or "") != "alloc::vec::Vec::push" or len(pt["args"]) != 2:
                    continue
                l_, proj_ = root_local(gb, pt["args"][0])
                if l_ is None or not (1 <= l_ <= gb.argc):
                    continue
                ety = field_elem_ty(proj_)
                if ety and ety.endswith("MoofBox"):
                    hm = (pb, pt, l_)
                elif ety == "u64":
                    ho = (pb, pt, l_)
            if not (hm and ho) or hm[2] != ho[2] or hm[2] - 1 >= len(ct["args"]):
                continue
            al, aproj = root_local(body, ct["args"][hm[2] - 1])
            if al is None or [x for x in aproj if x != "deref"]:
                continue
            local_moof, local_off = (cb, ct, al), (cb, ct, al)
            vl = op_place(hm[1]["args"][1])
            for b2, t2 in gb.calls():
                if (callee_path(t2["callee"]) or "").endswith("MoofBox as mp4box::ReadBox<&mut R>>::read_box") and vl is not None and c07.derives_from(gb, vl["l"], t2["dest"]["l"]):
                    facts["decode"] = True
            b1, b2 = hm[0], ho[0]
            acc_lock = (gb.dominates(b1, b2) and b2 in gb.pdom().get(b1, ())) or (gb.dominates(b2, b1) and b1 in gb.pdom().get(b2, ()))
            # the pushed offset: a plain copy of one of the helper's parameters
            facts["offset"] = gb.canon_op(ho[1]["args"][1])
            src = op_place(ho[1]["args"][1])
            src = src["l"] if src is not None and not src["p"] else None
            for _ in range(4):
                sd = gb.single_def(src) if src is not None and src > gb.argc else None
                if sd and sd[2] == "assign" and sd[3]["k"] == "use" and op_place(sd[3]["a"]) is not None and not op_place(sd[3]["a"])["p"]:
                    src = op_place(sd[3]["a"])["l"]
                else:
                    break
            if src is not None and 1 <= src <= gb.argc and not gb.defs().get(src) and src - 1 < len(ct["args"]):
                acc_off = (cb, ct["args"][src - 1], acc_lock)
            break
    if local_off:
        b, t, l = local_off
        if acc_off is not None:
            off_op = acc_off[1]
        elif t["args"] and len(t["args"]) == 2 and strip_generics(t["callee"].get("path") or "") == "alloc::vec::Vec::push":
            off_op = t["args"][1]
        else:
            off_op = None
        if off_op is not None and (acc_off is not None or facts["offset"] is None):
            facts["offset"] = body.canon_op(off_op)
        # the walk loop containing the push and its header read
        ls = LP.inventory(fx, fn["id"])
        inl = [L for L in ls if b in L.blocks]
        hdr = None
        for L in inl:
            for hb, ht in LP.calls_in(body, L.blocks):
                if (callee_path(ht["callee"]) or "").endswith("BoxHeader::read"):
                    hdr = (L, hb)
        vl = op_place(off_op) if off_op is not None else None
        if hdr and vl is not None:
            L, hb = hdr
            # the pushed value must be (a copy of) a value that is defined before the header read on every iteration and
            # derives from stream_position(): either the loop variable re-assigned from stream_position at the end of each
            # iteration or a position taken at the top of the iteration
            src = vl["l"]
            for _ in range(4):
                sd = body.single_def(src)
                if sd and sd[2] == "assign" and sd[3]["k"] == "use" and op_place(sd[3]["a"]) is not None and not op_place(sd[3]["a"])["p"]:
                    src = op_place(sd[3]["a"])["l"]
                else:
                    break
            defs = body.defs().get(src, [])
            from_pos = []
            for (db, di, kind, payload) in defs:
                ops = [payload["a"]] if kind == "assign" and payload["k"] == "use" else []
                for o in ops:
                    pl = op_place(o)
                    if pl is None:
                        continue
                    for pb, pt in body.calls():
                        if strip_generics(pt["callee"].get("path") or "") == "std::io::Seek::stream_position" and c07.derives_from(body, pl["l"], pt["dest"]["l"]):
                            # no arithmetic on the way
                            from_pos.append((db, pb))
            arith = False
            seen = set()
            stack = [src]
            while stack:
                x = stack.pop()
                if x in seen:
                    continue
                seen.add(x)
                for (db, di, kind, payload) in body.defs().get(x, []):
                    if kind == "assign" and payload["k"] == "bin":
                        arith = True
                    if kind == "assign" and payload["k"] in ("use", "cast"):
                        pl = op_place(payload["a"])
                        if pl is not None:
                            stack.append(pl["l"])
                    if kind == "call":
                        p_ = strip_generics(payload["callee"].get("path") or "")
                        if p_.endswith("::box_start"):
                            arith = True
                        elif p_ in ("core::ops::try_trait::Try::branch",):
                            pl = op_place(payload["args"][0])
                            if pl is not None:
                                stack.append(pl["l"])
            # every definition is outside the span between the header read and the push (i.e. the value is the one held at
            # the top of the iteration)
            late = [db for (db, di, kind, payload) in defs if db in L.blocks and body.dominates(hb, db) and body.can_reach(db, b, avoid=[L.head])]
            if len(defs) >= 1 and from_pos and not arith and not late:
                facts["offset"] = "loop-position"
    if acc_off is not None:
        facts["lockstep"] = bool(acc_off[2])
    elif local_moof and local_off:
        b1, b2 = local_moof[0], local_off[0]
        facts["lockstep"] = (body.dominates(b1, b2) and b1 in body.pdom().get(b2, ()) or b2 in body.pdom().get(b1, ())) or (body.dominates(b2, b1) and b2 in body.pdom().get(b1, ()) or b1 in body.pdom().get(b2, ()))
    # attach / lookup / unknown / default: in the open function itself or in a local helper it calls (same source file,
    # not a box decoder), with the helper's parameters mapped back to the arguments at the call site
    def helpers_of(fid0):
        out, seen, stack = [], set(), [fid0]
        f0 = (fn.get("span") or {}).get("file")
        while stack:
            f = stack.pop()
            hb = body_of(fx.fns[f])
            if hb is None:
                continue
            for cb, ct in hb.calls():
                g = callee_path(ct["callee"])
                gf = fx.fns.get(g)
                if gf is None or g in seen or g == fid0 or (gf.get("span") or {}).get("file") != f0 or gf["kind"] == "Closure":
                    continue
                seen.add(g)
                out.append(g)
                stack.append(g)
        return out

    def pushes_in(hbody):
        tr = off = None
        for pb, pt in hbody.calls():
            if strip_generics(pt["callee"].get("path") or "") == "alloc::vec::Vec::push" and len(pt["args"]) == 2:
                l_, proj_ = root_local(hbody, pt["args"][0])
                flds = [x for x in proj_ if isinstance(x, dict) and "f" in x]
                if flds and flds[-1]["f"] == "trafs" and short(flds[-1].get("adt") or "") == "Mp4Track":
                    tr = (pb, pt)
                if flds and flds[-1]["f"] == "moof_offsets" and short(flds[-1].get("adt") or "") == "Mp4Track":
                    off = (pb, pt)
        return tr, off

    def straight(hbody, b1, b2):
        return (hbody.dominates(b1, b2) and b2 in hbody.pdom().get(b1, ())) or (hbody.dominates(b2, b1) and b1 in hbody.pdom().get(b2, ()))

    bodies = [(fn["id"], body)] + [(h, body_of(fx.fns[h])) for h in helpers_of(fn["id"]) if body_of(fx.fns[h]) is not None]
    for hid, hbody in bodies:
        f_tr, f_off = pushes_in(hbody)
        if f_tr and f_off and local_moof and local_off and straight(hbody, f_tr[0], f_off[0]):
            v1, v2 = op_place(f_tr[1]["args"][1]), op_place(f_off[1]["args"][1])
            if v1 is None or v2 is None:
                continue
            if hid == fn["id"]:
                fed = c07.derives_from(hbody, v1["l"], local_moof[2]) and c07.derives_from(hbody, v2["l"], local_off[2])
            else:
                # which parameters of the helper feed the two pushes, and what the open function passes there
                p1 = [pi for pi in range(1, hbody.argc + 1) if c07.derives_from(hbody, v1["l"], pi)]
                p2 = [pi for pi in range(1, hbody.argc + 1) if c07.derives_from(hbody, v2["l"], pi)]
                fed = False
                for cb, ct in body.calls():
                    if callee_path(ct["callee"]) != hid:
                        continue
                    a1 = [op_place(ct["args"][pi - 1]) for pi in p1 if pi - 1 < len(ct["args"])]
                    a2 = [op_place(ct["args"][pi - 1]) for pi in p2 if pi - 1 < len(ct["args"])]
                    if any(x is not None and c07.derives_from(body, x["l"], local_moof[2]) for x in a1) and any(x is not None and c07.derives_from(body, x["l"], local_off[2]) for x in a2):
                        fed = True
            facts["attach"] = facts["attach"] or bool(fed)
        for cb, ct in hbody.calls():
            p_ = strip_generics(ct["callee"].get("path") or "")
            if p_.endswith("HashMap::get_mut") and len(ct["args"]) == 2 and "tfhd.track_id" in hbody.canon_op(ct["args"][1]):
                facts["lookup"] = True
        for bb in hbody.reach:
            for st_ in hbody.stmts(bb):
                if st_["k"] == "assign" and st_["rv"]["k"] == "agg" and st_["rv"].get("variant") == "TrakNotFound":
                    facts["unknown"] = True
                if st_["k"] == "assign" and st_["place"]["p"] and isinstance(st_["place"]["p"][-1], dict) and st_["place"]["p"][-1].get("f") == "default_sample_duration" and short(st_["place"]["p"][-1].get("adt") or "") == "Mp4Track" and st_["rv"]["k"] == "use":
                    srcs = set(value_fields(fx, cg, hbody, st_["rv"]["a"]))
                    if hid != fn["id"]:
                        pl_ = op_place(st_["rv"]["a"])
                        ps = [pi for pi in range(1, hbody.argc + 1) if pl_ is not None and c07.derives_from(hbody, pl_["l"], pi)]
                        for cb, ct in body.calls():
                            if callee_path(ct["callee"]) == hid:
                                for pi in ps:
                                    if pi - 1 < len(ct["args"]):
                                        srcs |= set(value_fields(fx, cg, body, ct["args"][pi - 1]))
                    facts["default"] = sorted(srcs)
    return facts


def value_fields(fx, cg, body, op, depth=0):
    """`Adt.field` names read along the backward slice of an operand, entering local helper functions"""
    out = set()
    seen = set()
    pl0 = op_place(op)
    stack = [pl0["l"]] if pl0 is not None else []
    if pl0 is not None:
        for p_ in pl0["p"]:
            if isinstance(p_, dict) and p_.get("adt") in fx.adts:
                out.add("%s.%s" % (short(p_["adt"]), p_["f"]))
    while stack:
        x = stack.pop()
        if x in seen:
            continue
        seen.add(x)
        for (db, di, kind, payload) in body.defs().get(x, []):
            ops = []
            if kind == "assign":
                rv = payload
                if rv["k"] in ("use", "cast", "un"):
                    ops = [rv["a"]]
                elif rv["k"] == "bin":
                    ops = [rv["a"], rv["b"]]
                elif rv["k"] == "agg":
                    ops = rv["ops"]
                    if rv.get("ak") in ("closure", "coroutine") and rv.get("def") in fx.fns and depth < 2:
                        out |= fields_read(fx, cg, rv["def"])
                elif rv["k"] in ("ref", "discr"):
                    ops = [{"copy": rv["place"]}]
            elif kind == "call":
                ops = payload["args"]
                g = callee_path(payload["callee"])
                if g in fx.fns and depth < 2:
                    out |= fields_read(fx, cg, g)
                # closures without captures are passed as function items
                for a_ in payload["args"]:
                    cf = (a_.get("const") or {}).get("fn") if isinstance(a_, dict) else None
                    if cf in fx.fns and depth < 2:
                        out |= fields_read(fx, cg, cf)
            for o in ops:
                pl = op_place(o)
                if pl is None:
                    continue
                for p_ in pl["p"]:
                    if isinstance(p_, dict) and p_.get("adt") in fx.adts:
                        out.add("%s.%s" % (short(p_["adt"]), p_["f"]))
                stack.append(pl["l"])
    return out


def _own_index(body, op, depth=0):
    """is the operand the first component of the pair find_traf_idx_and_sample_idx returned (followed through copies and
    field / variant projections only)?"""
    from mir import op_place
    pl = op_place(op)
    projs = []
    seen = set()
    while pl is not None and depth < 12:
        depth += 1
        projs = list(pl["p"]) + projs
        l = pl["l"]
        if l in seen:
            return False
        seen.add(l)
        ds = body.defs().get(l, [])
        if len(ds) != 1:
            return False
        b_, i_, kind, payload = ds[0]
        if kind == "call":
            if not (payload["callee"].get("path") or "").endswith("find_traf_idx_and_sample_idx"):
                return False
            fields = [p for p in projs if isinstance(p, dict) and "f" in p]
            # (.. as Some).0 is the pair, its .0 the fragment index
            return len(fields) == 2 and fields[0]["f"] == "0" and fields[1]["f"] == "0" and all(isinstance(p, dict) and ("f" in p or "downcast" in p) for p in projs)
        if kind != "assign" or payload["k"] != "use":
            return False
        pl = op_place(payload["a"])
    return False


def run(fx, chk, tier):
    chk.rule("R-SIBLING", "the two fragment-attach implementations are the same algorithm up to self.moov <-> moov")
    chk.rule("R-COUNT", "the fragmented sample count accumulates trun.sample_count over every attached track fragment")
    chk.rule("R-OFFSET", "the recorded fragment offset is the position where the moof header starts")
    chk.rule("R-FOOT", "fragmented lookups read at least their movie-fragment fields")
    chk.rule("R-INDEX", "the fragment index returned by find_traf_idx_and_sample_idx is a position in self.trafs whose run is present, and it is only applied to trafs / moof_offsets")
    cg = callgraph(fx)
    rh = fx.impl_fn("Mp4Reader<R>", None, "read_header")
    rf = fx.impl_fn("Mp4Reader<R>", None, "read_fragment_header")
    if not (chk.anchor("R-SIBLING", "Mp4Reader::read_header", rh) and chk.anchor("R-SIBLING", "Mp4Reader::read_fragment_header", rf)):
        return chk.finish("other", "anchors missing")
    f1, f2 = fragment_facts(fx, cg, rh), fragment_facts(fx, cg, rf)
    chk.analysed["fragment_facts"] = {"read_header": f1, "read_fragment_header": f2}
    for nm, fct, fn_ in (("read_header", f1, rh), ("read_fragment_header", f2, rf)):
        chk.require(fct["decode"] and fct["lockstep"], "R-SIBLING", "moof-arm|lockstep|" + nm, "decoded moof and its offset are pushed together",
                    "%s does not push every decoded moof together with its offset (decode=%s, lockstep=%s)" % (nm, fct["decode"], fct["lockstep"]), site_of(fn_))
        chk.require(fct["offset"] == "loop-position", "R-OFFSET", "moof_offset|" + nm, "recorded offset = the walk loop's position of the box start",
                    "the fragment offset is recorded as `%s`, not as the position the walk loop holds for the start of the box header" % fct["offset"], site_of(fn_))
        chk.require(fct["attach"] and fct["lookup"] and fct["unknown"], "R-SIBLING", "attach-loop|content|" + nm, "lookup by tfhd.track_id, lock-step pushes fed from the collected fragments, error on unknown id",
                    "%s: attach step incomplete (fed lock-step pushes=%s, lookup by tfhd.track_id=%s, unknown-track error=%s)" % (nm, fct["attach"], fct["lookup"], fct["unknown"]), site_of(fn_))
    core1 = {k: v for k, v in f1.items() if k != "default"}
    core2 = {k: v for k, v in f2.items() if k != "default"}
    chk.require(core1 == core2, "R-SIBLING", "agreement", "both entry points handle fragments alike", "the two fragment-attach implementations differ: read_header %s, read_fragment_header %s" % (core1, core2), site_of(rf))
    for nm, fct, fn_ in (("read_header", f1, rh), ("read_fragment_header", f2, rf)):
        d = fct["default"] or []
        chk.require("TrexBox.default_sample_duration" in d, "R-SIBLING", "default-duration|" + nm, "movie-level default duration read from mvex.trex.default_sample_duration",
                    "%s: the movie-level default duration is computed from %s, not from mvex.trex.default_sample_duration" % (nm, d), site_of(fn_))
    # ---------------- R-COUNT
    fcn = fx.impl_fn("Mp4Track", None, "sample_count")
    if chk.anchor("R-COUNT", "Mp4Track::sample_count", fcn):
        # the accumulation may live in a helper whose result sample_count returns unchanged
        import c03 as _c03
        cands = _c03.tail_delegates(fx, fcn)
        fcn_acc = fcn
        for f2 in cands:
            if body_of(f2) is not None and body_of(f2).loops():
                fcn_acc = f2
                break
        body = body_of(fcn_acc)
        adds = []

        def reads_run_count(op):
            return "trun.sample_count" in body.op_str(op) or "TrunBox.sample_count" in body.canon_op(op) or ".sample_count" in body.canon_op(op) and "trun" in body.canon_op(op).lower()
        for b, t in body.calls():
            p = (t["callee"].get("path") or "").split("::")[-1]
            if p in ("checked_add", "saturating_add", "wrapping_add", "add", "add_assign") and any(reads_run_count(a) for a in t["args"]):
                adds.append(b)
        for b in range(body.n):
            for st_ in body.stmts(b):
                if st_["k"] == "assign" and st_["rv"]["k"] in ("bin", "checked") and st_["rv"].get("op") in ("Add", "AddWithOverflow", "AddUnchecked") and any(reads_run_count(st_["rv"][x]) for x in ("a", "b")):
                    adds.append(b)
        loops = [l for l in body.loops() if adds and adds[0] in l["body"]]
        ok = len(adds) == 1 and bool(loops)
        fold_ok = False
        if not ok:
            # the accumulation written as a fold / sum over the fragments: the receiver is an iterator over self.trafs and
            # the folding closure adds the run's sample_count to its accumulator
            for f2 in cands:
                b2 = body_of(f2)
                if b2 is None:
                    continue
                for blk, t in b2.calls():
                    tail = (t["callee"].get("path") or "").split("::")[-1]
                    if tail not in ("fold", "sum", "try_fold") or not t["args"] or ".trafs" not in b2.canon_op(t["args"][0]):
                        continue
                    clos = [(a.get("const") or {}).get("fn") for a in t["args"] if isinstance(a, dict) and (a.get("const") or {}).get("fn") in fx.fns]
                    for a in t["args"]:
                        pl = op_place(a)
                        sd = b2.single_def(pl["l"]) if pl is not None and not pl["p"] else None
                        if sd and sd[2] == "assign" and sd[3]["k"] == "agg" and sd[3].get("ak") == "closure" and sd[3].get("def") in fx.fns:
                            clos.append(sd[3]["def"])
                    for c in clos:
                        cb = body_of(fx.fns[c])
                        if cb is None:
                            continue
                        for cblk, ct in cb.calls():
                            ctail = (ct["callee"].get("path") or "").split("::")[-1]
                            if ctail in ("checked_add", "saturating_add", "wrapping_add", "add") and any(".sample_count" in cb.canon_op(a) or "sample_count" in cb.op_str(a) for a in ct["args"]):
                                fold_ok = True
                        for cblk in cb.reach:
                            for st_ in cb.stmts(cblk):
                                if st_["k"] == "assign" and st_["rv"]["k"] in ("bin", "checked") and st_["rv"].get("op") in ("Add", "AddWithOverflow", "AddUnchecked") and any("sample_count" in cb.op_str(st_["rv"][x]) for x in ("a", "b")):
                                    fold_ok = True
                    if tail == "sum" and "sample_count" in b2.canon_op(t["args"][0]):
                        fold_ok = True
        if ok:
            import loops as LP
            ls = LP.inventory(fx, fcn_acc["id"])
            L = [l for l in ls if adds[0] in l.blocks][0]
            nb, nt = LP.driver_next_call(body, L, ls)
            ok = nt is not None and "TrafBox" in (nt["callee"].get("full") or "")
        ok = ok or fold_ok
        chk.require(ok, "R-COUNT", "sample_count", "sum of trun.sample_count over the loop on self.trafs", "the fragmented sample count does not accumulate trun.sample_count over all track fragments", site_of(fcn))

    # ---------------- R-FOOT
    foot = {
        "sample_offset": ["TfhdBox.base_data_offset", "Mp4Track.moof_offsets", "TrunBox.data_offset", "TrunBox.sample_sizes"],
        "sample_time": ["TfdtBox.base_media_decode_time", "TfhdBox.default_sample_duration", "TrunBox.sample_durations", "Mp4Track.default_sample_duration"],
        "sample_rendering_offset": ["TrunBox.sample_cts"],
        "sample_size": ["TrunBox.sample_sizes"],
    }
    for nm, need in foot.items():
        fn = fx.impl_fn("Mp4Track", None, nm)
        if not chk.anchor("R-FOOT", "Mp4Track::" + nm, fn):
            continue
        rd = fields_read(fx, cg, fn["id"])
        missing = [x for x in need if x not in rd]
        chk.require(not missing, "R-FOOT", nm, "reads %s" % need, "%s does not consult %s" % (nm, missing), site_of(fn))
    # ---------------- R-INDEX: the fragment index handed to every fragmented lookup is a position in self.trafs (the
    # vector moof_offsets is pushed in lock step with), and the fragment at that position has a run
    import lookup_post
    r = lookup_post.check(fx, "find_traf_idx_and_sample_idx")
    if chk.anchor("R-INDEX", "Mp4Track::find_traf_idx_and_sample_idx", r.get("fn")):
        chk.require(r["ok"], "R-INDEX", "position", "returned fragment index is a position in self.trafs (%s)" % r["why"],
                    "find_traf_idx_and_sample_idx returns a fragment index that is not a position in self.trafs (%s): trafs[idx], moof_offsets[idx] and the run it was found in no longer belong together" % r["why"], site_of(r["fn"]))
        chk.require(bool(r["present"]), "R-INDEX", "run-present", "the run of trafs[idx] was tested to be present on every returning path",
                    "a returned index can name a track fragment without a run (trun)", site_of(r["fn"]))
        # every user of the index applies it to self.trafs / self.moof_offsets only
        users = 0
        for nm in ("sample_offset", "sample_size", "sample_time", "sample_rendering_offset"):
            fn = fx.impl_fn("Mp4Track", None, nm)
            b = body_of(fn) if fn else None
            if b is None:
                continue
            for blk, t in b.calls():
                if (t["callee"].get("path") or "").endswith("Index::index") and len(t["args"]) == 2 and b.op_str(t["args"][1]) == "traf_idx":
                    users += 1
                    base = b.op_str(t["args"][0])
                    chk.require(base in ("self.trafs", "self.moof_offsets"), "R-INDEX", "%s|use|%s" % (nm, base), "index applied to %s" % base,
                                "%s applies the fragment index to %s" % (nm, base), site_of(fn, t.get("line")))
        chk.floor("R-INDEX", "uses of the fragment index", users, 5)
    # ---------------- R-OWNFRAG: a lookup for sample k consults the fragment k lies in, and no other
    chk.rule("R-OWNFRAG", "bytes, size, timing and composition offset of a sample are computed from the track fragment the sample lies in: every element of self.trafs / self.moof_offsets a lookup touches is the one at the index find_traf_idx_and_sample_idx returned")
    nown = 0
    NAMED = ("sample_offset", "sample_size", "sample_time", "sample_rendering_offset", "find_traf_idx_and_sample_idx", "sample_count", "read_sample", "is_sync_sample")

    def with_helpers(fn0):
        """the lookup and the private Mp4Track helpers it is split into (other named lookups are judged on their own)"""
        out, todo = [], [fn0]
        while todo:
            f = todo.pop()
            if f is None or f in out or body_of(f) is None:
                continue
            out.append(f)
            for _b, t_ in body_of(f).calls():
                g = fx.fns.get(callee_path(t_["callee"]) or "")
                if g is not None and short((g.get("impl") or {}).get("self_ty", "")) == "Mp4Track" and g["name"] not in NAMED:
                    todo.append(g)
        return out
    for nm, fn in [(nm, f2) for nm in ("sample_offset", "sample_size", "sample_time", "sample_rendering_offset") for f2 in with_helpers(fx.impl_fn("Mp4Track", None, nm))]:
        b = body_of(fn) if fn else None
        if b is None:
            continue
        for blk, t in b.calls():
            if not t["args"]:
                continue
            base = b.op_str(t["args"][0])
            import re as _re
            if not _re.fullmatch(r"(?:[\w:<>, ]*(?:deref|as_slice|as_ref|borrow|iter)\()*&?\(?\*?self\.(trafs|moof_offsets)\)*", base):
                continue
            tail = (t["callee"].get("path") or "").split("::")[-1]
            if tail in ("is_empty", "len", "deref", "as_slice", "as_ref", "borrow", "capacity"):
                continue
            nown += 1
            key = "%s|%s|%s" % (nm, "trafs" if "trafs" in base else "moof_offsets", tail)
            if tail in ("index", "get", "get_unchecked") and len(t["args"]) == 2:
                own = _own_index(b, t["args"][1])
                chk.require(own, "R-OWNFRAG", key, "element at the index returned by find_traf_idx_and_sample_idx",
                            "%s reads %s at `%s`, which is not the index of the fragment the sample lies in: the result depends on another fragment (a later one may not have arrived yet)" % (nm, base, b.op_str(t["args"][1])),
                            site_of(fn, t.get("line")))
            else:
                chk.bad("R-OWNFRAG", key, "%s reaches into %s with %s(): the result depends on fragments other than the one the sample lies in" % (nm, base, tail), site_of(fn, t.get("line")))
    chk.floor("R-OWNFRAG", "fragment element accesses in the lookups", nown, 5)
    # ---------------- R-FILEORDER: fragments stay in the order in which they appear in the file
    chk.rule("R-FILEORDER", "movie fragments, their offsets and the per-track fragment lists are kept in file order: in the whole program no reordering or removing operation is applied to a sequence of MoofBox / TrafBox / (MoofBox, offset) elements, and the fragment lists only grow by push / extend (sample ids of a fragmented track count fragments in file order, and what a prefix of the file yields is a prefix of what the file yields)")
    REORDER = ("sort", "sort_by", "sort_by_key", "sort_by_cached_key", "sort_unstable", "sort_unstable_by", "sort_unstable_by_key", "reverse", "swap", "swap_remove",
               "rotate_left", "rotate_right", "retain", "retain_mut", "dedup", "dedup_by", "dedup_by_key", "remove", "insert", "drain", "truncate", "pop", "split_off", "splice",
               "select_nth_unstable", "select_nth_unstable_by_key", "select_nth_unstable_by")
    FRAGTY = ("MoofBox", "TrafBox")
    nfo = 0
    npush = 0
    for fid, fn in sorted(fx.fns.items()):
        b = body_of(fn)
        if b is None or fn.get("derived") or "tests::" in fid:
            continue
        for blk, t in b.calls():
            path_ = t["callee"].get("path") or ""
            full_ = t["callee"].get("full") or ""
            tail = strip_generics(path_).split("::")[-1]
            recv_ty = ""
            if t["args"]:
                pl_ = op_place(t["args"][0])
                recv_ty = str((pl_ or {}).get("ty") or "")
            frag_seq = any(x in recv_ty for x in FRAGTY) and ("Vec<" in recv_ty or "[" in recv_ty or "Iter<" in recv_ty or "IntoIter<" in recv_ty or "Zip<" in recv_ty)
            offs = bool(t["args"]) and ("moof_offsets" in b.op_str(t["args"][0]))
            if not (frag_seq or offs):
                # the element type may only show in the instantiation (`<[(MoofBox, u64)]>::sort_by_key::<..>`)
                frag_seq = any(x in full_.split("::" + tail)[0] for x in FRAGTY) and tail in REORDER and ("slice" in path_ or "Vec" in path_ or "iter" in path_.lower())
            if not (frag_seq or offs):
                continue
            if tail in ("push", "extend", "extend_from_slice"):
                npush += 1
            if tail in REORDER:
                nfo += 1
                chk.bad("R-FILEORDER", "%s|%s" % (fn_short(fid), tail), "%s applies %s() to a sequence of movie-fragment data (%s): fragments no longer stay in file order" % (fn_short(fid), tail, (recv_ty or full_)[:80]), site_of(fn, t.get("line")))
    if not nfo:
        chk.ok("R-FILEORDER", "program", "no reordering / removing call on a fragment sequence in %d bodies; %d growth sites" % (len(fx.fns), npush), site_of(fx.impl_fn("Mp4Reader<R>", None, "read_header")))
    chk.floor("R-FILEORDER", "growth sites (push / extend) of fragment sequences", npush, 3)
    # ---------------- R-SCANLEN: the length the header scan walked decides nothing about samples
    chk.rule("R-SCANLEN", "Mp4Reader.size (the number of bytes the top-level scan walked, which stops at a size-0 box and does not count what a later fragment read adds) is read only by the size() accessor: no lookup or sample read accepts, rejects or clips a sample by it (a sample of an open-ended final mdat lies beyond it)")
    nscan = 0
    import c14 as _c14
    for fid, fn in sorted(fx.fns.items()):
        b = body_of(fn)
        if b is None or fn.get("derived") or "tests::" in fid:
            continue
        hits = []
        for blk in b.reach:
            for st_ in b.stmts(blk):
                if st_["k"] != "assign":
                    continue
                rv = st_["rv"]
                pls = [op_place(o) for o in _c14.ops_of(rv)]
                if rv["k"] in ("ref", "discr", "len"):
                    pls.append(rv.get("place"))
                hits += [pl for pl in pls if pl and _c14.place_has(pl, "Mp4Reader", "size")]
            t = b.term(blk)
            if t["k"] == "call":
                hits += [pl for pl in (op_place(a) for a in t["args"]) if pl and _c14.place_has(pl, "Mp4Reader", "size")]
        if not hits:
            continue
        nscan += 1
        is_acc = fn["name"] == "size" and short((fn.get("impl") or {}).get("self_ty", "")).startswith("Mp4Reader")
        chk.require(is_acc, "R-SCANLEN", fn_short(fid), "the size() accessor", "%s reads Mp4Reader.size, the length of the top-level scan: what it computes depends on where the scan stopped, not on the sample tables" % fn_short(fid), site_of(fn))
    chk.floor("R-SCANLEN", "functions reading Mp4Reader.size", nscan, 1)
    # ---------------- R-BASE: the moof start is only the fallback of the explicit base data offset
    chk.rule("R-BASE", "the start of the enclosing movie fragment is used as the base of a sample's offset only when the tfhd carries no explicit base data offset: every use of moof_offsets[idx] is the default of `tfhd.base_data_offset` (unwrap_or / map_or / the None side of a test of that field)")
    nbase = 0
    for fn in with_helpers(fx.impl_fn("Mp4Track", None, "sample_offset")):
        b = body_of(fn)
        if b is None:
            continue
        import c03 as _c03b
        sws = _c03b.opt_field_switches(b, "base_data_offset")
        for blk, t in b.calls():
            tail = (t["callee"].get("path") or "").split("::")[-1]
            if tail not in ("index", "get", "get_unchecked") or not t["args"] or "self.moof_offsets" not in b.op_str(t["args"][0]):
                continue
            nbase += 1
            rendered = b.op_str({"copy": t["dest"]}) if not t["dest"]["p"] else None
            ok, how = False, "its value is not the default of tfhd.base_data_offset"
            # (a) the default argument of an Option combinator on tfhd.base_data_offset
            for b2, t2 in b.calls():
                tl2 = (t2["callee"].get("path") or "").split("::")[-1]
                if tl2 in ("unwrap_or", "map_or", "unwrap_or_else", "or", "map_or_else") and len(t2["args"]) >= 2 and "Option" in (t2["callee"].get("path") or ""):
                    recv = b.canon_op(t2["args"][0])
                    dflt = b.canon_op(t2["args"][1])
                    if recv.rstrip(")").endswith("tfhd.base_data_offset") and ".moof_offsets" in dflt and (b2 == blk or b.can_reach(blk, b2)):
                        # and no other consumer of the loaded value
                        ok, how = True, "default of %s.%s(..)" % (recv.split(".")[-1], tl2)
            # (b) evaluated only on the None side of a test of the field
            for (sb, none_t, some_t) in sws:
                if none_t is not None and (none_t == blk or b.dominates(none_t, blk)) and (some_t is None or not (some_t == blk or b.can_reach(some_t, blk, avoid=[sb]))):
                    ok, how = True, "evaluated on the None side of the test of tfhd.base_data_offset"
            # other uses of the same element on paths that do not go through the combinator: a second Index call is a second instance
            if ok and how.startswith("default of"):
                cons = [b2 for b2, t2 in b.calls() if b2 != blk and any(".moof_offsets" in b.canon_op(a) and "Index::index(" in b.canon_op(a) for a in t2["args"])]
                ok = len(cons) <= 1 or all((t3["callee"].get("path") or "").split("::")[-1] in ("unwrap_or", "map_or", "unwrap_or_else", "or", "map_or_else") for b3, t3 in b.calls() if b3 in cons)
            chk.require(ok, "R-BASE", "%s|moof_offsets|%d" % (fn["name"], nbase), how,
                        "%s takes the start of the movie fragment as the base although %s: with an explicit base data offset in the tfhd the sample is read from the wrong place" % (fn["name"], how), site_of(fn, t.get("line")))
    chk.floor("R-BASE", "uses of the fragment start as a base", nbase, 1)
    # ---------------- R-FRESH: the tracks of a newly opened reader start without fragments
    chk.rule("R-FRESH", "every Mp4Track of a reader being opened is built from its trak box (From<&TrakBox>), never copied from a reader that may already hold fragments")
    from packs_common import reader_entries
    pass
    rclo = cg.closure(reader_entries(fx))
    nfresh = 0
    for nm, fn_ in (("read_header", rh), ("read_fragment_header", rf)):
        f0_ = (fn_.get("span") or {}).get("file")
        sub, stack_ = [], [fn_["id"]]
        while stack_:
            cur_ = stack_.pop()
            if cur_ in sub:
                continue
            sub.append(cur_)
            stack_.extend(k for k in fx.fns if k.startswith(cur_ + "::{closure"))
            cb_ = body_of(fx.fns[cur_])
            if cb_ is not None:
                for bb, t in cb_.calls():
                    g_ = callee_path(t["callee"])
                    if g_ in fx.fns and (fx.fns[g_].get("span") or {}).get("file") == f0_:
                        stack_.append(g_)
        built = False
        for fid in sub:
            b_ = body_of(fx.fns[fid])
            if b_ is None:
                continue
            for bb, t in b_.calls():
                cid = callee_path(t["callee"])
                cf = fx.fns.get(cid)
                # a constructor of Mp4Track from a trak box: an associated function (inherent or From impl) that takes a
                # &TrakBox and returns Mp4Track
                if cf is not None and short((cf.get("impl") or {}).get("self_ty", "")) == "Mp4Track" and any("TrakBox" in str(x) for x in (cf.get("inputs_s") or cf.get("inputs") or [])) \
                        and "Mp4Track" in str(cf.get("output_s") or cf.get("output") or "Self").replace("Self", "Mp4Track"):
                    built = True
        nfresh += 1
        chk.require(built, "R-FRESH", nm + "|built-from-trak", "tracks are constructed with Mp4Track::from(&TrakBox)", "%s does not build its tracks from the trak boxes with Mp4Track::from" % nm, site_of(fn_))
    for fid in sorted(rclo):
        b_ = body_of(fx.fns[fid])
        if b_ is None or fx.fns[fid].get("derived"):
            continue
        for bb, t in b_.calls():
            full_ = t["callee"].get("full") or ""
            cloned = full_.split(" as core::clone::Clone")[0].lstrip("<")
            # the type being cloned, with references to tracks removed (cloning an `Option<&Mp4Track>` copies a pointer)
            import re as _re
            owned = _re.sub(r"&(?:'[\w_]+ )?(?:mut )?(?:track::)?Mp4Track", "", cloned)
            if strip_generics(t["callee"].get("path") or "") == "core::clone::Clone::clone" and "Mp4Track" in owned:
                chk.bad("R-FRESH", "%s|clone" % short(fid), "a track (or the track table) is cloned: fragments already attached to the source reader would be carried into the new one and numbered before the segment's own runs", site_of(fx.fns[fid], t.get("line")))
    chk.floor("R-FRESH", "open functions checked", nfresh, 2)
    # ---------------- R-UNITS
    import units
    chk.rule("R-UNITS", "every operation of the fragmented lookup branches combines dimensionally compatible quantities (units, absolute/relative, file/fragment scope, 64-bit sums)")
    units.run_rule(fx, chk, "R-UNITS", [("Mp4Track", "read_sample"), ("Mp4Track", "sample_offset"), ("Mp4Track", "sample_count")], regions=("frag", None),
                   exclude={("Mp4Track::is_sync_sample", "frag")}, floor=UNITS_FLOOR, what="in the fragmented lookups")
    return chk.finish(
        "other",
        "Sibling agreement of the two attach implementations (normalised HIR equality), the count accumulation, the recorded-offset source, lower-bound field footprints and the dimensional consistency "
        "(units, absolute/relative, file/fragment scope, 64-bit arithmetic) of every operation in the fragmented lookup branches are decided. The values the formulas produce are NOT decided (constants are polymorphic in the typing).",
    )
