"""C09 — sample lookup in fragmented files follows movie-fragment semantics (thin, explicit).

Decided (structural clauses only):
  R-SIBLING  the fragment-attach code exists twice (Mp4Reader::read_header for fragments that follow the movie header,
             read_fragment_header for a separately opened media segment).  After renaming `self.moov` <-> `moov` the two
             copies must be the same algorithm: same handling of a moof box in the top-level loop (offset captured
             before the box is decoded, offset and box pushed in lock step), the same attach loop (per fragment, per
             track fragment: look up the track by tfhd.track_id, set the movie-level default duration, push offset and
             traf together, error on an unknown track id) and the same source of the movie-level default duration
             (mvex.trex.default_sample_duration).
  R-COUNT    in the fragmented branch the reported sample count depends on trun.sample_count of every attached traf
             (it is accumulated inside the loop over the track fragments).
  R-OFFSET   the offset recorded for a fragment is the position where its header starts (the loop's position variable),
             not `position - 8` (C12-R4 contradiction rule; repaired defect).
  R-FOOT     lower-bound footprints of the fragmented lookups: offset reads tfhd.base_data_offset, the recorded moof
             offset, trun.data_offset and trun.sample_sizes; time reads tfdt, tfhd.default_sample_duration,
             trun.sample_durations and the movie-level default; rendering offset reads trun.sample_cts.
NOT decided: the offset/time arithmetic, duration inheritance order, and the known questionable choices visible while
reading (start time under default durations uses the global sample index, is_sync for fragments is a heuristic, one
trex is shared by all tracks) - these are value-level relations with no static argument in reach.
"""
import re

import hirq
from callgraph import callgraph
from facts import short
from mir import body_of, callee_path, op_place
from report import site_of


def moof_arm(fn):
    """body of the `BoxType::MoofBox => {..}` arm of the top-level dispatch"""
    for n, _ in hirq.walk(hirq.body_root(fn)):
        if n.get("k") == "match" and n.get("src") == "match":
            for a in n["arms"]:
                if hirq.pat_str(a["pat"]) == "MoofBox":
                    return a["body"]
    return None


def attach_loop(fn):
    """the `for (moof, moof_offset) in moofs.iter().zip(moof_offsets)` loop"""
    for n, _ in hirq.walk(hirq.body_root(fn)):
        if n.get("k") == "for" and "zip" in hirq.expr_str(n["iter"]) and "moofs" in hirq.expr_str(n["iter"]):
            return n
    return None


def default_duration_source(fn):
    """rendered right-hand sides assigned to the movie-level default duration local"""
    out = []
    for n, _ in hirq.walk(hirq.body_root(fn)):
        if n.get("k") == "assign" and (hirq.path_str(n["l"]) or "") == "default_sample_duration":
            out.append(hirq.dump(n["r"], REN))
    return out


REN = [("self.moov", "moov"), ("self.ftyp", "ftyp")]


def fields_read(fx, cg, fid):
    out = set()
    for f2 in cg.closure([fid]):
        fn = fx.fns[f2]
        body = body_of(fn)
        if body is None or fn.get("derived"):
            continue

        def scan(pl):
            for p in pl["p"]:
                if isinstance(p, dict) and p.get("adt") in fx.adts:
                    out.add("%s.%s" % (short(p["adt"]), p["f"]))
        for b in body.reach:
            for s in body.stmts(b):
                if s["k"] == "assign":
                    rv = s["rv"]
                    for key in ("a", "b"):
                        o = rv.get(key)
                        if isinstance(o, dict):
                            pl = op_place(o)
                            if pl:
                                scan(pl)
                    if "place" in rv:
                        scan(rv["place"])
            t = body.term(b)
            if t["k"] == "call":
                for a in t["args"]:
                    pl = op_place(a)
                    if pl:
                        scan(pl)
    return out


def run(fx, chk, tier):
    chk.rule("R-SIBLING", "the two fragment-attach implementations are the same algorithm up to self.moov <-> moov")
    chk.rule("R-COUNT", "the fragmented sample count accumulates trun.sample_count over every attached track fragment")
    chk.rule("R-OFFSET", "the recorded fragment offset is the position where the moof header starts")
    chk.rule("R-FOOT", "fragmented lookups read at least their movie-fragment fields")
    chk.rule("R-INDEX", "the fragment index returned by find_traf_idx_and_sample_idx is a position in self.trafs whose run is present, and it is only applied to trafs / moof_offsets")
    cg = callgraph(fx)
    rh = fx.impl_fn("Mp4Reader<R>", None, "read_header")
    rf = fx.impl_fn("Mp4Reader<R>", None, "read_fragment_header")
    if not (chk.anchor("R-SIBLING", "Mp4Reader::read_header", rh) and chk.anchor("R-SIBLING", "Mp4Reader::read_fragment_header", rf)):
        return chk.finish("other", "anchors missing")
    a1, a2 = moof_arm(rh), moof_arm(rf)
    if chk.anchor("R-SIBLING", "moof arm in both top-level loops", a1 and a2):
        d1, d2 = hirq.alpha(a1, REN), hirq.alpha(a2, REN)
        chk.require(d1 == d2, "R-SIBLING", "moof-arm", d1[:160], "the two top-level loops handle a moof box differently:\n    read_header:          %s\n    read_fragment_header: %s" % (d1, d2), site_of(rf))
        # lock-step pushes and offset captured before decoding
        stmts = [hirq.dump(s, REN) for s in (a1.get("stmts", []) if a1.get("k") == "block" else [])]
        idx_off = next((i for i, s in enumerate(stmts) if s.startswith("let moof_offset")), None)
        idx_dec = next((i for i, s in enumerate(stmts) if "MoofBox::read_box" in s or "read_box" in s), None)
        pushes = [s for s in stmts if ".push(" in s]
        ok = idx_off is not None and idx_dec is not None and idx_off < idx_dec and len(pushes) == 2 and any("moofs.push" in p for p in pushes) and any("moof_offsets.push" in p for p in pushes)
        chk.require(ok, "R-SIBLING", "moof-arm|lockstep", "offset taken before decoding; moofs and moof_offsets pushed together", "the moof arm does not capture the offset before decoding the box and push box and offset together: %s" % stmts, site_of(rh))
        # R-OFFSET
        for fn_ in (rh, rf):
            arm = moof_arm(fn_)
            # the loop's position variable = left operand of the enclosing `while <pos> < size`
            posvar = None
            for n, ps in hirq.walk(hirq.body_root(fn_)):
                if n is arm:
                    for p_ in reversed(ps):
                        if p_.get("k") == "while" and p_["cond"].get("k") == "bin" and p_["cond"]["op"] == "Lt":
                            posvar = hirq.path_str(p_["cond"]["l"])
                            break
            offlet = None
            pushed = None
            for m, _ in hirq.walk(arm):
                if m.get("k") == "mcall" and m["m"] == "push" and (hirq.path_str(m["recv"]) or "").endswith("offsets") and m["args"]:
                    pushed = hirq.path_str(m["args"][0])
            for m, _ in hirq.walk(arm):
                if m.get("k") == "let" and m["pat"].get("k") == "bind" and m["pat"]["name"] == pushed and "init" in m:
                    offlet = m["init"]
            src = hirq.path_str(offlet) if offlet is not None and offlet.get("k") == "path" else (hirq.expr_str(offlet) if offlet is not None else None)
            chk.require(posvar is not None and src == posvar, "R-OFFSET", "moof_offset|" + fn_["name"], "recorded offset = loop position variable `%s`" % posvar,
                        "the fragment offset is recorded as `%s`, not as the position where the box header starts (`%s`)" % (src, posvar), site_of(fn_))
    l1, l2 = attach_loop(rh), attach_loop(rf)
    if chk.anchor("R-SIBLING", "attach loop in both functions", l1 and l2):
        d1, d2 = hirq.alpha(l1, REN), hirq.alpha(l2, REN)
        d1n = hirq.dump(l1, REN)
        chk.require(d1 == d2, "R-SIBLING", "attach-loop", d1[:200], "the two attach loops differ:\n    read_header:          %s\n    read_fragment_header: %s" % (d1, d2), site_of(rf))
        need = ["tfhd.track_id", "get_mut", "default_sample_duration = default_sample_duration", "moof_offsets.push(moof_offset)", "trafs.push(", "TrakNotFound"]
        need = ["tfhd.track_id", "get_mut", "default_sample_duration", "moof_offsets.push(", "trafs.push(", "TrakNotFound"]
        missing = [x for x in need if x not in d1n]
        chk.require(not missing, "R-SIBLING", "attach-loop|content", "lookup by tfhd.track_id, default duration, lock-step pushes, error on unknown id", "the attach loop lacks %s" % missing, site_of(rh))
    s1, s2 = default_duration_source(rh), default_duration_source(rf)
    chk.require(s1 == s2 == ["mvex.trex.default_sample_duration"], "R-SIBLING", "default-duration", "mvex.trex.default_sample_duration in both",
                "the movie-level default duration comes from %s in read_header and %s in read_fragment_header" % (s1, s2), site_of(rf))

    # ---------------- R-COUNT
    fcn = fx.impl_fn("Mp4Track", None, "sample_count")
    if chk.anchor("R-COUNT", "Mp4Track::sample_count", fcn):
        body = body_of(fcn)
        adds = []
        for b, t in body.calls():
            p = t["callee"].get("path") or ""
            if p.endswith("checked_add") and "trun.sample_count" in body.op_str(t["args"][1]):
                adds.append(b)
        loops = [l for l in body.loops() if adds and adds[0] in l["body"]]
        ok = len(adds) == 1 and bool(loops)
        if ok:
            import loops as LP
            ls = LP.inventory(fx, fcn["id"])
            L = [l for l in ls if adds[0] in l.blocks][0]
            nb, nt = LP.driver_next_call(body, L, ls)
            ok = nt is not None and "TrafBox" in (nt["callee"].get("full") or "")
        chk.require(ok, "R-COUNT", "sample_count", "sum of trun.sample_count over the loop on self.trafs", "the fragmented sample count does not accumulate trun.sample_count over all track fragments", site_of(fcn))

    # ---------------- R-FOOT
    foot = {
        "sample_offset": ["TfhdBox.base_data_offset", "Mp4Track.moof_offsets", "TrunBox.data_offset", "TrunBox.sample_sizes"],
        "sample_time": ["TfdtBox.base_media_decode_time", "TfhdBox.default_sample_duration", "TrunBox.sample_durations", "Mp4Track.default_sample_duration"],
        "sample_rendering_offset": ["TrunBox.sample_cts"],
        "sample_size": ["TrunBox.sample_sizes"],
    }
    for nm, need in foot.items():
        fn = fx.impl_fn("Mp4Track", None, nm)
        if not chk.anchor("R-FOOT", "Mp4Track::" + nm, fn):
            continue
        rd = fields_read(fx, cg, fn["id"])
        missing = [x for x in need if x not in rd]
        chk.require(not missing, "R-FOOT", nm, "reads %s" % need, "%s does not consult %s" % (nm, missing), site_of(fn))
    # ---------------- R-INDEX: the fragment index handed to every fragmented lookup is a position in self.trafs (the
    # vector moof_offsets is pushed in lock step with), and the fragment at that position has a run
    import lookup_post
    r = lookup_post.check(fx, "find_traf_idx_and_sample_idx")
    if chk.anchor("R-INDEX", "Mp4Track::find_traf_idx_and_sample_idx", r.get("fn")):
        chk.require(r["ok"], "R-INDEX", "position", "returned fragment index is a position in self.trafs (%s)" % r["why"],
                    "find_traf_idx_and_sample_idx returns a fragment index that is not a position in self.trafs (%s): trafs[idx], moof_offsets[idx] and the run it was found in no longer belong together" % r["why"], site_of(r["fn"]))
        chk.require(bool(r["present"]), "R-INDEX", "run-present", "the run of trafs[idx] was tested to be present on every returning path",
                    "a returned index can name a track fragment without a run (trun)", site_of(r["fn"]))
        # every user of the index applies it to self.trafs / self.moof_offsets only
        users = 0
        for nm in ("sample_offset", "sample_size", "sample_time", "sample_rendering_offset"):
            fn = fx.impl_fn("Mp4Track", None, nm)
            b = body_of(fn) if fn else None
            if b is None:
                continue
            for blk, t in b.calls():
                if (t["callee"].get("path") or "").endswith("Index::index") and len(t["args"]) == 2 and b.op_str(t["args"][1]) == "traf_idx":
                    users += 1
                    base = b.op_str(t["args"][0])
                    chk.require(base in ("self.trafs", "self.moof_offsets"), "R-INDEX", "%s|use|%s" % (nm, base), "index applied to %s" % base,
                                "%s applies the fragment index to %s" % (nm, base), site_of(fn, t.get("line")))
        chk.floor("R-INDEX", "uses of the fragment index", users, 5)
    return chk.finish(
        "other",
        "Sibling agreement of the two attach implementations (normalised HIR equality), the count accumulation, the recorded-offset source and lower-bound field footprints are decided. "
        "The offset/time arithmetic of fragmented lookup - the core of C09 - is NOT decided.",
    )
