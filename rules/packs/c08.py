"""C08 — memory use is bounded by the input length, not by fields in the input.

  R-SINK  every allocation with an input-dependent size in the reader closure (Vec::with_capacity / reserve / resize,
          vec![x; n], String::with_capacity, BytesMut::with_capacity ...) has a size argument that is
            B-CONST   constant or of narrow origin (<= 2^16 elements),
            B-GUARD   bounded from above, on this path, by an expression computed only from the enclosing box's size
                      parameter / stream positions / constants (upper-bound provenance from the abstract interpreter:
                      the "entry_count ... more entries than could fit" guards and trun's product guard), or
            B-DERIVED itself computed only from the box size / positions (its subtraction obligations are C06's);
          anything else trusts a parsed field for allocation and is reported.
  R-PUSH  growth by push/insert/extend happens only in loops that consume input every iteration, are size-guarded,
          constant or iterate an existing in-memory collection (amortised by bytes consumed).
  R-CHAIN child <= parent <= file: every call that hands a child size read from a header to a decoder (T::read_box) or to
          skip_box passes a value with a size-derived upper bound (the `s > size` rejection dominates the call), so
          every decoder's own size parameter is bounded by the file length by induction from A-LEN.
Not decided: exact peak bytes, allocator behaviour, clone() of already-bounded structures.
"""
import c06
import c07
import loops as LP
from facts import short
from mir import body_of, callee_path, op_place, strip_generics
from panicfree import fn_short
from report import site_of

SINKS = {
    # callee path (generics stripped) -> index of the size argument
    "alloc::vec::Vec::with_capacity": 0, "alloc::vec::Vec::with_capacity_in": 0,
    "alloc::vec::Vec::reserve": 1, "alloc::vec::Vec::reserve_exact": 1, "alloc::vec::Vec::try_reserve": 1,
    "alloc::vec::Vec::resize": 1, "alloc::vec::Vec::resize_with": 1,
    "alloc::vec::from_elem": 1,
    "alloc::string::String::with_capacity": 0, "alloc::string::String::reserve": 1,
    "bytes::bytes_mut::BytesMut::with_capacity": 0, "bytes::bytes_mut::BytesMut::reserve": 1, "bytes::bytes_mut::BytesMut::resize": 1,
    "bytes::bytes_mut::BytesMut::zeroed": 0,
    "std::collections::hash::map::HashMap::with_capacity": 0, "std::collections::hash::map::HashMap::reserve": 1,
    "alloc::boxed::Box::new_uninit_slice": 0, "alloc::boxed::Box::new_zeroed_slice": 0,
    "alloc::collections::vec_deque::VecDeque::with_capacity": 0,
    "core::iter::repeat_n": 1,
}
GROW = ("alloc::vec::Vec::push", "alloc::vec::Vec::insert", "alloc::vec::Vec::extend_from_slice", "alloc::string::String::push",
        "alloc::string::String::push_str", "std::collections::hash::map::HashMap::insert", "bytes::bytes_mut::BytesMut::extend_from_slice",
        "bytes::buf::buf_mut::BufMut::put_slice", "bytes::buf::buf_mut::BufMut::put_u8")
NARROW = 1 << 16
FLOOR_SINKS = 20     # counted on the pinned tree: 24 sized allocations in the reader closure
FLOOR_CHAIN = 60     # counted: 76 child-size hand-offs (decoder / skip_box calls with a header size)


def run(fx, chk, tier):
    chk.rule("R-SINK", "every sized allocation in the reader closure is B-CONST, B-GUARD or B-DERIVED")
    chk.rule("R-PUSH", "collections grow only in consuming, size-guarded, constant or in-memory-bounded loops")
    chk.rule("R-CHAIN", "every child size handed to a decoder or to skip_box has a size-derived upper bound (child <= parent <= file)")
    chk.assume("A-LEN: the size given to read_header/read_fragment_header is the true stream length (< 2^62)")
    chk.assume("A-MEM, A-POS as in C06")
    eng, ents = c06.build_engine(fx, chk)
    cg = eng.cg
    nsinks = 0
    nchain = 0
    ngrow = 0
    for fid in sorted(eng.clo):
        fn = fx.fns[fid]
        it = eng.res.interps.get(fid)
        body = body_of(fn)
        if body is None or it is None:
            continue
        sroots = c07.size_roots_ip(fx, eng, fid)
        ls = None
        seen = {}
        for b, t in body.calls():
            c = t["callee"]
            decl = strip_generics(c.get("path") or "")
            p = callee_path(c) or ""
            st = it.out_states.get(b)
            if st is None:
                continue      # unreachable under the analysis
            # ---------------- R-SINK
            if decl in SINKS:
                idx = SINKS[decl]
                if idx >= len(t["args"]):
                    continue
                arg = t["args"][idx]
                sid, lo, hi, prov = it.read_op(st, arg, (b, "t"))
                base = "%s|%s(%s)" % (fn_short(fid), decl.split("::")[-1], body.op_str(arg))
                n = seen.get(base, 0)
                seen[base] = n + 1
                key = base if n == 0 else "%s#%d" % (base, n)
                site = site_of(fn, t.get("line"))
                if prov and all(r == "C" for r in prov) and hi is not None and hi <= (1 << 24):
                    chk.ok("R-SINK", key, "B-CONST: constant size %s" % hi, site)
                    continue
                nsinks += 1
                ub = c07.derived_ub(it, st, sid) if sid is not None else None
                if hi is not None and hi <= NARROW:
                    chk.ok("R-SINK", key, "B-CONST: narrow origin, at most %d elements" % hi, site)
                elif prov and all(r in ("C", "LEN") or r.startswith("S:") for r in prov):
                    chk.ok("R-SINK", key, "B-MEM: size is the length of an existing in-memory collection", site)
                elif ub and c07.size_derived_in(ub, sroots):
                    chk.ok("R-SINK", key, "B-GUARD: bounded on this path by an expression of the box size (%s)" % sorted(ub), site)
                elif c07.size_derived_in(prov, sroots):
                    chk.ok("R-SINK", key, "B-DERIVED: computed from the box size / positions only (%s)" % sorted(prov), site)
                else:
                    sinkname = decl.split("::")[-1]
                    what = "allocation size %s in [%s, %s] comes from the input (%s) with no bound derived from the box or file size"
                    # a size that is just a parameter of a private helper: the unbounded value is the caller's; report it there
                    # (the key then survives moving the allocation into / out of a helper)
                    params = {r for r in prov if r.startswith("P") and r[1:].isdigit()}
                    blamed = []
                    if params and all(r in params or r == "C" for r in prov) and len(params) == 1:
                        pi = int(list(params)[0][1:]) - 1
                        for caller in sorted(eng.clo):
                            itc = eng.res.interps.get(caller)
                            if itc is None:
                                continue
                            for cb, ct in itc.body.calls():
                                if callee_path(ct["callee"]) != fid or pi >= len(ct["args"]):
                                    continue
                                cst = itc.out_states.get(cb)
                                if cst is None:
                                    continue
                                csid, clo_, chi_, cprov = itc.read_op(cst, ct["args"][pi], (cb, "t"))
                                cro = c07.size_roots_ip(fx, eng, caller)
                                cub = c07.derived_ub(itc, cst, csid) if csid is not None else None
                                bounded = (chi_ is not None and chi_ <= NARROW) or (cprov and all(x in ("C", "LEN") or x.startswith("S:") for x in cprov)) \
                                    or (cub and c07.size_derived_in(cub, cro)) or c07.size_derived_in(cprov, cro)
                                if not bounded:
                                    blamed.append((caller, itc.body, ct, clo_, chi_, cprov))
                    if blamed:
                        for caller, cbody, ct, clo_, chi_, cprov in blamed:
                            k2 = "%s|%s(%s)" % (fn_short(caller), sinkname, cbody.op_str(ct["args"][pi]))
                            ck = "%s|%s(%s)" % (fn_short(caller), sinkname, cbody.canon_op(ct["args"][pi]))
                            chk.bad("R-SINK", k2, (what % (cbody.op_str(ct["args"][pi]), clo_, chi_, sorted(cprov))) + " (allocated in %s)" % fn_short(fid), site_of(fx.fns[caller], ct.get("line")),
                                    {"prov": sorted(cprov), "ckey": ck})
                    else:
                        chk.bad("R-SINK", key, what % (body.op_str(arg), lo, hi, sorted(prov)), site,
                                {"prov": sorted(prov), "ub": sorted(ub) if ub else None, "ckey": "%s|%s(%s)" % (fn_short(fid), sinkname, body.canon_op(arg))})
            # ---------------- R-PUSH
            elif decl in GROW:
                ngrow += 1
                if ls is None:
                    ls = LP.inventory(fx, fid)
                    for L in ls:
                        L.kind, L.detail = c07.classify(fx, eng, fid, L, ls, None)
                encl = [L for L in ls if b in L.blocks]
                bad = [L for L in encl if L.kind in ("RANGE-PARSED", "RANGE-UNKNOWN", "UNCLASSIFIED")]
                key = "%s|%s(%s)" % (fn_short(fid), decl.split("::")[-1], body.op_str(t["args"][0]) if t["args"] else "")
                n = seen.get(key, 0)
                seen[key] = n + 1
                if n:
                    key = "%s#%d" % (key, n)
                if bad:
                    chk.bad("R-PUSH", key, "collection grows inside a loop bounded only by a parsed field (%s)" % bad[0].detail.get("prov"), site_of(fn, t.get("line")))
                else:
                    chk.ok("R-PUSH", key, "not in a loop" if not encl else "inside %s loop" % "/".join(L.kind for L in encl), site_of(fn, t.get("line")))
            # ---------------- R-CHAIN
            callee_fn = fx.fns.get(p)
            tr = short(((callee_fn or {}).get("impl") or {}).get("trait") or "") if callee_fn else ""
            if callee_fn is not None and (tr.startswith("ReadBox<") or p.endswith("::skip_box")) and len(t["args"]) >= 2:
                arg = t["args"][1]
                sid, lo, hi, prov = it.read_op(st, arg, (b, "t"))
                if not any(r.endswith("BoxHeader::read") for r in prov) and (c07.size_derived_in(prov, sroots) or not prov or all(r == "C" for r in prov)):
                    continue     # size not taken from the stream (forwarded parent size, an expression of it, a constant)
                nchain += 1
                ub = c07.derived_ub(it, st, sid) if sid is not None else None
                key = "%s|%s(%s)" % (fn_short(fid), fn_short(p), body.op_str(arg))
                n = seen.get(key, 0)
                seen[key] = n + 1
                if n:
                    key = "%s#%d" % (key, n)
                chk.require(bool(ub) and c07.size_derived_in(ub, sroots), "R-CHAIN", key, "child size <= an expression of the enclosing size (%s)" % (sorted(ub) if ub else None),
                            "child size read from a header reaches %s without a dominating `s > size` rejection: the child is not bounded by its parent" % fn_short(p), site_of(fn, t.get("line")))
    # a child size handed to a private dispatch helper that forwards it to the decoders (`read_top_level(reader, name, s, ..)`)
    # is a hand-off at the helper's call site: the bound has to hold there
    for fid in sorted(eng.clo):
        fn = fx.fns[fid]
        it = eng.res.interps.get(fid)
        body = body_of(fn)
        if body is None or it is None:
            continue
        sroots = c07.size_roots_ip(fx, eng, fid)
        for b, t in body.calls():
            p = callee_path(t["callee"]) or ""
            g = fx.fns.get(p)
            gb = body_of(g) if g else None
            if gb is None or p.endswith("::skip_box") or short(((g.get("impl") or {}).get("trait") or "")).startswith("ReadBox<"):
                continue
            st = it.out_states.get(b)
            if st is None:
                continue
            for i, a in enumerate(t["args"]):
                sid, lo, hi, prov = it.read_op(st, a, (b, "t"))
                if not any(r.endswith("BoxHeader::read") for r in prov):
                    continue
                # does the helper forward this parameter as the size of a decoder / skip call?
                forwards = []
                for b2, t2 in gb.calls():
                    p2 = callee_path(t2["callee"]) or ""
                    g2 = fx.fns.get(p2)
                    tr2 = short(((g2 or {}).get("impl") or {}).get("trait") or "") if g2 else ""
                    if g2 is not None and (tr2.startswith("ReadBox<") or p2.endswith("::skip_box")) and len(t2["args"]) >= 2:
                        pl2 = op_place(t2["args"][1])
                        if pl2 is not None and c07.derives_from(gb, pl2["l"], i + 1):
                            forwards.append(fn_short(p2))
                ub = c07.derived_ub(it, st, sid) if sid is not None else None
                # one hand-off per decoder the helper forwards the size to
                for k, dec in enumerate(forwards):
                    nchain += 1
                    key = "%s|%s(%s)->%s#%d" % (fn_short(fid), fn_short(p), body.op_str(a), dec, k)
                    chk.require(bool(ub) and c07.size_derived_in(ub, sroots), "R-CHAIN", key, "child size <= an expression of the enclosing size (%s), then forwarded by %s" % (sorted(ub) if ub else None, fn_short(p)),
                                "child size read from a header is handed to %s, which forwards it to the decoders, without a dominating `s > size` rejection" % fn_short(p), site_of(fn, t.get("line")))
    chk.floor("R-SINK", "sized allocations", nsinks, FLOOR_SINKS)
    chk.floor("R-CHAIN", "child-size hand-offs", nchain, FLOOR_CHAIN)
    chk.analysed.update({"closure_functions": len(eng.clo), "sized_allocations": nsinks, "growth_sites": ngrow, "child_size_handoffs": nchain})
    return chk.finish(
        "other",
        "All %d sized allocations, %d growth sites and %d child-size hand-offs in the reader closure (%d functions) are enumerated from MIR callees; sizes are classified with the interval, "
        "provenance and upper-bound provenance computed by the abstract interpreter. Not decided: exact peak bytes, allocator behaviour." % (nsinks, ngrow, nchain, len(eng.clo)),
    )
