"""R-RESCAN: a decoder that walks its children more than once must restart every later walk at the stream position where
the first walk started.  The restart is an absolute seek between two box-walk loops; its target must be the very value
that `stream_position()` returned at a point that dominates the first loop with no stream call in between (so it *is*
the first loop's start on every path, including paths through optional-header probes that rewind)."""
import loops as LP
from absint import Interp
from mir import body_of, callee_path, op_place, strip_generics
from packs_common import IO_TRAITS


def is_header_read(t):
    return (callee_path(t["callee"]) or "").endswith("BoxHeader::read")


def boxwalk_loops(fx, fid):
    body = body_of(fx.fns[fid])
    out = []
    ls = LP.inventory(fx, fid)
    for L in ls:
        own = L.own_blocks(ls)
        if any(is_header_read(t) for b, t in LP.calls_in(body, own)):
            out.append(L)
    return body, ls, out


def stream_call(fx, t, iof):
    c = t["callee"]
    p = callee_path(c) or ""
    return c.get("trait") in IO_TRAITS or p in iof


def check(fx, fn, iof):
    """-> list of (ok, key, how, line) for every absolute seek that lies between two child walks of `fn`"""
    fid = fn["id"]
    body, ls, walks = boxwalk_loops(fx, fid)
    if len(walks) < 2:
        return []
    it = Interp(fx, body).run()
    first = min(walks, key=lambda L: body.rpo().index(L.head))
    out = []
    for b, t in body.calls():
        is_seek = strip_generics(t["callee"].get("path") or "") == "std::io::Seek::seek"
        is_helper = (callee_path(t["callee"]) or "").endswith("::skip_bytes_to")      # the crate's `seek(SeekFrom::Start(pos))` helper
        if not (is_seek or is_helper):
            continue
        # between walks: reachable from the first loop's exits, and some later walk reachable from it
        after_first = any(body.can_reach(x, b) or x == b for x in first.exits)
        later = [L for L in walks if L is not first and body.can_reach(b, L.head)]
        if not after_first or not later or b in first.blocks:
            continue
        st = it.out_states.get(b)
        if st is None:
            continue
        # SeekFrom::Start(x)
        pl = op_place(t["args"][1])
        sid = None
        if is_helper:
            sid = it.read_op(st, t["args"][1], (b, "t"))[0]
        elif pl is not None and not pl["p"]:
            sd = body.single_def(pl["l"])
            if sd and sd[2] == "assign" and sd[3]["k"] == "agg" and sd[3].get("variant") == "Start":
                sid = st.cells.get((pl["l"], ".0"))
        key = "%s|rescan" % body.op_str(t["args"][1])
        if sid is None:
            out.append((False, key, "the rewind between two child walks is not an absolute seek to a tracked value", t.get("line")))
            continue
        inv = {v: k for k, v in it.site_syms.items()}
        site = inv.get(sid)
        if not (site and site[0] == "call" and site[2] == ("as Ok", ".0")):
            out.append((False, key, "the second child walk restarts at a computed position (%s), not at the position captured where the first walk started: "
                        "the two walks disagree whenever the header before the children is shorter or longer than assumed" % (it.syms[sid].defn[0] if it.syms[sid].defn else "opaque"), t.get("line")))
            continue
        cb = site[1][0]
        ct = body.term(cb)
        if strip_generics(ct["callee"].get("path") or "") != "std::io::Seek::stream_position":
            out.append((False, key, "the restart position comes from %s, not from stream_position()" % (ct["callee"].get("path") or "?").split("::")[-1], t.get("line")))
            continue
        if not body.dominates(cb, first.head):
            out.append((False, key, "the captured position is not taken before the first child walk on every path", t.get("line")))
            continue
        # no stream call between the capture and the first loop's head
        between = body.reachable_from(body.term(cb)["t"], avoid=[first.head]) if body.term(cb).get("t") is not None else set()
        between = {x for x in between if body.can_reach(x, first.head)} - first.blocks
        moved = [x for x in between if body.term(x)["k"] == "call" and stream_call(fx, body.term(x), iof)]
        if moved:
            out.append((False, key, "the stream is moved between the captured position and the start of the first child walk", t.get("line")))
            continue
        out.append((True, key, "restart target is the stream_position() captured immediately before the first child walk", t.get("line")))
    return out
