"""C03 — sample lookup in non-fragmented files follows ISO sample-table semantics (thin, explicit).

Decided (structural clauses only):
  R-DEFAULT  on the path where the composition-offset table is absent the reported rendering offset is the constant 0,
             and where the sync table is absent the sample is reported as sync (constant true): every assignment of the
             result on the None edge of the table's Option test is that constant.
  R-COUNT    in the non-fragmented branch (no track fragments attached) the reported sample count is exactly the size
             table's sample_count field.
  R-FOOT     lower-bound footprints: the byte-offset lookup reads stsc, stsz and stco|co64; the time lookup reads stts;
             the rendering-offset lookup reads ctts; the sync lookup reads stss; and each field of the returned sample
             is produced by the corresponding lookup (start_time/duration <- time lookup, rendering_offset, is_sync,
             bytes <- the buffer filled by read_exact after the absolute seek to the looked-up offset).
             Lower bounds only: an implementation that consults more tables is not reported.
  R-UNITS    dimension and scope typing of the lookup arithmetic (rules/units.py): every table field has the quantity ISO
             gives it (sample number, chunk number, byte offset, media ticks; absolute or relative; per file or per run) and
             every operation of the non-fragmented lookup closure (stsc_index, chunk_offset, sample_size, sample_offset,
             sample_time, ctts_index, sample_rendering_offset, is_sync_sample, sample_count, read_sample) must combine
             compatible quantities: no chunk number where a sample number belongs, no absolute id multiplied or reduced
             modulo, no file-relative index added to a chunk / run origin or divided by a run's samples_per_chunk, every
             table indexed by its own kind of zero-based index, byte and tick sums / products formed in 64 bits, and the
             half-open interval discipline at run boundaries (a zero-based position is compared with a count, a sample
             number with the first number of a run, using < / >=, never <= / >).
             A necessary condition of the formulas (a dimensionally inconsistent formula is wrong for some table set).
  R-PURE     the lookups are functions of the tables and the arguments: no interior mutability in the reader / track types
             and `&self` receivers only (C15 R1/R2 instances), so no cache or cursor can make a result depend on earlier calls.
NOT decided: the values themselves - literal constants are polymorphic in R-UNITS (x - 1 is a zero-based index or the
previous id), so an off-by-one in a constant (`- 1` dropped, `+ 1` added) is not decided by any rule here; the direction of
the run-boundary comparisons is.
"""
import hirq
from callgraph import callgraph
from facts import short
from mir import body_of, callee_path, op_const, op_place, strip_generics
from report import site_of
from c01 import adts_read


# what the demuxer reports for a sample when the optional table is absent (R-DEFAULT requires exactly these constants;
# C01 R6 requires the muxer to leave the table absent only for samples with these values)
ABSENT_DEFAULT = {"ctts": 0, "stss": 1}
UNITS_FLOOR = 80      # dimension checks counted on the pinned tree in the non-fragmented + common regions


def _borrowed_place(body, op):
    """(root local, projection) of the place a reference operand borrows, through reference temporaries and `&mut` aliases"""
    pl = op_place(op)
    if pl is None:
        return None, []
    l, proj = pl["l"], [x for x in pl["p"] if x != "deref"]
    for _ in range(6):
        sd = body.single_def(l)
        if sd and sd[2] == "assign" and sd[3]["k"] == "ref":
            proj = [x for x in sd[3]["place"]["p"] if x != "deref"] + proj
            l = sd[3]["place"]["l"]
        elif sd and sd[2] == "assign" and sd[3]["k"] in ("use", "cast") and op_place(sd[3]["a"]) is not None:
            src = op_place(sd[3]["a"])
            proj = [x for x in src["p"] if x != "deref"] + proj
            l = src["l"]
        else:
            break
    return l, proj


def opt_field_switches(body, field):
    """(switch block, none_target, some_target) for switches on the discriminant of a place ending in .<field>"""
    out = []
    for b in body.reach:
        t = body.term(b)
        if t["k"] != "switch":
            continue
        pl = op_place(t["discr"])
        if pl is None or pl["p"]:
            continue
        sd = body.single_def(pl["l"])
        if sd and sd[2] == "call" and strip_generics(sd[3]["callee"].get("path") or "") in ("core::option::Option::is_none", "core::option::Option::is_some") and sd[3]["args"]:
            # `x.field.is_none()` / `.is_some()` (possibly through a `&mut` alias of the owner): a bool test of the same Option
            rl, rproj = _borrowed_place(body, sd[3]["args"][0])
            flds = [x for x in rproj if isinstance(x, dict) and "f" in x]
            if flds and flds[-1]["f"] == field:
                is_none = strip_generics(sd[3]["callee"].get("path") or "").endswith("is_none")
                t_true = t_false = None
                for v, tgt in t["targets"]:
                    if v == 0:
                        t_false = tgt
                if t_false is None:
                    continue
                t_true = t["otherwise"]
                out.append((b, t_true, t_false) if is_none else (b, t_false, t_true))
            continue
        if not sd or sd[2] != "assign" or sd[3]["k"] != "discr":
            continue
        src = sd[3]["place"]
        last = src["p"][-1] if src["p"] else None
        # `match x.field.as_mut() { Some(t) => .., None => .. }`: as_ref / as_mut / as_deref keep the variant
        sdv = body.single_def(src["l"]) if not src["p"] else None
        if sdv and sdv[2] == "call" and strip_generics(sdv[3]["callee"].get("path") or "") in (
                "core::option::Option::as_mut", "core::option::Option::as_ref", "core::option::Option::as_deref", "core::option::Option::as_deref_mut") and sdv[3]["args"]:
            rl, rproj = _borrowed_place(body, sdv[3]["args"][0])
            flds = [x for x in rproj if isinstance(x, dict) and "f" in x]
            if flds and flds[-1]["f"] == field:
                none_t = some_t = None
                for v, tgt in t["targets"]:
                    if v == 0:
                        none_t = tgt
                    elif v == 1:
                        some_t = tgt
                if none_t is None:
                    none_t = t["otherwise"]
                out.append((b, none_t, some_t))
            continue
        # follow one level of `&Option` temporaries
        if not (isinstance(last, dict) and last.get("f") == field):
            root = src["l"]
            sd2 = body.single_def(root)
            ok = False
            if sd2 and sd2[2] == "assign" and sd2[3]["k"] == "ref":
                l2 = sd2[3]["place"]["p"][-1] if sd2[3]["place"]["p"] else None
                ok = isinstance(l2, dict) and l2.get("f") == field
            if not ok:
                continue
        none_t = some_t = None
        for v, tgt in t["targets"]:
            if v == 0:
                none_t = tgt
            elif v == 1:
                some_t = tgt
        if none_t is None:
            none_t = t["otherwise"]
        out.append((b, none_t, some_t))
    return out


def result_assignments(body, blocks):
    """(block, rendered value, const or None) for assignments to the return place inside the given blocks"""
    out = []
    for b in blocks:
        for s in body.stmts(b):
            if s["k"] == "assign" and s["place"]["l"] == 0 and not s["place"]["p"]:
                rv = s["rv"]
                c = op_const(rv["a"]) if rv["k"] == "use" else None
                out.append((b, body.rv_str(rv), c))
    return out


def tail_delegates(fx, fn, depth=0, seen=None):
    """fn and the local functions whose result it returns unchanged (`_0 = helper(..)`), transitively: a lookup split into
    per-branch helpers is still one lookup"""
    if seen is None:
        seen = []
    if fn is None or fn["id"] in [f["id"] for f in seen] or depth > 3:
        return seen
    seen.append(fn)
    body = body_of(fn)
    if body is None:
        return seen
    for b, t in body.calls():
        p = callee_path(t["callee"])
        if p not in fx.fns or t["dest"]["p"]:
            continue
        l = t["dest"]["l"]
        ret = l == 0
        if not ret:
            # result copied to the return place
            for bb in body.reach:
                for st_ in body.stmts(bb):
                    if st_["k"] == "assign" and st_["place"]["l"] == 0 and not st_["place"]["p"] and st_["rv"]["k"] == "use":
                        pl = op_place(st_["rv"]["a"])
                        if pl is not None and pl["l"] == l and not pl["p"]:
                            ret = True
        if ret:
            tail_delegates(fx, fx.fns[p], depth + 1, seen)
    return seen


def run(fx, chk, tier):
    chk.rule("R-DEFAULT", "without a ctts table the rendering offset is the constant 0; without an stss table every sample is sync")
    chk.rule("R-COUNT", "non-fragmented sample count = stsz.sample_count")
    chk.rule("R-FOOT", "each lookup reads at least its ISO tables and each field of the returned sample comes from its lookup")
    cg = callgraph(fx)
    fro = fx.impl_fn("Mp4Track", None, "sample_rendering_offset")
    fsy = fx.impl_fn("Mp4Track", None, "is_sync_sample")
    fcn = fx.impl_fn("Mp4Track", None, "sample_count")
    frs = fx.impl_fn("Mp4Track", None, "read_sample")
    fso = fx.impl_fn("Mp4Track", None, "sample_offset")
    fst = fx.impl_fn("Mp4Track", None, "sample_time")
    fsz = fx.impl_fn("Mp4Track", None, "sample_size")
    for nm, f in (("sample_rendering_offset", fro), ("is_sync_sample", fsy), ("sample_count", fcn), ("read_sample", frs), ("sample_offset", fso), ("sample_time", fst), ("sample_size", fsz)):
        if not chk.anchor("R-FOOT", "Mp4Track::" + nm, f):
            return chk.finish("other", "anchors missing")

    # ---------------- R-DEFAULT
    for fn, field, want, label in ((fro, "ctts", ABSENT_DEFAULT["ctts"], "rendering offset 0"), (fsy, "stss", ABSENT_DEFAULT["stss"], "sync = true")):
        sw = []
        for f2 in tail_delegates(fx, fn):
            sw += [(body_of(f2),) + x for x in opt_field_switches(body_of(f2), field)]
        if not sw:
            # `stbl.<field>.as_ref().map_or(<default>, |t| ..)` / `.is_none_or(|t| ..)`: the absent-table answer is the
            # default operand
            done = False
            for f2 in tail_delegates(fx, fn):
                b2 = body_of(f2)
                for blk, t in b2.calls():
                    tail = (t["callee"].get("path") or "").split("::")[-1]
                    if tail not in ("map_or", "is_none_or") or "Option" not in (t["callee"].get("path") or "") or not t["args"]:
                        continue
                    rc = b2.canon_op(t["args"][0])
                    if not rc.rstrip(")").endswith("." + field):
                        continue
                    dflt = op_const(t["args"][1]) if tail == "map_or" and len(t["args"]) > 1 else (1 if tail == "is_none_or" else None)
                    returned = t["dest"]["l"] == 0 or any(s_["k"] == "assign" and s_["place"]["l"] == 0 and not s_["place"]["p"] and s_["rv"]["k"] == "use" and (op_place(s_["rv"]["a"]) or {}).get("l") == t["dest"]["l"]
                                                         for bb in b2.reach for s_ in b2.stmts(bb))
                    if returned:
                        done = True
                        chk.require(dflt == want, "R-DEFAULT", "%s|%s-absent" % (fn["name"], field), "result is the constant %s (default of %s)" % (want, tail),
                                    "with no %s table %s reports %s instead of %s" % (field, fn["name"], dflt, label), site_of(fn))
            if done:
                continue
        if not chk.anchor("R-DEFAULT", "test of stbl.%s in %s" % (field, fn["name"]), sw):
            continue
        for (body, b, none_t, some_t) in sw:
            avoid = [some_t] if some_t is not None else []
            blocks = body.reachable_from(none_t, avoid=avoid)
            ras = result_assignments(body, blocks)
            # only assignments not also reachable from the Some edge count as "absent table" results
            some_blocks = body.reachable_from(some_t) if some_t is not None else set()
            only_none = [x for x in ras if x[0] not in some_blocks or x[0] == none_t] or ras
            bad = [x for x in only_none if x[2] != want]
            chk.require(bool(only_none) and not bad, "R-DEFAULT", "%s|%s-absent" % (fn["name"], field), "result is the constant %s" % want,
                        "with no %s table %s reports %s instead of %s" % (field, fn["name"], [x[1] for x in bad] or "nothing", label), site_of(fn))

    # ---------------- R-SYNC: with a sync table, a sample is sync exactly when it is listed
    chk.rule("R-SYNC", "with an stss table present the sync flag is the membership test alone: the search of stss.entries is not combined with any other condition (an empty table lists no sample)")
    nsync = 0
    for f2 in tail_delegates(fx, fsy):
        root2 = hirq.body_root(f2)
        if root2 is None:
            continue
        for n2, ps2 in hirq.walk(root2):
            if n2.get("k") != "mcall" or n2.get("m") not in ("binary_search", "contains", "binary_search_by", "binary_search_by_key"):
                continue
            nsync += 1
            combined = None
            for anc in reversed(ps2):
                k2 = anc.get("k")
                if k2 == "bin" and anc.get("op") in ("Or", "And", "BitOr", "BitAnd"):
                    combined = anc
                    break
                if k2 in ("closure", "if", "match", "block", "let", "ret"):
                    break
            chk.require(combined is None, "R-SYNC", "%s|%s" % (f2["name"], n2.get("m")), "the membership test is the whole answer on the path with a table",
                        "the search of the sync table is combined with another condition (%s): a sample that is not listed can be reported as sync (or a listed one as not)" % (hirq.expr_str(combined)[:90] if combined else ""), site_of(f2, n2.get("line")))
    chk.floor("R-SYNC", "searches of the sync table", nsync, 1)
    # ---------------- R-COUNT: the trafs-empty edge returns stsz.sample_count
    body = body_of(fcn)
    ras = result_assignments(body, body.reach)
    direct = [x for x in ras if x[1].endswith("stsz.sample_count")]
    chk.require(len(direct) == 1, "R-COUNT", "sample_count", "returns self.trak.mdia.minf.stbl.stsz.sample_count", "the non-fragmented sample count is not read from stsz.sample_count (results: %s)" % [x[1] for x in ras], site_of(fcn))
    if direct:
        # that assignment is on the `trafs.is_empty()` side: not inside the loop over trafs
        chk.require(not body.in_loop(direct[0][0]), "R-COUNT", "sample_count|branch", "outside the fragment loop", "stsz.sample_count is only reported from inside the fragment loop", site_of(fcn))

    # ---------------- R-FOOT
    foot = {
        "sample_offset": (fso, [{"StscBox", "StscEntry"}, {"StszBox"}, {"StcoBox"}, {"Co64Box"}]),
        "sample_time": (fst, [{"SttsBox", "SttsEntry"}]),
        "sample_rendering_offset": (fro, [{"CttsBox", "CttsEntry"}]),
        "is_sync_sample": (fsy, [{"StssBox"}]),
        "sample_size": (fsz, [{"StszBox"}]),
    }
    for nm, (fn, groups) in foot.items():
        rd = adts_read(fx, cg, fn["id"])
        missing = [sorted(g) for g in groups if not (g & rd)]
        chk.require(not missing, "R-FOOT", nm, "reads %s" % sorted(x for g in groups for x in g if x in rd), "%s does not consult %s" % (nm, missing), site_of(fn))
    # fields of the returned Mp4Sample
    root = hirq.body_root(frs)
    lit = None
    for n, _ in hirq.walk(root):
        if n.get("k") == "struct" and short(n.get("def") or "") == "Mp4Sample":
            lit = n
    if chk.anchor("R-FOOT", "Mp4Sample literal in read_sample", lit):
        # binding name -> callee that produced it
        prod = {}
        for n, _ in hirq.walk(root):
            if n.get("k") == "let" and "init" in n:
                calls = [m for m, _ in hirq.walk(n["init"]) if m.get("k") in ("call", "mcall") and (m.get("resolved") or m.get("fn") or "") in fx.fns]
                names = [nm for nm, _ in hirq.pat_bindings(n["pat"])]
                for nm in names:
                    if calls:
                        prod[nm] = (calls[0].get("resolved") or calls[0].get("fn")).split("::")[-1]
        want = {"start_time": "sample_time", "duration": "sample_time", "rendering_offset": "sample_rendering_offset", "is_sync": "is_sync_sample"}
        for f in lit["fields"]:
            if f["name"] in want:
                src = [prod.get(m["name"]) for m, _ in hirq.walk(f["e"]) if m.get("k") == "path" and m.get("res") == "local"]
                chk.require(want[f["name"]] in src, "R-FOOT", "Mp4Sample." + f["name"], "from " + want[f["name"]], "Mp4Sample.%s is not taken from %s (sources %s)" % (f["name"], want[f["name"]], src), site_of(frs, f["e"].get("line")))
        # bytes: over the effect traces of Mp4Track::read_sample (private helpers spliced in): the only stream operations
        # are seek(SeekFrom::Start(<value from sample_offset>)) then read_exact(<buffer of <value from sample_size> bytes>),
        # and the returned bytes are that buffer
        import etrace
        T = etrace.Tracer(fx, keep=lambda e: e["k"] in ("io", "end") or (e["k"] == "agg" and e["adt"] == "Mp4Sample"))
        trs = T.ok_traces(frs["id"]) or []
        ok = False
        why = "no success path constructs a sample"
        for tr in trs:
            lit_ = [e for e in tr if e["k"] == "agg" and e["adt"] == "Mp4Sample"]
            if not lit_:
                continue
            ios = [e for e in tr if e["k"] == "io"]
            sig = [e["op"] for e in ios]
            if sig != ["seek", "read_exact"]:
                ok, why = False, "stream operations on a success path are %s (expected seek, read_exact)" % sig
                break
            tgt = ios[0]["args"][1]
            buf = ios[1]["args"][1]
            by = lit_[-1]["fields"].get("bytes", "")
            def site_ids(text, name):
                """call-site identities `@id` of calls to `name(` in a canonical rendering"""
                out, i = [], 0
                while True:
                    j = text.find(name + "(", i)
                    if j < 0:
                        return out
                    depth, k = 0, j + len(name)
                    while k < len(text):
                        if text[k] == "(":
                            depth += 1
                        elif text[k] == ")":
                            depth -= 1
                            if depth == 0:
                                break
                        k += 1
                    m_ = __import__("re").match(r"@[\w.]+", text[k + 1:])
                    if m_:
                        out.append(m_.group(0))
                    i = j + 1
            ids = set(site_ids(buf, "from_elem")) | set(site_ids(buf, "with_capacity"))
            good = (tgt.startswith("SeekFrom::Start(") and "Mp4Track::sample_offset(" in tgt and bool(ids)
                    and any(i_ in site_ids(by, "from_elem") + site_ids(by, "with_capacity") for i_ in ids) and "Mp4Track::sample_size(" in by)
            if not good:
                ok, why = False, "seek target %s / buffer %s / returned bytes %s" % (tgt[:80], buf[:80], by[:80])
                break
            ok = True
        chk.require(ok, "R-FOOT", "Mp4Sample.bytes", "buffer of sample_size bytes filled by read_exact after seek(Start(sample_offset)), returned as the sample's bytes",
                    "the returned bytes are not the buffer read at the looked-up offset: %s" % why, site_of(frs))
    # ---------------- R-UNITS
    import units
    chk.rule("R-UNITS", "every operation of the non-fragmented lookup closure combines dimensionally compatible quantities (units, absolute/relative, file/run scope, 64-bit sums)")
    units.run_rule(fx, chk, "R-UNITS", [("Mp4Track", "read_sample"), ("Mp4Track", "sample_offset"), ("Mp4Track", "sample_count")], regions=("nonfrag", None), floor=UNITS_FLOOR, what="in the non-fragmented lookups")
    # ---------------- R-PURE (instances owned by C15)
    chk.rule("R-PURE", "no interior mutability in reader/track types; lookups take &self (C15 R1/R2 instances)")
    import importlib
    import report
    c15 = importlib.import_module("c15")
    s15 = report.Check("C15")
    s15.finish = lambda *a, **k: 0
    c15.run(fx, s15, tier)
    npure = 0
    for o in s15.obligations:
        r = o["rule"].split(".floor")[0].split(".anchor")[0]
        if r not in ("R1", "R2"):
            continue
        if r == "R1" and not ("Mp4Reader" in o["key"] or "Mp4Track" in o["key"] or "types|" in o["key"] or "static" in o["key"]):
            continue
        if "Writer" in o["key"]:
            continue
        npure += 1
        key = "C15:%s|%s" % (o["rule"], o["key"])
        if o["ok"]:
            chk.ok("R-PURE", key, o["how"], o["site"])
        else:
            chk.bad("R-PURE", key, o["how"], o["site"], o.get("detail"))
    chk.floor("R-PURE", "purity obligations", npure, 10)
    # ---------------- R-IMAGE (instances owned by C04 S8)
    chk.rule("R-IMAGE", "the sample tables the lookups consult are the tables of the file: the decoders of stsz/stsc/stco/co64/stts/ctts/stss do not rewrite what they read (C04 S8 instances)")
    import c04
    from packs_common import compose
    TABLES = ("StszBox", "StscBox", "StcoBox", "Co64Box", "SttsBox", "CttsBox", "StssBox")

    def s8_only(fx_, sub):
        c04.s8(fx_, sub, c04.models(fx_))
    compose(fx, chk, tier, "R-IMAGE", "C04", ["S8"], keyfilter=lambda o: o["key"].split("|")[0] in TABLES, floor=7, what="sample-table decoders", fn=s8_only)
    return chk.finish(
        "other",
        "Absent-table defaults, the count source, lower-bound table footprints, the dimensional consistency of every lookup operation (units, absolute/relative, file/run scope, 64-bit byte and tick arithmetic) and the purity of the lookups are checked on HIR/MIR. "
        "The inclusive / exclusive direction of the run-boundary comparisons is decided (half-open interval discipline). The values the formulas produce are NOT decided: constants are polymorphic in the dimension typing, so an off-by-one in a literal is outside every rule here.",
    )
