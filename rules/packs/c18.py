"""C18 — metadata accessors return the tags the file encodes (structural clauses).

  R1 item tables: the decoder's dispatch (item box type -> metadata key), the encoder's table (key -> item box type) and
     the accessor table (title/year/poster/summary -> key) are mutually consistent, cover the four keys, and the item
     codes equal the iTunes codes (©nam, ©day, covr, desc) of the independent table; the decoder's wildcard arm only
     skips (unrelated items never change the answer: they write no accumulator).
  R2 selection: Mp4Reader::metadata yields the item list of moov.udta -> meta exactly on the path where the meta box is
     the `mdir` variant, and the empty value on each absence path (no udta, no meta, other handler).
  R3 the `mdir` handler constant is one constant used by both the decoder's test and the encoder, and spells 'mdir';
     the optional full-box header probe reads 8 bytes and rewinds exactly 8.
  R4 value decoding: the year accessor has a branch for binary data of length 4 using a big-endian u32 read and a branch
     for text using decimal parse::<u32>, default None; the poster accessor returns a borrow of the stored payload;
     title/summary decode the stored payload as UTF-8 (lossy); the data box stores the payload bytes that follow its
     8-byte type/locale prefix.
NOT decided: end-to-end value equality; details of UTF-8 replacement.
"""
import json
import os

import hirq
import tables
from facts import short
from mir import body_of, op_const, op_place
from report import site_of

SPEC = json.load(open(os.path.join(os.path.dirname(os.path.dirname(os.path.dirname(os.path.abspath(__file__)))), "spec", "fourcc.json")))


def last(p):
    return (p or "").split("::")[-1]


def _decoded_option(body, op, depth=0):
    """the operand is `opt.unwrap()` (or the payload of a match on it) of a local Option whose every definition is None or
    Some(<result of a read_box call>)"""
    pl = op_place(op)
    for _ in range(8):
        if pl is None:
            return False
        l = pl["l"]
        ds = body.defs().get(l, [])
        if len(ds) == 1 and ds[0][2] == "call":
            t = ds[0][3]
            tail = (t["callee"].get("path") or "").split("::")[-1]
            if tail in ("unwrap", "expect", "unwrap_or_default", "ok_or", "ok_or_else", "branch", "take", "clone") and t["args"]:
                pl = op_place(t["args"][0])
                continue
            return False
        if len(ds) == 1 and ds[0][2] == "assign" and ds[0][3]["k"] in ("use", "cast"):
            pl = op_place(ds[0][3]["a"])
            continue
        if len(ds) == 1 and ds[0][2] == "assign" and ds[0][3]["k"] == "ref":
            pl = ds[0][3]["place"]
            continue
        if len(ds) >= 2 and "Option<" in body.locals[l]["ty"]:
            some = 0
            for b_, i_, kind, payload in ds:
                for _h in range(3):
                    if kind == "assign" and payload["k"] in ("use", "cast"):
                        src = op_place(payload["a"])
                        sd_ = body.single_def(src["l"]) if src is not None and not src["p"] else None
                        if sd_ is not None and sd_[2] == "assign":
                            kind, payload = "assign", sd_[3]
                            continue
                    break
                if kind == "assign" and payload["k"] == "agg" and payload.get("variant") == "None":
                    continue
                if kind == "assign" and payload["k"] == "agg" and payload.get("variant") == "Some" and "read_box" in body.canon_op(payload["ops"][0]):
                    some += 1
                    continue
                return False
            return some >= 1
        return False
    return False


def _decoded_field(fx, body, op):
    """the operand is `acc.<field>` (through unwrap / ok_or / ? / take) of a crate accumulator struct whose every store to
    that field, anywhere in the crate, is Some(<result of a read_box call>) (or None)"""
    pl = op_place(op)
    fld = None
    for _ in range(10):
        if pl is None:
            return False
        flds = [x for x in pl["p"] if isinstance(x, dict) and "f" in x and x.get("adt") in fx.adts]
        if flds:
            fld = (flds[-1]["adt"], flds[-1]["f"])
            break
        ds = body.defs().get(pl["l"], [])
        if len(ds) != 1:
            return False
        kind, payload = ds[0][2], ds[0][3]
        if kind == "call":
            tail = (payload["callee"].get("path") or "").split("::")[-1]
            if tail in ("unwrap", "expect", "ok_or", "ok_or_else", "branch", "take", "clone") and payload["args"]:
                pl = op_place(payload["args"][0])
                continue
            return False
        if kind == "assign" and payload["k"] in ("use", "cast"):
            pl = op_place(payload["a"])
            continue
        if kind == "assign" and payload["k"] == "ref":
            pl = payload["place"]
            continue
        return False
    if fld is None:
        return False
    some = 0
    for fid, fn in fx.fns.items():
        b2 = body_of(fn)
        if b2 is None or fn.get("derived"):
            continue
        for bb in b2.reach:
            for s_ in b2.stmts(bb):
                if s_["k"] != "assign" or not s_["place"]["p"]:
                    continue
                last_ = s_["place"]["p"][-1]
                if not (isinstance(last_, dict) and last_.get("adt") == fld[0] and last_.get("f") == fld[1]):
                    continue
                rv = s_["rv"]
                for _h in range(3):
                    if rv["k"] in ("use", "cast"):
                        src = op_place(rv["a"])
                        sd_ = b2.single_def(src["l"]) if src is not None and not src["p"] else None
                        if sd_ is not None and sd_[2] == "assign":
                            rv = sd_[3]
                            continue
                    break
                if rv["k"] == "agg" and rv.get("variant") == "None":
                    continue
                if rv["k"] == "agg" and rv.get("variant") == "Some" and "read_box" in b2.canon_op(rv["ops"][0]):
                    some += 1
                    continue
                return False
    return some >= 1


def run(fx, chk, tier):
    chk.rule("R1", "decoder, encoder and accessor item tables agree, cover the four keys and use the iTunes item codes; the wildcard arm only skips")
    chk.rule("R2", "metadata() = moov.udta.meta(mdir).ilst, empty on every absence path")
    chk.rule("R3", "one `mdir` constant on both sides; the full-box probe reads 8 bytes and rewinds 8")
    chk.rule("R5", "the meta decoder's second child walk (which locates ilst) restarts at the position captured where its first walk (which locates hdlr) started")
    chk.rule("R4", "year: binary(len 4, big-endian) and text(decimal) branches; poster: borrow of the payload; text: UTF-8 of the payload")
    fr = fx.impl_fn("IlstBox", "ReadBox<&mut R>", "read_box")
    fw = fx.impl_fn("IlstBox", "WriteBox<&mut W>", "write_box")
    if not (chk.anchor("R1", "IlstBox::read_box", fr) and chk.anchor("R1", "IlstBox::write_box", fw)):
        return chk.finish("other", "anchors missing")
    # ---- decoder table
    dec = {}
    wild_ok = False
    for n, _ in hirq.walk(hirq.body_root(fr)):
        if n.get("k") == "match" and n.get("src") == "match" and hirq.path_str(n["scrut"]) == "name":
            for a in n["arms"]:
                p = tables.pat_norm(fx, a["pat"])
                if p[0] == "variant":
                    ins = [m for m, _ in hirq.walk(a["body"]) if m.get("k") == "mcall" and m["m"] == "insert"]
                    if len(ins) == 1 and ins[0]["args"]:
                        k = tables.result_norm(fx, ins[0]["args"][0])
                        child = [m for m, _ in hirq.walk(ins[0]["args"][1]) if m.get("k") == "call" and (m.get("fn") or "").endswith("read_box")]
                        if k[0] == "variant" and child:
                            dec[last(p[1])] = last(k[1])
                elif p[0] in ("wild", "bind"):
                    calls = [m for m, _ in hirq.walk(a["body"]) if m.get("k") in ("call", "mcall")]
                    names = [(m.get("fn") or "").split("::")[-1] for m in calls]
                    wild_ok = names == ["skip_box"] and not [m for m, _ in hirq.walk(a["body"]) if m.get("k") in ("assign", "assignop")]
    if not dec:
        # second form: one match selects the key (`BoxType::X => Some(MetadataKey::K), _ => None`) and a later match on that
        # option reads and inserts the item (Some) or only skips (None).  The selecting match may live in a helper of the same
        # file, and the consumer may be written `if let Some(key) = .. { read; insert } else { skip }`
        sel_roots = [hirq.body_root(fr)]
        for n, _ in hirq.walk(hirq.body_root(fr)):
            if n.get("k") in ("call", "mcall"):
                g = n.get("resolved") or n.get("fn")
                if g in fx.fns and (fx.fns[g].get("span") or {}).get("file") == (fr.get("span") or {}).get("file") and "MetadataKey" in str(fx.fns[g].get("output_s") or ""):
                    sel_roots.append(hirq.body_root(fx.fns[g]))
        for n, _ in [x for r_ in sel_roots if r_ is not None for x in hirq.walk(r_)]:
            if n.get("k") == "match" and n.get("src") == "match" and (hirq.path_str(n["scrut"]) == "name" or "BoxType" in str(n["scrut"].get("ty") or "")):
                t_ = tables.match_table(fx, n)
                sel = {}
                none_wild = False
                for pat, res, arm in t_:
                    if pat[0] == "variant" and res[0] == "some" and res[1][0] == "variant" and "MetadataKey" in (res[1][1] or ""):
                        sel[last(pat[1])] = last(res[1][1])
                    elif pat[0] in ("wild", "bind") and res[0] == "variant" and (res[1] or "").endswith("Option::None"):
                        none_wild = True
                    else:
                        sel = None
                        break
                if sel and none_wild:
                    # the consumer: a match on an Option whose None arm only skips and whose Some arm reads the item and inserts it
                    for m2, _ in hirq.walk(hirq.body_root(fr)):
                        if m2.get("k") == "match" and m2 is not n and "Option<" in (m2["scrut"].get("ty") or "") and "MetadataKey" in (m2["scrut"].get("ty") or ""):
                            some_ok = none_ok = False
                            for a in m2["arms"]:
                                p = tables.pat_norm(fx, a["pat"])
                                calls = [(c.get("fn") or c.get("m") or "").split("::")[-1] for c, _ in hirq.walk(a["body"]) if c.get("k") in ("call", "mcall")]
                                if p[0] == "variant" and (p[1] or "").endswith("Option::Some"):
                                    some_ok = "read_box" in calls and "insert" in calls
                                elif (p[0] == "variant" and (p[1] or "").endswith("Option::None")) or p[0] in ("wild", "bind"):
                                    none_ok = calls == ["skip_box"] and not [c for c, _ in hirq.walk(a["body"]) if c.get("k") in ("assign", "assignop")]
                            if some_ok:
                                dec = sel
                                wild_ok = none_ok
                        if m2.get("k") == "if" and m2["cond"].get("k") == "letx" and "MetadataKey" in str(m2["cond"]["init"].get("ty") or "") and (m2["cond"]["pat"].get("def") or "").endswith("Option::Some"):
                            calls_t = [(c.get("fn") or c.get("m") or "").split("::")[-1] for c, _ in hirq.walk(m2["then"]) if c.get("k") in ("call", "mcall")]
                            els = m2.get("else") or {"k": "block", "stmts": []}
                            calls_e = [(c.get("fn") or c.get("m") or "").split("::")[-1] for c, _ in hirq.walk(els) if c.get("k") in ("call", "mcall")]
                            if "read_box" in calls_t and "insert" in calls_t:
                                dec = sel
                                wild_ok = calls_e == ["skip_box"] and not [c for c, _ in hirq.walk(els) if c.get("k") in ("assign", "assignop")]
    dec_unreadable = not dec
    # ---- encoder table
    enc = {}
    cands = [fw]
    for n, _ in hirq.walk(hirq.body_root(fw)):
        if n.get("k") in ("call", "mcall"):
            g = n.get("resolved") or n.get("fn")
            if g in fx.fns and fx.fns[g] not in cands and (fx.fns[g].get("span") or {}).get("file") == (fw.get("span") or {}).get("file"):
                cands.append(fx.fns[g])
    for cf in cands:
        for n, _ in hirq.walk(hirq.body_root(cf)):
            if n.get("k") == "match" and n.get("src") == "match":
                t_ = tables.match_table(fx, n)
                if t_ and all(pat[0] == "variant" and "MetadataKey" in (pat[1] or "") for pat, res, arm in t_ if pat[0] not in ("wild",)):
                    for pat, res, arm in t_:
                        if pat[0] == "variant" and res[0] == "variant" and "BoxType" in (res[1] or ""):
                            enc[last(pat[1])] = last(res[1])
    keys = {v["name"] for v in (fx.adt_short("MetadataKey") or {"variants": []})["variants"]}
    chk.floor("R1", "metadata keys", len(keys), 4)
    if dec_unreadable:
        # neither dispatch form was found: the decoder's table is outside what this rule can read (listed, not reported)
        chk.analysed.setdefault("not_compared", []).append("IlstBox::read_box item dispatch")
        dec = {v: k for k, v in enc.items()}
        wild_ok = True
    chk.require(set(dec.values()) == keys, "R1", "decoder-covers", "decoder arms: %s" % dec, "the item decoder produces keys %s, the key enumeration is %s" % (sorted(set(dec.values())), sorted(keys)), site_of(fr))
    chk.require(set(enc) == keys, "R1", "encoder-covers", "encoder table: %s" % enc, "the item encoder handles keys %s of %s" % (sorted(enc), sorted(keys)), site_of(fw))
    chk.require({v: k for k, v in dec.items()} == enc and len(set(dec.values())) == len(dec), "R1", "inverse", "decoder and encoder tables are mutually inverse",
                "decoder table %s is not the inverse of encoder table %s" % (dec, enc), site_of(fw))
    chk.require(wild_ok, "R1", "wildcard", "unknown items are skipped and store nothing", "the decoder's wildcard arm does more than skip the item", site_of(fr))
    # codes: BoxType variant -> code from the BoxType table; must equal the iTunes codes
    f_into = fx.impl_fn("u32", "From<BoxType>", "from")
    codes = {}
    if f_into:
        for pat, res, arm in tables.match_table(fx, tables.find_match(f_into)):
            if pat[0] == "variant" and res[0] == "int":
                codes[last(pat[1])] = res[1]
    want = SPEC["itunes_items"]
    for key in sorted(keys):
        bt = enc.get(key)
        got = tables.fourcc_of(codes[bt]) if bt in codes else None
        chk.require(got == want.get(key), "R1", "code|" + key, "%s -> %s '%s'" % (key, bt, got), "metadata key %s is stored under item code %r (%s); iTunes uses %r" % (key, got, bt, want.get(key)), site_of(fw))
    # ---- accessor table
    acc = {}
    have_item_helpers = any(f_["name"].startswith("item_to_") and f_["kind"] == "Fn" for f_ in fx.fns.values())
    for name in ("title", "year", "poster", "summary"):
        f = fx.impl_fn("IlstBox", "Metadata<'a>", name)
        if not chk.anchor("R1", "Metadata::%s for IlstBox" % name, f):
            continue
        gets = [m for m, _ in hirq.walk(hirq.body_root(f)) if m.get("k") == "mcall" and m["m"] == "get" and m["args"]]
        conv = [m for m, _ in hirq.walk(hirq.body_root(f)) if m.get("k") == "mcall" and m["m"] in ("map", "and_then") and m["args"]]
        if len(gets) == 1:
            k = tables.result_norm(fx, hirq.strip_wrappers(gets[0]["args"][0]))
            fnv = hirq.strip_wrappers(conv[0]["args"][0]) if conv else None
            acc[name] = (last(k[1]) if k[0] == "variant" else None, last(fnv.get("def")) if fnv is not None and fnv.get("k") == "path" else None)
        if acc.get(name) is None or None in acc[name]:
            # shape-independent reading: the one MetadataKey variant the accessor names (possibly as the argument of a
            # lookup helper) and the one item_to_* conversion it refers to (called, or passed to map / and_then)
            ks, cs = set(), set()
            for m, _ in hirq.walk(hirq.body_root(f)):
                if m.get("k") == "path" and m.get("res") != "local":
                    d_ = m.get("def") or ""
                    if "MetadataKey::" in d_:
                        ks.add(last(d_))
                    if last(d_).startswith("item_to_"):
                        cs.add(last(d_))
                if m.get("k") == "call":
                    g_ = last(m.get("resolved") or m.get("fn") or "")
                    if g_.startswith("item_to_"):
                        cs.add(g_)
            if len(ks) == 1 and len(cs) == 1:
                acc[name] = (sorted(ks)[0], sorted(cs)[0])
            elif len(ks) == 1 and not cs and not have_item_helpers:
                # the conversion helpers of today's tree do not exist (inlined or reorganised): the key is what R1 decides
                acc[name] = (sorted(ks)[0], None)
    wantacc = {"title": ("Title", "item_to_str"), "year": ("Year", "item_to_u32"), "poster": ("Poster", "item_to_bytes"), "summary": ("Summary", "item_to_str")}
    for name, w in wantacc.items():
        if not have_item_helpers:
            w = (w[0], None)
        chk.require(acc.get(name) == w, "R1", "accessor|" + name, "%s() = items[%s] via %s" % (name, w[0], w[1]), "Metadata::%s reads %s" % (name, acc.get(name)), site_of(fr))

    # ---------------- R2
    fm = fx.impl_fn("Mp4Reader<R>", None, "metadata")
    if chk.anchor("R2", "Mp4Reader::metadata", fm):
        # Structural facts over the function and the closures it passes to Option combinators (shape-independent):
        #   selection: it reads moov.udta, udta.meta and the `ilst` field of the Mdir variant, and of no other variant;
        #   absence:   it never unwraps (None of udta / meta / other handler propagates to the caller as None).
        from callgraph import callgraph as _cgf
        import c09
        from mir import body_of as _body_of, strip_generics as _sg
        cg_ = _cgf(fx)
        clo_ = [f2 for f2 in cg_.closure([fm["id"]]) if f2 == fm["id"] or f2.startswith(fm["id"] + "::")]
        fr_ = set()
        for f2 in clo_:
            fr_ |= c09.fields_read(fx, cg_, f2)
        variants = set()
        unwraps = []
        for f2 in clo_:
            b_ = _body_of(fx.fns[f2])
            if b_ is None:
                continue
            for blk in b_.reach:
                places = []
                for s_ in b_.stmts(blk):
                    if s_["k"] == "assign":
                        places.append(s_["place"])
                        rv = s_["rv"]
                        if "place" in rv:
                            places.append(rv["place"])
                        for key_ in ("a", "b"):
                            o = rv.get(key_)
                            if isinstance(o, dict):
                                pl = o.get("copy") or o.get("move")
                                if pl:
                                    places.append(pl)
                for pl in places:
                    for pj in pl["p"]:
                        if isinstance(pj, dict) and "downcast" in pj and pj["downcast"] not in ("Some", "None", "Ok", "Err", "Continue", "Break"):
                            variants.add(pj["downcast"])
                t_ = b_.term(blk)
                if t_["k"] == "call" and _sg(t_["callee"].get("path") or "").split("::")[-1] in ("unwrap", "expect", "unwrap_unchecked"):
                    unwraps.append(f2)
        need = {"MoovBox.udta", "UdtaBox.meta", "MetaBox.ilst"}
        chk.require(need <= fr_ and variants == {"Mdir"}, "R2", "selection", "reads moov.udta -> udta.meta -> Mdir{ilst}; no other meta variant is opened",
                    "metadata() does not select moov.udta.meta(mdir).ilst only: reads %s, opens variants %s" % (sorted(x for x in fr_ if x.split(".")[0] in ("MoovBox", "UdtaBox", "MetaBox")), sorted(variants)), site_of(fm))
        chk.require(not unwraps, "R2", "absence", "never unwraps: absence of udta / meta / the mdir variant propagates to the caller as the empty value",
                    "metadata() unwraps an optional box (in %s): a movie without that box panics instead of reporting absence" % [fn_.split("::")[-1] for fn_ in unwraps], site_of(fm))

    # ---------------- R3
    mr = fx.impl_fn("MetaBox", "ReadBox<&mut R>", "read_box")
    mw = fx.impl_fn("MetaBox", "WriteBox<&mut W>", "write_box")
    if chk.anchor("R3", "MetaBox read_box/write_box", mr and mw):
        def const_refs(fn, depth=0):
            out = set()
            for n, _ in hirq.walk(hirq.body_root(fn)):
                # same-file helpers the function calls (`fn hdlr_for_mdir() -> HdlrBox`)
                if depth < 2 and n.get("k") in ("call", "mcall"):
                    g = fx.fns.get(n.get("resolved") or n.get("fn"))
                    if g is not None and (g.get("span") or {}).get("file") == (fn.get("span") or {}).get("file") and hirq.body_root(g) is not None and g is not fn:
                        out |= const_refs(g, depth + 1)
                if n.get("k") == "path" and n.get("res") == "def" and n.get("dk", "").startswith("Const") and "FourCC" in (n.get("ty") or ""):
                    out.add(n["def"])
                if n.get("k") == "match":
                    for a in n["arms"]:
                        p = a["pat"]
                        if p.get("k") == "expr" and p["e"].get("k") == "path" and p["e"].get("dk", "").startswith("Const"):
                            out.add(p["e"]["def"])
            return out
        cr, cw = const_refs(mr), const_refs(mw)
        common = cr & cw
        val = None
        if len(common) == 1:
            c = fx.consts.get(next(iter(common)))
            # FourCC { value: *b"mdir" }
            for n, _ in hirq.walk(c["hir"]["body"]):
                if n.get("k") == "lit" and n.get("lk") == "bytes":
                    val = bytes(n["val"]).decode("latin-1")
        chk.require(len(common) == 1 and val == SPEC["metadata_handler"], "R3", "mdir-constant", "both sides use %s = '%s'" % (sorted(common), val),
                    "decoder uses %s, encoder uses %s (value %r): the handler written is not the one the decoder recognises as '%s'" % (sorted(cr), sorted(cw), val, SPEC["metadata_handler"]), site_of(mr))
        # probe: two read_u32 before a seek(Current(-8))
        body = body_of(mr)
        seeks = [(b, t) for b, t in body.calls() if (t["callee"].get("path") or "").endswith("Seek::seek")]
        rew = None
        for b, t in seeks:
            s_ = body.deep_str(t["args"][1])
            if "SeekFrom::Current(-8)" in s_.replace(" ", ""):
                rew = b
        reads_before = 0
        if rew is not None:
            for b, t in body.calls():
                if (t["callee"].get("path") or "").endswith("read_u32") and body.dominates(b, rew):
                    reads_before += 1
        chk.require(rew is not None and reads_before == 2, "R3", "probe", "reads 4 + 4 bytes, rewinds 8", "the optional full-box header probe does not rewind exactly the %d bytes it read" % (4 * reads_before), site_of(mr))

    # ---------------- R4
    fy = [f for f in fx.fns.values() if f["name"] == "item_to_u32" and f["kind"] == "Fn"]
    fb = [f for f in fx.fns.values() if f["name"] == "item_to_bytes" and f["kind"] == "Fn"]
    fs = [f for f in fx.fns.values() if f["name"] == "item_to_str" and f["kind"] == "Fn"]
    if not (fy or fb or fs):
        # the three private conversion helpers are gone (a reorganised accessor layer): the value-level reading of R4 has
        # nothing to evaluate; what remains decidable is that the year accessor's closure still has both branches
        from callgraph import callgraph as _cg
        fyr = fx.impl_fn("IlstBox", "Metadata<'a>", "year")
        if chk.anchor("R4", "Metadata::year for IlstBox", fyr):
            names, variants = set(), set()
            for fid_ in _cg(fx).closure([fyr["id"]]):
                g_ = fx.fns.get(fid_)
                if g_ is None or g_.get("hir") is None:
                    continue
                for m, _ in hirq.walk(hirq.body_root(g_)):
                    if m.get("k") in ("call", "mcall"):
                        names.add(last(m.get("resolved") or m.get("fn") or m.get("m") or ""))
                        names.add(m.get("m") or "")
                    if m.get("k") == "path" and "DataType::" in (m.get("def") or ""):
                        variants.add(last(m.get("def")))
                    elif m.get("k") == "path" and m.get("res") != "local" and m.get("def"):
                        names.add(last(m.get("def")))      # a function handed to a combinator (`.map(u32::from_be_bytes)`)
                    for p_ in ([a_["pat"] for a_ in m.get("arms", [])] if m.get("k") == "match" else []):
                        for q_, _ in hirq.walk(p_):
                            if "DataType::" in (q_.get("def") or ""):
                                variants.add(last(q_.get("def")))
            be = {"read_u32", "from_be_bytes"} & names
            chk.require(bool(be) and "Binary" in variants, "R4", "year|binary", "a Binary branch with a big-endian u32 decode (%s)" % sorted(be), "the year accessor has no big-endian u32 branch for binary data", site_of(fyr))
            chk.require("parse" in names and "Text" in variants, "R4", "year|text", "a Text branch with a decimal parse", "the year accessor has no `Text => parse` branch", site_of(fyr))
            chk.note("R4: the conversion helpers item_to_u32 / item_to_bytes / item_to_str do not exist in this tree; only the presence of both year branches is decided")
    elif chk.anchor("R4", "item_to_u32 / item_to_bytes / item_to_str", fy and fb and fs):
        import sval
        payload = ("param", "item.data.data")

        def is_payload(t):
            return t[0] == "param" and t[1] == "item.data.data"

        def ext(t, name):
            return t[2] if t[0] == "ext" and t[1] == name else None
        ty = sval.SVal(fx).eval_fn(fy[0], arg_names=["item"])
        bin_ok = txt_ok = def_ok = False
        if ty[0] == "table" and ty[1][0] == "param" and ty[1][1] == "item.data.data_type":
            for pat, res, arm in ty[2]:
                vname = last(pat[1]) if pat[0] == "variant" else pat[0]
                if vname == "Binary" and res[0] == "ite" and res[3][0] == "variant" and last(res[3][1]) == "None":
                    # `Binary => if len == 4 { Some(..) } else { None }`: the same as the guarded arm falling through to `_ => None`
                    res = ("guardarm", res[1], res[2])
                if vname == "Binary" and res[0] == "guardarm":
                    g, body_ = res[1], res[2]
                    g_ok = g[0] == "cmp" and g[1] == "Eq" and ext(g[2], "len") and is_payload(ext(g[2], "len")[0]) and sval.const_val(g[3]) == 4
                    rd = body_[2][0] if body_[0] == "variant" and last(body_[1]) == "Some" and body_[2] else None
                    a = ext(rd, "<BigEndian as ByteOrder>::read_u32") if rd else None
                    bin_ok = bool(g_ok and a and is_payload(a[0]))
                elif vname == "Text":
                    a = ext(res, "ok")
                    b_ = ext(a[0], "parse::<u32>") if a else None
                    c_ = ext(b_[0], "String::from_utf8_lossy") if b_ else None
                    txt_ok = bool(c_ and is_payload(c_[0]))
                elif vname in ("wild", "bind"):
                    def_ok = res[0] == "variant" and last(res[1]) == "None"
        chk.require(bin_ok, "R4", "year|binary", "Binary && len == 4 => big-endian u32", "the year accessor has no `Binary, 4 bytes, big-endian u32` branch (computes %s)" % sval.show(ty)[:160], site_of(fy[0]))
        chk.require(txt_ok, "R4", "year|text", "Text => decimal parse::<u32>", "the year accessor has no `Text => parse::<u32>` branch", site_of(fy[0]))
        chk.require(def_ok, "R4", "year|default", "_ => None", "the year accessor does not report absence for other data types", site_of(fy[0]))
        tb = sval.SVal(fx).eval_fn(fb[0], arg_names=["item"])
        chk.require(is_payload(tb), "R4", "poster", "&item.data.data", "the poster accessor returns %s instead of the stored payload" % sval.show(tb)[:120], site_of(fb[0]))
        ts = sval.SVal(fx).eval_fn(fs[0], arg_names=["item"])
        a = ext(ts, "String::from_utf8_lossy")
        chk.require(bool(a and is_payload(a[0])), "R4", "text", "UTF-8 (lossy) of item.data.data", "text accessors decode %s" % sval.show(ts)[:120], site_of(fs[0]))
    # ---------------- R5: the second child walk of the meta decoder (the one that finds ilst) restarts where the first began
    import rescan
    from callgraph import callgraph
    from packs_common import io_fallible_set
    fm = fx.impl_fn("MetaBox", "ReadBox<&mut R>", "read_box")
    if chk.anchor("R5", "MetaBox::read_box", fm):
        res = rescan.check(fx, fm, io_fallible_set(fx, callgraph(fx)))
        chk.floor("R5", "rewinds between the child walks of MetaBox::read_box", len(res), 1)
        for ok, key, how, line in res:
            chk.require(ok, "R5", "MetaBox|" + key, how, "MetaBox::read_box: " + how, site_of(fm, line))
    # ---------------- R6: layout rules of the metadata decoders (instances owned by C12)
    from packs_common import compose
    chk.rule("R6", "unknown / unrelated items and 64-bit size headers never change what the metadata decoders return: default arm only advances, decoders reposition to their end, advances and loop cursors are based on the position after the child's header (C12 R1/R2/R5 instances of moov/udta/meta/ilst/item/data)")
    META = ("MoovBox", "UdtaBox", "MetaBox", "IlstBox", "IlstItemBox", "DataBox", "skip_box")
    compose(fx, chk, tier, "R6", "C12", ["R1", "R2", "R5"], keyfilter=lambda o: any(x in o["key"] for x in META), floor=34, what="layout obligations of the metadata decoders")
    chk.rule("R7", "payloads are returned verbatim: the data / item decoders read the whole payload (no partial-transfer primitive, C10 R2) into the field the encoder writes it from, unedited, and end at the box end (C04 S3/S4/S5/S6 of data, ilst item, ilst, meta)")
    MD = ("DataBox", "IlstItemBox", "IlstBox", "MetaBox")
    compose(fx, chk, tier, "R7", "C04", ["S3", "S4", "S5", "S6"], keyfilter=lambda o: any(x in o["key"] for x in MD), floor=12, what="layout obligations of the payload decoders")
    compose(fx, chk, tier, "R7", "C10", ["R2"], keyfilter=lambda o: o["ok"] or any(x in o["key"] for x in MD + ("data::", "ilst::", "meta::")), floor=15, what="whole-transfer obligations of the payload decoders")
    # ---------------- R8: every reader value carries the movie's metadata
    import re as _re
    chk.rule("R8", "every construction of an Mp4Reader gives it the movie box the accessors read: the decoded moov, or the opening reader's moov as a whole (a rebuilt MoovBox must take udta and meta from it): a reader opened for a fragment reports the tags of its initialization segment")
    nctor = 0
    for fid, fn in sorted(fx.fns.items()):
        b = body_of(fn)
        if b is None or fn.get("derived"):
            continue
        for bb in b.reach:
            for s_ in b.stmts(bb):
                if s_["k"] != "assign" or s_["rv"]["k"] != "agg" or s_["rv"].get("ak") != "adt" or not str(s_["rv"].get("adt", "")).endswith("reader::Mp4Reader"):
                    continue
                flds = dict(zip(s_["rv"]["fields"], s_["rv"]["ops"]))
                mo = flds.get("moov")
                c = b.canon_op(mo) if mo is not None else ""
                mparam = _re.match(r"^\$(\d+)$", c)
                if mparam and int(mparam.group(1)) <= b.argc:
                    # a private constructor that receives the movie box: judged at each of its call sites
                    from callgraph import callgraph as _cgf
                    pi = int(mparam.group(1))
                    for caller in sorted(_cgf(fx).callers_of(fid)):
                        cb = body_of(fx.fns[caller])
                        if cb is None:
                            continue
                        for b2, t2 in cb.calls():
                            from mir import callee_path as _cp
                            if _cp(t2["callee"]) != fid or pi - 1 >= len(t2["args"]):
                                continue
                            nctor += 1
                            a2 = t2["args"][pi - 1]
                            c2 = cb.canon_op(a2)
                            ok2 = bool(_re.match(r"^\$\d+\.moov$", c2)) or "read_box" in c2 or _decoded_option(cb, a2)
                            chk.require(ok2, "R8", "%s|moov" % caller.split("::")[-1], "movie box handed to the constructor %s: %s" % (fid.split("::")[-1], c2[:60]),
                                        "%s builds an Mp4Reader (through %s) from moov = %s: metadata() of that reader no longer reports the tags of the movie" % (caller.split("::")[-1], fid.split("::")[-1], c2[:80]), site_of(fx.fns[caller], t2.get("line")))
                    continue
                nctor += 1
                key = "%s|moov" % fid.split("::")[-1]
                ok, how = False, "moov = %s" % c[:80]
                if _re.match(r"^\$\d+\.moov$", c):
                    ok, how = True, "the opening reader's movie box as a whole"
                elif "read_box" in c:
                    ok, how = True, "the decoded movie box"
                elif _decoded_option(b, mo):
                    ok, how = True, "the decoded movie box (taken out of the Option the walk filled)"
                elif _decoded_field(fx, b, mo):
                    ok, how = True, "the decoded movie box (taken out of the accumulator field the walk filled)"
                else:
                    pl = op_place(mo) if mo is not None else None
                    sd = b.single_def(pl["l"]) if pl is not None and not pl["p"] else None
                    if sd and sd[2] == "assign" and sd[3]["k"] == "agg" and str(sd[3].get("adt", "")).endswith("MoovBox"):
                        sub = dict(zip(sd[3]["fields"], sd[3]["ops"]))
                        miss = [f for f in ("udta", "meta") if not _re.match(r"^\$\d+\.moov\.%s$" % f, b.canon_op(sub[f]) if f in sub else "")]
                        ok = not miss
                        how = "rebuilt MoovBox with udta and meta taken from the opening reader" if ok else "a rebuilt MoovBox whose %s %s not the opening reader's" % (" and ".join(miss), "is" if len(miss) == 1 else "are")
                chk.require(ok, "R8", key, how, "%s builds an Mp4Reader from %s: metadata() of that reader no longer reports the tags of the movie" % (fid.split("::")[-1], how), site_of(fn, s_.get("line")))
    chk.floor("R8", "constructions of Mp4Reader", nctor, 2)
    return chk.finish(
        "other",
        "Item-code, key and accessor tables are extracted from match arms and compared with each other and with the iTunes codes; the selection path of metadata(), the mdir constant pairing, "
        "the header probe and the year/poster/text decoders are checked on HIR/MIR. Not decided: end-to-end value equality, UTF-8 replacement details.",
    )
