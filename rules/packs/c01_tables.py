"""C01 R6/R7 -- lazily created and run-length sample tables of the muxer.

R6 (absent-table agreement, sibling rule with C03 R-DEFAULT): for each optional sample table T of stbl that the track
   writer creates lazily (ctts, stss), every path of the bookkeeping routine that leaves T absent is a path on which the
   sample attribute equals the value the demuxer reports for an absent T (ctts: offset 0, stss: sync = true).
R7 (count conservation): writing one sample adds exactly one sample to every run-length table that exists
   (sum of `sample_count` pushed + increments == 1 on every path), a table created lazily is back-filled with exactly
   the number of samples written before (== n + 1 in total), and a loop that back-fills a per-sample vector runs exactly
   n times, where n = number of samples already written.  n is related to the writer's counters by counter equations
   extracted from the code: a counter c that every successful write_sample changes by exactly +1 has the value
   init(c) + n + (increments already executed in this call).

Both are decided by trace-partitioned abstract interpretation (pathwise.py) over the MIR of the handful of bookkeeping
routines; expressions are evaluated to linear forms over the writer's counters.  Nothing is executed."""
import re

import pathwise
from facts import short
from mir import body_of, callee_path, op_place, place_key, strip_generics
from panicfree import fn_short
from report import site_of

SELF = (1, "deref")


# ------------------------------------------------------------------------------------------------ linear forms
def l_const(c):
    return {(): c}


def l_add(a, b, sign=1):
    if a is None or b is None:
        return None
    out = dict(a)
    for k, v in b.items():
        out[k] = out.get(k, 0) + sign * v
    return {k: v for k, v in out.items() if v != 0 or k == ()}


def l_scale(a, c):
    if a is None:
        return None
    return {k: v * c for k, v in a.items()}


def l_str(a):
    if a is None:
        return "?"
    parts = []
    for k, v in sorted(a.items(), key=lambda kv: str(kv[0])):
        if k == ():
            if v or len(a) == 1:
                parts.append(str(v))
        else:
            nm = "".join(x for x in k if isinstance(x, str)).lstrip(".") if isinstance(k, tuple) else str(k)
            parts.append(("%s" % nm) if v == 1 else "%d*%s" % (v, nm))
    return " + ".join(parts) or "0"


class Lin:
    """evaluates symbols of one pathwise interpreter to linear forms over place variables"""

    def __init__(self, it):
        self.it = it
        self.inv = {}
        self.varsym = {}

    def site(self, sid):
        if len(self.inv) != len(self.it.site_syms):
            self.inv = {v: k for k, v in self.it.site_syms.items()}
        return self.inv.get(sid)

    def var_of_key(self, key):
        """place key -> variable name: fields of self lose the `(*self)` prefix and `as Some`.0 steps"""
        if key[:2] == SELF:
            return tuple(k for k in key[2:] if k not in ("as Some", ".0") or not isinstance(k, str))
        return key

    def sym(self, st, sid, depth=0):
        if sid is None or depth > 12:
            return None
        lo, hi = self.it.iv(st, sid)
        sm = self.it.syms[sid]
        d = sm.defn
        site = self.site(sid)
        if d and d[0] in ("math", "bin") and d[1] in ("Add", "Sub", "Mul"):
            if d[0] == "math":
                _, base, a, b, alo, ahi, blo, bhi = d
            else:
                _, base, a, b, (alo, ahi), (blo, bhi) = d
            la = self.sym(st, a, depth + 1) if a is not None else (l_const(alo) if alo is not None and alo == ahi else None)
            lb = self.sym(st, b, depth + 1) if b is not None else (l_const(blo) if blo is not None and blo == bhi else None)
            if base == "Add":
                return l_add(la, lb)
            if base == "Sub":
                return l_add(la, lb, -1)
            if la is not None and lb is not None:
                if set(la) <= {()}:
                    return l_scale(lb, la.get((), 0))
                if set(lb) <= {()}:
                    return l_scale(la, lb.get((), 0))
            return None
        if d and d[0] == "cast" and len(d) > 1 and isinstance(d[1], int):
            return self.sym(st, d[1], depth + 1)
        if site and site[0] == "rd":
            v = self.var_of_key(site[2])
            self.varsym[v] = sid
            return {v: 1}
        if site and site[0] == "param":
            v = ("param", site[1])
            self.varsym[v] = sid
            return {v: 1}
        if lo is not None and lo == hi:
            return l_const(lo)
        v = ("sym", sid)
        self.varsym[v] = sid
        return {v: 1}

    def op(self, st, op, at):
        sid, lo, hi, prov = self.it.read_op(st, op, at)
        if sid is None:
            return l_const(lo) if lo is not None and lo == hi else None
        return self.sym(st, sid)


# ------------------------------------------------------------------------------------------------ discovery
def run_length_tables(fx):
    """{entry adt id: (box adt id, count field index)} for boxes with `entries: Vec<E>` where E has a `sample_count` field"""
    out = {}
    for aid, a in fx.adts.items():
        if a["kind"] != "Struct":
            continue
        for f in a["variants"][0]["fields"]:
            t = f["ty"]
            if f["name"] == "entries" and t.get("adt") == "alloc::vec::Vec" and t["args"] and "adt" in t["args"][0]:
                e = fx.adts.get(t["args"][0]["adt"])
                if e and e["kind"] == "Struct":
                    names = [x["name"] for x in e["variants"][0]["fields"]]
                    if "sample_count" in names:
                        out[e["id"]] = (aid, names.index("sample_count"))
    return out


def stbl_field_of(fx, box_adt):
    stbl = fx.adt_short("StblBox")
    for f in stbl["variants"][0]["fields"]:
        t = f["ty"]
        if t.get("adt") == box_adt:
            return f["name"], False
        if t.get("adt") == "core::option::Option" and t["args"] and t["args"][0].get("adt") == box_adt:
            return f["name"], True
    return None, None


def default_int(fx, adt_id, path, depth=0):
    """value of the integer field reached by `path` (list of field names) in <adt as Default>::default(), or None"""
    if depth > 10:
        return None
    adt = fx.adts.get(adt_id)
    if adt is None or adt["kind"] != "Struct":
        return None
    im = [i for i in fx.impls if (i.get("trait_path") or "").endswith("default::Default") and i["self_ty"] == adt_id]
    if len(im) != 1:
        return None
    fld = [f for f in adt["variants"][0]["fields"] if f["name"] == path[0]]
    if not fld:
        return None
    fty = fld[0]["ty"]
    if im[0].get("derived"):
        if len(path) == 1:
            return 0 if "p" in fty and re.match(r"[iu](8|16|32|64|128|size)$", fty["p"]) else None
        if "adt" in fty and fty["adt"] in fx.adts:
            return default_int(fx, fty["adt"], path[1:], depth + 1)
        return None
    # hand-written Default: the struct literal in its body
    import hirq
    fn = fx.fns.get(im[0]["id"] + "::default")
    root = hirq.body_root(fn) if fn else None
    if root is None:
        return None
    lits = [n for n, _ in hirq.walk(root) if n.get("k") == "struct" and (n.get("def") or "") == adt_id]
    if len(lits) != 1:
        return None
    for f in lits[0]["fields"]:
        if f["name"] == path[0]:
            e = f["e"]
            if len(path) == 1:
                return e.get("val") if e.get("k") == "lit" and isinstance(e.get("val"), int) else None
            if e.get("k") in ("call", "mcall") and (e.get("fn") or e.get("m") or "").endswith("default") and "adt" in fty:
                return default_int(fx, fty["adt"], path[1:], depth + 1)
            return None
    return None


def initial_value(fx, ctor, var):
    """initial value of the writer's integer field `var` (tuple of '.field' steps) as established by the constructor"""
    import hirq
    path = [x[1:] for x in var]
    root = hirq.body_root(ctor)
    wid = ctor["impl"]["self_ty"]
    lits = [n for n, _ in hirq.walk(root) if n.get("k") == "struct" and (n.get("def") or "") == wid]
    if len(lits) != 1:
        return None
    lit = lits[0]
    for f in lit["fields"]:
        if f["name"] == path[0]:
            e = f["e"]
            if len(path) == 1:
                return e.get("val") if e.get("k") == "lit" and isinstance(e.get("val"), int) else None
            # a local initialised by T::default() and then only assigned on other field paths
            if e.get("k") == "path" and e.get("res") == "local":
                init = None
                for n, _ in hirq.walk(root):
                    if n.get("k") == "let" and n["pat"].get("k") == "bind" and n["pat"].get("lid") == e.get("lid") and "init" in n:
                        init = n["init"]
                if init is None or not (init.get("k") in ("call", "mcall") and (init.get("fn") or init.get("m") or "").endswith("default")):
                    return None
                # assignments `local.a.b = ..` that touch the counter's path
                for n, _ in hirq.walk(root):
                    if n.get("k") in ("assign", "assignop"):
                        s = hirq.expr_str(n.get("l") or n.get("lhs") or {})
                        tgt = e["name"] + "." + ".".join(path[1:])
                        if s and (tgt == s or tgt.startswith(s + ".") or s.startswith(tgt + ".")):
                            return None
                adt = fx.adts.get(wid)
                fty = [x for x in adt["variants"][0]["fields"] if x["name"] == path[0]][0]["ty"]
                return default_int(fx, fty.get("adt"), path[1:])
            return None
    if lit.get("base") is not None or lit.get("rest") is not None or True:
        # `..Self::default()`
        return default_int(fx, wid, path)


# ------------------------------------------------------------------------------------------------ per-function path facts
class PathFacts:
    def __init__(self, it, blocks, events, st, exit_kind):
        self.it, self.blocks, self.events, self.st, self.exit_kind = it, blocks, events, st, exit_kind
        self.lin = Lin(it)


def self_int_var(body, place, it=None, st=None):
    """variable name when `place` is an integer field reached from `*self` (directly or through a `&mut` alias of a part of self)"""
    key = place_key(place)
    if it is not None and st is not None:
        key = it.norm_target(st, key)
    if key[:2] != SELF or len(key) < 3:
        return None
    if not re.match(r"[iu](8|16|32|64|size)$", place.get("ty", "")):
        return None
    return tuple(key[2:])


def counter_effects(fx, cg_fns, fid, memo, depth=0):
    """per function: {var: const delta or None} over its returning paths, composed through calls on the same receiver"""
    if fid in memo:
        return memo[fid]
    memo[fid] = {}
    fn = fx.fns.get(fid)
    body = body_of(fn) if fn else None
    if body is None or depth > 6:
        return {}
    res = None
    for it, blocks, events, st, kind in pathwise.paths(fx, body):
        if kind != "return":
            continue
        eff = path_counter_effects(fx, body, it, events, memo, depth)
        if res is None:
            res = dict(eff)
        else:
            for k in set(res) | set(eff):
                a, b = res.get(k, 0), eff.get(k, 0)
                res[k] = a if a == b else None
    memo[fid] = res or {}
    return memo[fid]


def path_counter_effects(fx, body, it, events, memo, depth, upto=None, snapshots=None):
    """walk the events of one path, accumulating constant deltas of self's integer fields; `snapshots` (dict) receives
    a copy of the accumulated deltas at every call to a crate function on the same receiver"""
    lin = Lin(it)
    eff = {}
    for e in events:
        if e.kind == "assign":
            v = self_int_var(body, e.data["place"], it, e.state)
            if v is None:
                continue
            rv = e.data["rv"]
            new = lin.op(e.state, rv["a"], (e.block, e.index)) if rv["k"] == "use" else None
            if new is not None and set(new) <= {v, ()} and new.get(v, 0) == 1:
                if eff.get(v, 0) is not None:
                    eff[v] = eff.get(v, 0) + new.get((), 0)
            else:
                eff[v] = None
        else:
            t = e.data
            p = callee_path(t["callee"])
            if p in fx.fns and t["args"]:
                tgt = it.ref_target(e.state, t["args"][0])
                if tgt == SELF:
                    if snapshots is not None:
                        snapshots.setdefault(p, []).append(dict(eff))
                    sub = counter_effects(fx, None, p, memo, depth + 1)
                    for k, dv in sub.items():
                        if dv is None or eff.get(k, 0) is None:
                            eff[k] = None
                        else:
                            eff[k] = eff.get(k, 0) + dv
    return eff


def is_ok_path(body, events):
    last = None
    for e in events:
        if e.kind == "assign" and e.data["place"]["l"] == 0 and not e.data["place"]["p"]:
            last = e.data["rv"]
        elif e.kind == "call" and e.data.get("dest") and e.data["dest"]["l"] == 0 and not e.data["dest"]["p"]:
            last = None
    return last is not None and last["k"] == "agg" and "Ok" in body.rv_str(last)


# ------------------------------------------------------------------------------------------------ the rules
def run(fx, chk, cg, tw):
    from c03 import opt_field_switches, ABSENT_DEFAULT
    chk.rule("R6", "a lazily created sample table stays absent only for samples whose attribute equals what the demuxer reports without that table (sibling of C03 R-DEFAULT)")
    chk.rule("R7", "count conservation: each existing run-length table grows by exactly one sample per write_sample; a lazily created table and a back-filled vector cover exactly the samples written before")
    wid = tw["impl"]["self_ty"]
    ctor = fx.impl_fn(short(wid), None, "new")
    body_tw = body_of(tw)
    clo = [f for f in cg.closure([tw["id"]]) if (fx.fns[f].get("impl") or {}).get("self_ty") == wid and f != tw["id"]]
    memo = {}
    # ---- counter equations from write_sample
    at_call = {}     # callee -> {var: offset or None}
    total = None
    npaths = 0
    for it, blocks, events, st, kind in pathwise.paths(fx, body_tw):
        if kind != "return" or not is_ok_path(body_tw, events):
            continue
        npaths += 1
        snaps = {}
        eff = path_counter_effects(fx, body_tw, it, events, memo, 0, snapshots=snaps)
        for callee, lst in snaps.items():
            for snap in lst:
                cur = at_call.setdefault(callee, dict(snap))
                for k in set(cur) | set(snap):
                    a, b = cur.get(k, 0), snap.get(k, 0)
                    cur[k] = a if a == b else None
        if total is None:
            total = dict(eff)
        else:
            for k in set(total) | set(eff):
                a, b = total.get(k, 0), eff.get(k, 0)
                total[k] = a if a == b else None
    chk.floor("R7", "successful paths through the track writer's write_sample", npaths, 2)
    total = total or {}
    sample_counters = sorted(k for k, v in total.items() if v == 1)
    chk.analysed["sample_counters"] = ["".join(k).lstrip(".") for k in sample_counters]
    chk.floor("R7", "counters incremented exactly once per written sample", len(sample_counters), 2)

    def n_form(var, callee, extra):
        """(a, b) with value(var) == a*n + b at the moment `callee` is entered (+ `extra` executed inside it)"""
        if total.get(var, 0) == 0 and var not in total:
            return None
        tv = total.get(var)
        if tv not in (0, 1):
            return None
        off = (at_call.get(callee) or {}).get(var, 0)
        if off is None or ctor is None:
            return None
        init = initial_value(fx, ctor, var)
        if init is None:
            return None
        return (tv, init + off + extra)

    tables = run_length_tables(fx)
    chk.floor("R7", "run-length sample tables (entries with a sample_count field)", len(tables), 2)
    n6 = n7 = 0
    undecided = []
    for fid in sorted(clo):
        fn = fx.fns[fid]
        body = body_of(fn)
        if body is None or fn["kind"] == "Closure":
            continue          # a closure's effects belong to the function that runs it
        # which optional stbl tables does this function create?  (assignment to ...stbl.<field>)
        created = set()
        touched = set()
        for b in body.reach:
            for s in body.stmts(b):
                if s["k"] == "assign":
                    pr = s["place"]["p"]
                    if s["place"]["l"] == 1 and pr and isinstance(pr[-1], dict) and short(pr[-1].get("adt") or "") == "StblBox" and s["place"].get("ty", "").startswith("core::option::Option<"):
                        created.add(pr[-1]["f"])
                    if pr and isinstance(pr[-1], dict) and pr[-1].get("f") == "sample_count" and pr[-1].get("adt") in tables:
                        touched.add(pr[-1]["adt"])
        for b, t in body.calls():
            if strip_generics(t["callee"].get("path") or "") == "alloc::vec::Vec::push" and len(t["args"]) == 2:
                pl_ = op_place(t["args"][1])
                for eadt_ in tables:
                    if pl_ is not None and (pl_["ty"] == eadt_ or pl_["ty"].endswith("::" + short(eadt_)) or pl_["ty"] == short(eadt_)):
                        touched.add(eadt_)
        # creation through Option::get_or_insert_with / insert / get_or_insert / replace on the table field
        creating_calls = {}
        for b, t in body.calls():
            if strip_generics(t["callee"].get("path") or "") in ("core::option::Option::get_or_insert_with", "core::option::Option::get_or_insert", "core::option::Option::insert", "core::option::Option::replace") and t["args"]:
                pl = op_place(t["args"][0])
                d = body.single_def(pl["l"]) if pl is not None and not pl["p"] else None
                src = d[3]["place"] if d and d[2] == "assign" and d[3]["k"] == "ref" else None
                # follow one more level: `let stbl = &mut self...stbl; stbl.stss.get_or_insert_with(..)`
                if src is not None:
                    root = src
                    d2 = body.single_def(src["l"]) if src["l"] != 1 else None
                    pr = list(src["p"])
                    if d2 and d2[2] == "assign" and d2[3]["k"] == "ref":
                        pr = list(d2[3]["place"]["p"]) + [x for x in pr if x != "deref"]
                    last = pr[-1] if pr else None
                    if isinstance(last, dict) and short(last.get("adt") or "") == "StblBox":
                        created.add(last["f"])
                        creating_calls.setdefault(last["f"], set()).add(b)
        vec_pushes = [(b, t) for b, t in body.calls() if strip_generics(t["callee"].get("path") or "") == "alloc::vec::Vec::push"]
        if not created and not touched and not vec_pushes:
            continue
        sw = {f: opt_field_switches(body, f) for f in created}
        allp = pathwise.paths(fx, body)
        for f in sorted(created):
            if f not in ABSENT_DEFAULT:
                continue
            want = ABSENT_DEFAULT[f]
            n6 += 1
            bad = None
            nabs = 0
            for it, blocks, events, st, kind in allp:
                if kind != "return":
                    continue
                ent = entry_state(sw[f], blocks)
                stored = any(e.kind == "assign" and e.data["place"]["l"] == 1 and e.data["place"]["p"] and isinstance(e.data["place"]["p"][-1], dict) and e.data["place"]["p"][-1].get("f") == f and short(e.data["place"]["p"][-1].get("adt") or "") == "StblBox" for e in events)
                if any(b0 in blocks for b0 in creating_calls.get(f, ())):
                    stored = True
                if (ent != "None" and (sw[f] or ent is not None)) or stored:
                    continue
                if not sw[f] and not creating_calls.get(f):
                    continue
                nabs += 1
                psid = it.site_syms.get(("param", 2))
                if "Mp4Sample" in body.locals[2]["ty"]:
                    # the routine is handed the whole sample: the attribute is the field the table stores
                    psid = st.cells.get((2, "deref", "." + {"ctts": "rendering_offset", "stss": "is_sync"}[f]))
                iv = it.iv(st, psid) if psid is not None else (None, None)
                if iv != (want, want):
                    bad = iv
            key = "%s|%s-stays-absent" % (fn_short(fid), f)
            chk.require(bad is None, "R6", key, "%d path(s) leave stbl.%s absent, all with the attribute == %s" % (nabs, f, want),
                        "%s leaves stbl.%s absent for samples whose attribute is in %s, but without that table the demuxer reports %s for every sample: those samples read back wrong" % (fn_short(fid), f, list(bad) if bad else "", want), site_of(fn))
        # ---- R7 on run-length tables
        for eadt in sorted(touched):
            box, cidx = tables[eadt]
            fname, optional = stbl_field_of(fx, box)
            if fname is None:
                continue
            sws = opt_field_switches(body, fname) if optional else []
            for pi, (it, blocks, events, st, kind) in enumerate(allp):
                if kind != "return":
                    continue
                lin = Lin(it)
                delta = l_const(0)
                for e in events:
                    if e.kind == "call" and strip_generics(e.data["callee"].get("path") or "") == "alloc::vec::Vec::push" and len(e.data["args"]) == 2:
                        pl = op_place(e.data["args"][1])
                        if pl is None or not pl["ty"].endswith(short(eadt)) and pl["ty"] != eadt:
                            continue
                        sid = e.state.cells.get((pl["l"], ".sample_count"))
                        delta = l_add(delta, lin.sym(e.state, sid) if sid is not None else None)
                    elif e.kind == "assign":
                        pr = e.data["place"]["p"]
                        if pr and isinstance(pr[-1], dict) and pr[-1].get("f") == "sample_count" and pr[-1].get("adt") == eadt and e.data["rv"]["k"] == "use":
                            new = lin.op(e.state, e.data["rv"]["a"], (e.block, e.index))
                            # the old value is read through a reference temporary of the same entry type (`ref mut entry`
                            # yields `&mut &mut E`: the load and the store use different temporaries of one reference)
                            ovs = [v for v in (new or {}) if isinstance(v, tuple) and v and v[-1] == ".sample_count" and isinstance(v[0], int)
                                   and short(eadt) in body.locals[v[0]]["ty"] and new[v] == 1]
                            if new is not None and len(ovs) == 1:
                                new = dict(new)
                                del new[ovs[0]]
                                delta = l_add(delta, new)
                            else:
                                delta = None
                ent = entry_state(sws, blocks) if optional else "Some"
                stored = optional and any(e.kind == "assign" and e.data["place"]["l"] == 1 and e.data["place"]["p"] and isinstance(e.data["place"]["p"][-1], dict) and e.data["place"]["p"][-1].get("f") == fname and short(e.data["place"]["p"][-1].get("adt") or "") == "StblBox" for e in events)
                if optional and any(b0 in blocks for b0 in creating_calls.get(fname, ())):
                    stored = True       # created through Option::get_or_insert_with / insert on this path
                if optional and ent == "None" and not stored:
                    continue      # table stays absent: R6's subject
                created_here = optional and ent == "None" and stored
                n7 += 1
                verdict, why = judge(fx, lin, st, delta, created_here, fid, n_form)
                if optional and ent == "None" and any(b0 in blocks for b0 in creating_calls.get(fname, ())):
                    # the table is created on this path by Option::get_or_insert_with: its initial contents are built in the
                    # closure.  Follow it: per closure path, the parent's additions plus the closure's must be n + 1.
                    cc = closure_contrib(fx, body, it, events, blocks, creating_calls.get(fname, ()), eadt, fid, n_form) if delta is not None else None
                    if not cc:
                        verdict, why = None, "table created through an Option combinator; its initial contents could not be followed"
                    else:
                        verdict, why = True, "is created covering n + 1 samples on every path of the creating closure"
                        for cform, (clo_, chi_) in cc:
                            if cform is None:
                                verdict, why = None, "the creating closure adds an amount that is not a linear form of the captured counters"
                                continue
                            tot = l_add(delta, cform)
                            a_ = b_ = 0
                            bad_var = False
                            for v_, c_ in tot.items():
                                if v_ == ():
                                    b_ += c_
                                    continue
                                f_ = n_form(v_, fid, 0)
                                if f_ is None:
                                    bad_var = True
                                    break
                                a_ += c_ * f_[0]
                                b_ += c_ * f_[1]
                            if bad_var:
                                verdict, why = None, "the creating closure adds %s, which is not related to the writer's counters" % l_str(cform)
                                continue
                            if (a_, b_) == (1, 1):
                                continue
                            # wrong for every n the closure path admits?  (a == 1: off by a constant for all n; else equal for one n only)
                            if a_ == 1:
                                verdict, why = False, "is created covering %s samples (closure adds %s) where n + 1 are required" % (fmt_n(a_, b_), l_str(cform))
                                break
                            n_eq = (1 - b_) / (a_ - 1) if a_ != 1 else None
                            if chi_ is not None and clo_ == chi_ and a_ * clo_ + b_ == clo_ + 1:
                                continue
                            if n_eq is not None and n_eq == int(n_eq) and clo_ <= n_eq and (chi_ is None or n_eq <= chi_):
                                if verdict:
                                    verdict, why = None, "is created covering %s samples on a closure path whose n the analysis cannot pin (correct only for n = %d)" % (fmt_n(a_, b_), int(n_eq))
                                continue
                            verdict, why = False, "is created covering %s samples (closure adds %s) where n + 1 are required, n in [%s, %s]" % (fmt_n(a_, b_), l_str(cform), clo_, chi_ if chi_ is not None else "inf")
                            break
                key = "%s|%s|path%d" % (fn_short(fid), fname, pi)
                if verdict is None:
                    undecided.append(key)
                    chk.ok("R7", key, "not decided: " + why, site_of(fn))
                    continue
                chk.require(verdict, "R7", key, why, "%s: on one path stbl.%s %s" % (fn_short(fid), fname, why), site_of(fn))
        # ---- R7 on back-fill loops over per-sample vectors of self
        for L in LP_loops(fx, fid):
            pushes = [(b, t) for b, t in vec_pushes if b in L.blocks]
            if not pushes:
                continue
            for b, t in pushes:
                n7 += 1
                ok, why = judge_loop(fx, body, L, LP_loops(fx, fid), allp, fid, n_form)
                key = "%s|backfill-loop|%s" % (fn_short(fid), body.op_str(t["args"][0]))
                chk.require(ok, "R7", key, why, "%s: back-fill loop %s" % (fn_short(fid), why), site_of(fn, t.get("line")))
    chk.floor("R6", "lazily created optional tables", n6, 2)
    chk.floor("R7", "count-conservation obligations", n7, 8)
    chk.analysed["R7_undecided_paths"] = undecided


def LP_loops(fx, fid):
    import loops as LP
    return LP.inventory(fx, fid)


def entry_state(switches, blocks):
    """'None' / 'Some' according to the edge the path takes at the first test of the table's Option, else None"""
    for (b, none_t, some_t) in switches:
        if b in blocks:
            i = blocks.index(b)
            nxt = blocks[i + 1] if i + 1 < len(blocks) else None
            if nxt == none_t and none_t != some_t:
                return "None"
            if nxt == some_t:
                return "Some"
    return None


def n_range(lin, st, form_of):
    """interval of n on this path from the intervals of the counters it read"""
    lo, hi = 0, None
    seen = dict(lin.varsym)
    for site, sid in lin.it.site_syms.items():
        if site[0] == "rd" and sid in st.iv:
            seen.setdefault(lin.var_of_key(site[2]), sid)
    for v, sid in seen.items():
        f = form_of(v)
        if f is None or f[0] != 1:
            continue
        vlo, vhi = lin.it.iv(st, sid)
        if vlo is not None:
            lo = max(lo, vlo - f[1])
        if vhi is not None:
            hi = vhi - f[1] if hi is None else min(hi, vhi - f[1])
    return lo, hi


def closure_contrib(fx, body, it, events, blocks, creating_blocks, eadt, fid, n_form):
    """samples the initial contents of a table created by `Option::get_or_insert_with(|| ..)` cover, per return path of the
    closure: [(linear form in the writer's counters or None, (n_lo, n_hi) on that closure path)], or None when the
    closure cannot be followed.  Captured variables are mapped to their linear forms at the closure's creation."""
    lin = Lin(it)
    out = []
    for e in events:
        if e.kind != "call" or e.block not in creating_blocks:
            continue
        t = e.data
        if len(t["args"]) < 2:
            return None
        cpl = op_place(t["args"][1])
        cty = (cpl or {}).get("ty") or (t["args"][1].get("const") or {}).get("ty") or ""
        cids = [k for k in fx.fns if k.startswith(fid + "::{closure")]
        # the closure value: a local aggregate (captures) or a constant (captures nothing)
        agg = None
        for e2 in events:
            if e2.kind == "assign" and e2.data["rv"]["k"] == "agg" and e2.data["rv"].get("ak") == "closure" and e2.data["rv"].get("def") in cids:
                if cpl is not None and e2.data["place"]["l"] == cpl["l"]:
                    agg = e2
        if agg is None:
            m = re.search(r"\{closure@([^:}]+):(\d+):", cty)
            cands = [k for k in cids if m and (fx.fns[k].get("span") or {}).get("line") == int(m.group(2))]
            if len(cands) != 1:
                return None
            cid, caps = cands[0], []
        else:
            cid = agg.data["rv"]["def"]
            caps = []
            for o in agg.data["rv"]["ops"]:
                pl = op_place(o)
                if pl is not None and pl["ty"].startswith("&"):
                    tgt = it.ref_target(agg.state, o)
                    sid = agg.state.cells.get(tgt) if tgt is not None else None
                    caps.append((lin.sym(agg.state, sid) if sid is not None else None, True))
                else:
                    caps.append((lin.op(agg.state, o, (agg.block, agg.index)), False))
        cbody = body_of(fx.fns[cid])
        if cbody is None:
            return None
        env_ref = cbody.locals[1]["ty"].startswith("&") if cbody.argc >= 1 else False

        def cap_of(v):
            """capture index when closure variable `v` is a captured value"""
            if not (isinstance(v, tuple) and v and v[0] == 1):
                return None
            rest = v[1:]
            if env_ref and rest[:1] == ("deref",):
                rest = rest[1:]
            if rest and isinstance(rest[0], str) and rest[0].startswith(".") and rest[0][1:].isdigit() and all(x == "deref" for x in rest[1:]):
                return int(rest[0][1:])
            return None
        for cit, cblocks, cevents, cst, ckind in pathwise.paths(fx, cbody):
            if ckind != "return":
                continue
            clin = Lin(cit)
            d = l_const(0)
            for ce in cevents:
                if ce.kind == "call" and strip_generics(ce.data["callee"].get("path") or "") == "alloc::vec::Vec::push" and len(ce.data["args"]) == 2:
                    pl = op_place(ce.data["args"][1])
                    if pl is None or not (pl["ty"] == eadt or pl["ty"].endswith("::" + short(eadt)) or pl["ty"] == short(eadt)):
                        continue
                    sid = ce.state.cells.get((pl["l"], ".sample_count"))
                    d = l_add(d, clin.sym(ce.state, sid) if sid is not None else None)
            # substitute captured variables
            sub = l_const(0) if d is not None else None
            n_lo, n_hi = 0, None
            if d is not None:
                for v, c in d.items():
                    if v == ():
                        sub = l_add(sub, l_const(c))
                        continue
                    ci = cap_of(v)
                    if ci is None or ci >= len(caps) or caps[ci][0] is None:
                        sub = None
                        break
                    sub = l_add(sub, l_scale(caps[ci][0], c))
            # range of n on this closure path from the intervals of captured counters
            for site, sid in cit.site_syms.items():
                if site[0] != "rd" or sid not in cst.iv:
                    continue
                ci = cap_of(site[2])
                if ci is None or ci >= len(caps) or not caps[ci][0]:
                    continue
                form = caps[ci][0]
                vars_ = [v for v in form if v != ()]
                if len(vars_) != 1 or form[vars_[0]] != 1:
                    continue
                f = n_form(vars_[0], fid, 0)
                if f is None or f[0] != 1:
                    continue
                off = f[1] + form.get((), 0)
                vlo, vhi = cit.iv(cst, sid)
                if vlo is not None:
                    n_lo = max(n_lo, vlo - off)
                if vhi is not None:
                    n_hi = vhi - off if n_hi is None else min(n_hi, vhi - off)
            out.append((sub, (n_lo, n_hi)))
        return out
    return None


def judge(fx, lin, st, delta, created_here, fid, n_form):
    """is delta == 1 (existing table) / == n + 1 (table created on this path) for every n the path admits?"""
    if delta is None:
        return None, "changes its sample total by an amount the analysis cannot express as a linear form of the writer's counters"
    form = lambda v: n_form(v, fid, 0)
    a, b = 0, 0
    for v, c in delta.items():
        if v == ():
            b += c
            continue
        f = form(v)
        if f is None:
            if isinstance(v, tuple) and v and v[0] in ("sym", "param"):
                # a value the analysis cannot trace to the writer's counters (result of a helper, a captured variable, ...)
                return None, "adds %s samples: %s could not be related to the writer's counters" % (l_str(delta), l_str({v: 1}))
            return False, "adds %s samples: %s is not related to the number of samples written (no counter equation)" % (l_str(delta), l_str({v: 1}))
        a += c * f[0]
        b += c * f[1]
    ta, tb = (1, 1) if created_here else (0, 1)
    what = "is created covering n + 1 samples" if created_here else "grows by exactly one sample"
    if (a, b) == (ta, tb):
        return True, "%s (adds %s = %s)" % (what, l_str(delta), fmt_n(a, b))
    lo, hi = n_range(lin, st, form)
    if hi is not None and lo == hi and a * lo + b == ta * lo + tb:
        return True, "%s (adds %s; this path has n = %d)" % (what, l_str(delta), lo)
    if hi is not None and lo > hi:
        return True, "path infeasible under the counter equations"
    return False, "adds %s = %s samples where %s are required (n = samples written before, n in [%s, %s] on this path)" % (l_str(delta), fmt_n(a, b), fmt_n(ta, tb), lo, hi if hi is not None else "inf")


def fmt_n(a, b):
    if a == 0:
        return str(b)
    s = "n" if a == 1 else "%d*n" % a
    return s if b == 0 else "%s %s %d" % (s, "+" if b > 0 else "-", abs(b))


def judge_loop(fx, body, L, all_loops, allp, fid, n_form):
    """trip count (end - start of the driving range) == n on every path entering the loop"""
    import loops as LP
    nb, nt = LP.driver_next_call(body, L, all_loops)
    if nt is None:
        return False, "is not driven by a range iterator"
    seen = 0
    for it, blocks, events, st, kind in allp:
        if nb not in blocks:
            continue
        lin = Lin(it)
        ev = [e for e in events if e.kind == "call" and e.block == nb]
        if not ev:
            continue
        e = ev[0]
        tgt = it.ref_target(e.state, e.data["args"][0])
        es = e.state.cells.get(tgt + (".end",)) if tgt else None
        ss = e.state.cells.get(tgt + (".start",)) if tgt else None
        if es is None:
            return False, "has a trip count the analysis cannot see"
        trip = l_add(lin.sym(e.state, es), lin.sym(e.state, ss) if ss is not None else l_const(0), -1)
        if trip is None:
            return False, "has a non-linear trip count"
        a = b = 0
        for v, c in trip.items():
            if v == ():
                b += c
                continue
            # inside the callee, before the loop: increments executed earlier in this function on this path are
            # already part of the symbol's linear form (reads after a store see the stored value)
            f = n_form(v, fid, 0)
            if f is None:
                return False, "runs %s times: not related to the number of samples written" % l_str(trip)
            a += c * f[0]
            b += c * f[1]
        seen += 1
        if (a, b) != (1, 0):
            return False, "runs %s = %s times; the samples written before are n" % (l_str(trip), fmt_n(a, b))
    if not seen:
        return False, "is never entered on an analysed path"
    return True, "runs exactly n times (one element per earlier sample)"
