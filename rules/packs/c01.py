"""C01 — muxed samples read back exactly (structural clauses only).

  R1 exactly-once bookkeeping: in Mp4TrackWriter::write_sample every attribute of the sample (bytes, bytes.len(),
     duration, rendering_offset, is_sync) is handed to a bookkeeping call that dominates the success return and lies in
     no loop, and the per-track sample counter is incremented exactly once on that path.
  R2 final flush: Mp4Writer::write_end calls the track writer's write_end for every track (inside the loop over
     self.tracks) before the movie box is produced; that function starts by flushing the pending chunk; in the flush
     routine the recorded offset is the stream position taken immediately before write_all (no stream call between) and
     the buffer/counters are reset only after the write.
  R3 rejected calls are traceless: every path of Mp4Writer::write_sample that builds Err(TrakNotFound) locally
     performs no call that receives the output stream or a track writer and no store through self.
  R4 id pairing: add_track numbers the new track len(tracks)+1 and appends it; write_sample addresses track
     track_id-1; write_end emits traks in vector order.
  R5 the tables the muxer fills are the ones the demuxer consults (lower bound): for each attribute, the box types
     stored by the muxer's bookkeeping routine intersect the box types read by the corresponding demuxer lookup.
Not decided: that the k-th sample's values are equal, chunking arithmetic, the fixed->variable size switch, ctts
back-fill counts, start-time sums (runtime relations; no static argument in reach).
"""
import panicfree
from callgraph import callgraph
from facts import short
from mir import body_of, callee_path, op_place, place_key, strip_generics
from packs_common import muxer_entries, io_fallible_set, IO_TRAITS
from panicfree import fn_short
from report import site_of
import loops as LP


def adts_written(fx, cg, fid, depth=0, seen=None):
    """box ADTs whose fields are stored / whose entries are built in the closure of fid"""
    out = set()
    for f2 in cg.closure([fid]):
        fn = fx.fns[f2]
        body = body_of(fn)
        if body is None or fn.get("derived"):
            continue
        for b in body.reach:
            for s in body.stmts(b):
                if s["k"] != "assign":
                    continue
                for p in s["place"]["p"]:
                    if isinstance(p, dict) and p.get("adt") in fx.adts:
                        out.add(short(p["adt"]))
                if s["rv"]["k"] == "agg" and s["rv"].get("adt") in fx.adts:
                    out.add(short(s["rv"]["adt"]))
                if s["rv"]["k"] == "ref" and s["rv"].get("mut"):
                    # a mutable borrow of (part of) a box is how tables grow (`stss.entries.push(..)`)
                    for p in s["rv"]["place"]["p"]:
                        if isinstance(p, dict) and p.get("adt") in fx.adts:
                            out.add(short(p["adt"]))
            t = body.term(b)
            if t["k"] == "call":
                for a in t["args"]:
                    pl = op_place(a)
                    if pl is not None and pl["ty"].startswith("&mut "):
                        pass
                # pushes: the receiver place tells which table grows
                if (t["callee"].get("path") or "").endswith("::push"):
                    pass
    return out


def adts_read(fx, cg, fid):
    out = set()
    for f2 in cg.closure([fid]):
        fn = fx.fns[f2]
        body = body_of(fn)
        if body is None or fn.get("derived"):
            continue

        def scan(pl):
            for p in pl["p"]:
                if isinstance(p, dict) and p.get("adt") in fx.adts:
                    out.add(short(p["adt"]))
        for b in body.reach:
            for s in body.stmts(b):
                if s["k"] == "assign":
                    rv = s["rv"]
                    for key in ("a", "b"):
                        o = rv.get(key)
                        if isinstance(o, dict):
                            pl = op_place(o)
                            if pl:
                                scan(pl)
                    if "place" in rv:
                        scan(rv["place"])
            t = body.term(b)
            if t["k"] == "switch":
                pl = op_place(t["discr"])
                if pl:
                    scan(pl)
    return out


def sample_field_of(body, op, depth=0):
    """which Mp4Sample field an operand derives from (through copies, refs, casts, len())"""
    pl = op_place(op)
    if pl is None or depth > 6:
        return None
    for p in pl["p"]:
        if isinstance(p, dict) and short(p.get("adt", "")) == "Mp4Sample":
            return p["f"]
    if pl["p"]:
        return None
    sd = body.single_def(pl["l"])
    if sd is None:
        return None
    if sd[2] == "assign":
        rv = sd[3]
        if rv["k"] in ("use", "cast"):
            return sample_field_of(body, rv["a"], depth + 1)
        if rv["k"] == "ref":
            for p in rv["place"]["p"]:
                if isinstance(p, dict) and short(p.get("adt", "")) == "Mp4Sample":
                    return p["f"]
            return sample_field_of(body, {"copy": {"l": rv["place"]["l"], "p": [], "ty": ""}}, depth + 1) if not [p for p in rv["place"]["p"] if p != "deref"] else None
    if sd[2] == "call":
        t = sd[3]
        nm = (t["callee"].get("path") or "").split("::")[-1]
        if nm in ("len", "deref", "as_ref", "clone", "into", "from") and t["args"]:
            f = sample_field_of(body, t["args"][0], depth + 1)
            if f and nm == "len":
                return f + ".len()"
            return f
    return None


def _own_sample_fields(fx, fn):
    """Mp4Sample attributes a function reads from a sample it was handed whole"""
    body = body_of(fn)
    out = set()
    if body is None:
        return out
    for b, t in body.calls():
        nm = (t["callee"].get("path") or "").split("::")[-1]
        for a in t["args"]:
            f = sample_field_of(body, a)
            if f:
                out.add(f + ".len()" if nm == "len" and not f.endswith(".len()") else f)
    for b in body.reach:
        for s_ in body.stmts(b):
            if s_["k"] != "assign":
                continue
            rv = s_["rv"]
            for key in ("a", "b"):
                if isinstance(rv.get(key), dict):
                    f = sample_field_of(body, rv[key])
                    if f:
                        out.add(f)
            if rv["k"] == "ref":
                for p_ in rv["place"]["p"]:
                    if isinstance(p_, dict) and short(p_.get("adt", "")) == "Mp4Sample":
                        out.add(p_["f"])
            for o in rv.get("ops", []) or []:
                f = sample_field_of(body, o)
                if f:
                    out.add(f)
    return out


def sample_uses(fx, fn, depth=0):
    """(attribute, block in fn, consumer) for every place fn hands an Mp4Sample attribute to a call; a local callee that is
    handed the whole sample is followed, and the attributes it (or its own callees) reads are attributed to the deepest
    function that received the whole sample and reads the attribute"""
    body = body_of(fn)
    out = []
    if body is None:
        return out
    for b, t in body.calls():
        p = callee_path(t["callee"]) or t["callee"].get("path") or ""
        for a in t["args"]:
            f = sample_field_of(body, a)
            if f:
                out.append((f, b, p))
                continue
            pl = op_place(a)
            if p in fx.fns and depth < 3 and pl is not None and "Mp4Sample" in str(pl.get("ty") or (body.locals[pl["l"]]["ty"] if not pl["p"] else "")):
                g = fx.fns[p]
                nested = sample_uses(fx, g, depth + 1)
                deeper = {f2 for f2, _b, q in nested if q in fx.fns and "Mp4Sample" in " ".join(fx.fns[q].get("inputs_s") or [])}
                for f2, _b, q in nested:
                    if q in fx.fns and "Mp4Sample" in " ".join(fx.fns[q].get("inputs_s") or []):
                        out.append((f2, b, q))
                for f2 in sorted(_own_sample_fields(fx, g) - deeper):
                    out.append((f2, b, p))
    return out


def run(fx, chk, tier):
    chk.rule("R1", "each sample attribute reaches its bookkeeping call exactly once on the success path of the track writer's write_sample; the sample counter is incremented once")
    chk.rule("R2", "write_end flushes every track's pending chunk before the movie box; the recorded offset is the position taken immediately before write_all; reset after the write")
    chk.rule("R3", "paths of Mp4Writer::write_sample that reject the call touch neither the stream nor a track writer")
    chk.rule("R4", "track ids: add_track uses len+1 and appends; write_sample indexes id-1; write_end keeps vector order")
    chk.rule("R5", "box types stored by each bookkeeping routine intersect the box types read by the corresponding demuxer lookup")
    cg = callgraph(fx)
    iof = io_fallible_set(fx, cg)
    tw = fx.impl_fn("Mp4TrackWriter", None, "write_sample")
    ww = fx.impl_fn("Mp4Writer<W>", None, "write_sample")
    we = fx.impl_fn("Mp4Writer<W>", None, "write_end")
    twe = fx.impl_fn("Mp4TrackWriter", None, "write_end")
    at = fx.impl_fn("Mp4Writer<W>", None, "add_track")
    if not (chk.anchor("R1", "Mp4TrackWriter::write_sample", tw) and chk.anchor("R3", "Mp4Writer::write_sample", ww) and
            chk.anchor("R2", "Mp4Writer::write_end", we) and chk.anchor("R2", "Mp4TrackWriter::write_end", twe) and chk.anchor("R4", "Mp4Writer::add_track", at)):
        return chk.finish("other", "anchors missing")

    # ---------------- R1
    body = body_of(tw)
    oks = LP.ok_blocks(body)
    uses = {}      # attribute -> list of (block, callee)
    for f, b, p in sample_uses(fx, tw):
        if (b, p) not in uses.setdefault(f, []):
            uses[f].append((b, p))
    want = ["bytes", "bytes.len()", "duration", "rendering_offset", "is_sync"]
    for attr in want:
        sites = uses.get(attr, [])
        good = [(b, p) for b, p in sites if all(body.dominates(b, o) for o in oks) and not body.in_loop(b)]
        chk.require(bool(good), "R1", "sample." + attr, "handed to %s exactly once (dominates the success return, outside loops)" % ", ".join(fn_short(p) if p in fx.fns else p.split("::")[-1] for _, p in good),
                    "sample.%s does not reach a bookkeeping call on every successful write_sample (sites: %s)" % (attr, [(b, p.split("::")[-1]) for b, p in sites]), site_of(tw))
        # each *local* bookkeeping callee must appear once
        for p in {p for _, p in sites if p in fx.fns}:
            cnt = sum(1 for b, q in sites if q == p)
            chk.require(cnt == 1 or attr == "duration", "R1", "sample.%s|once|%s" % (attr, fn_short(p)), "called once", "%s is called %d times with sample.%s in one write_sample" % (fn_short(p), cnt, attr), site_of(tw))
    # counter: exactly one store `self.sample_id = self.sample_id + 1` dominating the return
    incs = []
    for b in body.reach:
        for s in body.stmts(b):
            if s["k"] == "assign" and s["place"]["l"] == 1:
                last = s["place"]["p"][-1] if s["place"]["p"] else None
                if isinstance(last, dict) and last.get("f") == "sample_id":
                    incs.append(b)
    chk.require(len(incs) == 1 and all(body.dominates(incs[0], o) for o in oks) and not body.in_loop(incs[0]), "R1", "counter", "sample_id incremented once on the success path",
                "the per-track sample counter is stored %d times / not on every success path" % len(incs), site_of(tw))

    # ---------------- R5
    pairs = [
        ("bytes.len()", "update_sample_sizes", "sample_size"),
        ("duration", "update_sample_times", "sample_time"),
        ("rendering_offset", "update_rendering_offsets", "sample_rendering_offset"),
        ("is_sync", "update_sync_samples", "is_sync_sample"),
    ]
    for attr, _hint, _dem in pairs:
        sites = [p for _, p in uses.get(attr, []) if p in fx.fns]
        wr = set()
        for p in sites:
            wr |= adts_written(fx, cg, p)
        dem = fx.impl_fn("Mp4Track", None, _dem)
        rd = adts_read(fx, cg, dem["id"]) if dem else set()
        tables = {x for x in wr & rd if x.endswith(("Box", "Entry"))} - {"TrakBox", "MdiaBox", "MinfBox", "StblBox"}
        chk.require(bool(tables), "R5", attr, "muxer stores %s, demuxer %s reads %s: common %s" % (sorted(wr)[:6], _dem, sorted(rd)[:8], sorted(tables)),
                    "the table the muxer fills for sample.%s (%s) is not one the demuxer's %s consults (%s)" % (attr, sorted(wr), _dem, sorted(rd)), site_of(tw))
    # chunk offsets / sample-to-chunk: write_chunk's stores vs sample_offset's reads
    wc = fx.impl_fn("Mp4TrackWriter", None, "write_chunk")
    so = fx.impl_fn("Mp4Track", None, "sample_offset")
    if wc and so:
        wr = adts_written(fx, cg, wc["id"])
        rd = adts_read(fx, cg, so["id"])
        need = {"StscEntry", "Co64Box"}
        chk.require(need <= wr and {"StscEntry"} <= rd and ({"Co64Box", "StcoBox"} & rd), "R5", "chunks", "flush stores %s; sample_offset reads %s" % (sorted(wr), sorted(rd)[:10]),
                    "chunk bookkeeping (%s) and the demuxer's offset lookup (%s) do not share the stsc / co64 tables" % (sorted(wr), sorted(rd)), site_of(wc))

    # ---------------- R2
    wbody0 = body_of(we)
    moov_w0 = [b for b, t in wbody0.calls() if (callee_path(t["callee"]) or "").endswith("::write_box") and "MoovBox" in (callee_path(t["callee"]) or "")]
    # the per-track flush may live in a private helper of the writer that write_end calls before it writes moov
    host = we
    for _b, _t in wbody0.calls():
        g_ = fx.fns.get(callee_path(_t["callee"]) or "")
        if g_ is None or g_["id"] == twe["id"] or not short((g_.get("impl") or {}).get("self_ty", "")).startswith("Mp4Writer") or body_of(g_) is None:
            continue
        reach_flush = any(callee_path(t2["callee"]) == twe["id"] for _b2, t2 in body_of(g_).calls()) or any(
            k.startswith(g_["id"] + "::{closure") and body_of(fx.fns[k]) is not None and any(callee_path(t2["callee"]) == twe["id"] for _b2, t2 in body_of(fx.fns[k]).calls()) for k in fx.fns)
        if reach_flush and len(moov_w0) == 1 and not wbody0.can_reach(moov_w0[0], _b):
            host = g_
    wbody = body_of(host)
    flush_calls = [b for b, t in wbody.calls() if callee_path(t["callee"]) == twe["id"]]
    if host is we:
        moov_w = moov_w0
    else:
        # inside the helper there is no moov write: the ordering was established at its call site
        moov_w = [None]
    ok = len(flush_calls) == 1 and wbody.in_loop(flush_calls[0]) and len(moov_w) == 1 and (moov_w[0] is None or not wbody.can_reach(moov_w[0], flush_calls[0]))
    # the loop is over self.tracks
    if ok:
        ls = LP.inventory(fx, host["id"])
        L = [l for l in ls if flush_calls[0] in l.blocks]
        nb, nt = LP.driver_next_call(wbody, L[0], ls) if L else (None, None)
        ok = nt is not None and "IterMut" in (nt["callee"].get("full") or "") and "Mp4TrackWriter" in (nt["callee"].get("full") or "")
    visit = None
    if not ok and len(moov_w) == 1 and not flush_calls:
        # the per-track flush may sit in a closure handed to a visit-every-element combinator over the track writers
        for cid in [k for k in fx.fns if k.startswith(host["id"] + "::{closure")]:
            cb = body_of(fx.fns[cid])
            if cb is None or not any(callee_path(t["callee"]) == twe["id"] for _b, t in cb.calls()):
                continue
            for b, t in wbody.calls():
                full = t["callee"].get("full") or ""
                last_ = strip_generics(t["callee"].get("path") or "").split("::")[-1]
                uses_closure = any(cid.split("::")[-1].strip("{}") in (a.get("ty") or (op_place(a) or {}).get("ty") or "") or "closure" in ((op_place(a) or {}).get("ty") or "") for a in t["args"])
                if last_ in ("try_for_each", "try_fold", "for_each") and full.startswith("<core::slice::iter::IterMut<") and "Mp4TrackWriter" in full.split(" as ")[0] and uses_closure:
                    if moov_w[0] is None or not wbody.can_reach(moov_w[0], b):
                        visit = (cid, b, last_)
                if last_ == "map" and full.startswith("<core::slice::iter::IterMut<") and "Mp4TrackWriter" in full.split(" as ")[0] and uses_closure:
                    # `tracks.iter_mut().map(|t| t.write_end(w)).collect::<Result<Vec<_>>>()?`: map is lazy, the collect
                    # that drives it (front to back, stopping at the first Err) must come before the movie box
                    coll = [b2 for b2, t2 in wbody.calls() if strip_generics(t2["callee"].get("path") or "").split("::")[-1] == "collect"
                            and "Map<core::slice::iter::IterMut<" in (t2["callee"].get("full") or "") and "Mp4TrackWriter" in (t2["callee"].get("full") or "") and wbody.can_reach(b, b2)]
                    if len(coll) == 1 and (moov_w[0] is None or not wbody.can_reach(moov_w[0], coll[0])):
                        visit = (cid, coll[0], "map-collect")
        ok = visit is not None
    chk.require(ok, "R2", "write_end|all-tracks", "track write_end called in the loop over the track writers, before moov.write_box",
                "Mp4Writer::write_end does not flush every track writer before producing the movie box", site_of(we))
    # R2 (b)-(f): stated over effect traces of the track writer's entry points (muxrules M1-M4): independent of how the
    # flush is split into private helpers
    import muxrules
    M = getattr(chk, "_mux", None) or muxrules.Mux(fx)
    chk._mux = M
    M.discover()
    chk.require(M.buf is not None and M.flush_fn is not None, "R2", "flush|found", "pending-chunk buffer `%s`, flushed in %s" % (M.buf, fn_short(M.flush_fn) if M.flush_fn else None),
                "the pending-chunk buffer / its flush could not be identified from the effects of Mp4TrackWriter::write_sample and write_end", site_of(twe))
    res = []
    nfl = M.m1(M.tw_end, res) + M.m1(M.tw_sample, res)
    M.io_shape(M.tw_end, res, "flush-first")
    M.m2b(res)
    M.m3(res)
    M.m4(M.tw_sample, res)
    seen_ = set()
    for ok_, key_, how_, fn_, line_ in res:
        if (ok_, key_) in seen_:
            continue
        seen_.add((ok_, key_))
        chk.require(ok_, "R2", key_, how_, how_, site_of(fn_, line_))
    chk.floor("R2", "flush instances on success paths", nfl, 4)

    # ---------------- R3
    b3 = body_of(ww)
    # private helpers of the writer that write_sample calls (the track lookup may live in one)
    helpers3 = []
    for _b, _t in b3.calls():
        g_ = fx.fns.get(callee_path(_t["callee"]) or "")
        if g_ is not None and g_["id"] != tw["id"] and short((g_.get("impl") or {}).get("self_ty", "")).startswith("Mp4Writer") and body_of(g_) is not None and g_ not in helpers3:
            helpers3.append(g_)

    def _rejections(body_):
        out_ = []
        for b in body_.reach:
            for s in body_.stmts(b):
                if s["k"] == "assign" and s["rv"]["k"] == "agg" and s["rv"].get("variant") == "TrakNotFound":
                    out_.append(b)
        return out_
    rej = _rejections(b3)
    rejecting_helpers = [g_ for g_ in helpers3 if _rejections(body_of(g_))]
    # a call of a rejecting helper is a rejection site of write_sample itself
    for _b, _t in b3.calls():
        if any(callee_path(_t["callee"]) == g_["id"] for g_ in rejecting_helpers):
            rej.append(_b)
    chk.floor("R3", "local rejections in Mp4Writer::write_sample", len(rej), 1)
    for g_ in rejecting_helpers:
        gb = body_of(g_)
        for rb in _rejections(gb):
            before = {x for x in gb.reach if x == rb or gb.can_reach(x, rb)}
            dirty = []
            for x in before:
                t = gb.term(x)
                if t["k"] == "call":
                    p = callee_path(t["callee"]) or ""
                    if p in iof or t["callee"].get("trait") in IO_TRAITS or p == tw["id"]:
                        dirty.append(p.split("::")[-1])
            chk.require(not dirty, "R3", "reject|%s|bb%d" % (g_["name"], _rejections(gb).index(rb)), "no stream / track-writer effect before the rejection", "a rejected write_sample call has already %s" % dirty, site_of(g_))
    for rb in rej:
        before = {x for x in b3.reach if x == rb or b3.can_reach(x, rb)}
        dirty = []
        for x in before:
            t = b3.term(x)
            if t["k"] == "call":
                p = callee_path(t["callee"]) or ""
                if p in iof or t["callee"].get("trait") in IO_TRAITS or p == tw["id"]:
                    # the call only counts if its success edge leads to the rejection
                    if t.get("t") is not None and (t["t"] == rb or b3.can_reach(t["t"], rb) or t["t"] in before):
                        dirty.append(p.split("::")[-1])
            for s in b3.stmts(x):
                if s["k"] == "assign" and s["place"]["l"] == 1 and "deref" in s["place"]["p"]:
                    dirty.append("store " + b3.place_str(s["place"]))
        chk.require(not dirty, "R3", "reject|bb%d" % rej.index(rb), "no stream / track-writer effect before the rejection", "a rejected write_sample call has already %s" % dirty, site_of(ww))

    # ---------------- R4
    ab = body_of(at)
    newc = [(b, t) for b, t in ab.calls() if (callee_path(t["callee"]) or "").endswith("Mp4TrackWriter::new")]
    pushc = [(b, t) for b, t in ab.calls() if (t["callee"].get("path") or "").endswith("Vec::<T, A>::push")]
    ok = len(newc) == 1 and len(pushc) == 1
    if ok:
        arg = ab.deep_str(newc[0][1]["args"][0])
        ok = "Vec::len(self.tracks)" in arg and "Add(" in arg and ", 1)" in arg
        ok = ok and ab.op_str(pushc[0][1]["args"][0]) == "self.tracks" and ab.dominates(newc[0][0], pushc[0][0])
    chk.require(ok, "R4", "add_track", "id = len(tracks) + 1, then push", "add_track does not number the new track len(tracks)+1 and append it", site_of(at))
    gm = [(b3, b, t) for b, t in b3.calls() if (t["callee"].get("path") or "").endswith("get_mut")]
    for g_ in helpers3:
        gm += [(body_of(g_), b, t) for b, t in body_of(g_).calls() if (t["callee"].get("path") or "").endswith("get_mut")]
    ok = len(gm) == 1 and "Sub(track_id as usize, 1)" in gm[0][0].deep_str(gm[0][2]["args"][1])
    if not gm:
        # `(track_id as usize).checked_sub(1).and_then(|i| tracks.get_mut(i))`: the index handed to get_mut is the
        # closure's parameter, and the closure is the and_then continuation of checked_sub(track_id as usize, 1)
        cgm = []
        for cid in [k for k in fx.fns if k.startswith(ww["id"] + "::{closure")]:
            cb_ = body_of(fx.fns[cid])
            if cb_ is None:
                continue
            cgm += [(cid, cb_, t) for _b, t in cb_.calls() if (t["callee"].get("path") or "").endswith("get_mut")]
        if len(cgm) == 1:
            cid, cb_, t = cgm[0]
            pl_ = op_place(t["args"][1])
            for _i in range(4):
                # copies of the closure's parameter (_2)
                if pl_ is None or pl_["p"] or pl_["l"] == 2:
                    break
                sd_ = cb_.single_def(pl_["l"])
                if sd_ is None or sd_[2] != "assign" or sd_[3]["k"] != "use":
                    break
                pl_ = op_place(sd_[3]["a"])
            is_param = pl_ is not None and pl_["l"] == 2 and not pl_["p"]
            csub = [(b, t2) for b, t2 in b3.calls() if strip_generics(t2["callee"].get("path") or "").split("::")[-1] == "checked_sub"
                    and "track_id as usize" in b3.deep_str(t2["args"][0]) and b3.deep_str(t2["args"][1]).strip() in ("1", "const 1_usize", "1_usize")]
            andthen = [(b, t2) for b, t2 in b3.calls() if strip_generics(t2["callee"].get("path") or "").split("::")[-1] == "and_then" and "Option::<usize>" in (t2["callee"].get("full") or "")]
            ok = is_param and len(csub) == 1 and len(andthen) == 1 and b3.dominates(csub[0][0], andthen[0][0]) and "checked_sub" in b3.deep_str(andthen[0][1]["args"][0])
    chk.require(ok, "R4", "write_sample", "tracks[track_id - 1]", "write_sample does not address track track_id - 1", site_of(ww))
    pushes = [(b, t) for b, t in wbody.calls() if (t["callee"].get("path") or "").endswith("Vec::<T, A>::push") and wbody.op_str(t["args"][0]).endswith("moov.traks")]
    ok = len(pushes) == 1 and flush_calls and wbody.in_loop(pushes[0][0]) and wbody.dominates(flush_calls[0], pushes[0][0])
    if not ok and visit is not None:
        # closure form: inside the closure the flush result is pushed to moov.traks after the flush; the combinator walks
        # IterMut front to back (a reversed or filtered adapter would show in the receiver type, which is the plain IterMut)
        cb = body_of(fx.fns[visit[0]])
        fl = [b for b, t in cb.calls() if callee_path(t["callee"]) == twe["id"]]
        def capture_src(op):
            """rendering, in write_end, of the variable a closure operand reaches through its environment"""
            txt = cb.canon_op(op)
            pl_ = op_place(op)
            seen_ = 0
            while pl_ is not None and seen_ < 6:
                seen_ += 1
                if pl_["l"] == 1:
                    idx = [x.get("i") for x in pl_["p"] if isinstance(x, dict) and "f" in x]
                    if idx:
                        for pb_ in range(wbody.n):
                            for st_ in wbody.stmts(pb_):
                                if st_["k"] == "assign" and st_["rv"]["k"] == "agg" and st_["rv"].get("ak") == "closure" and st_["rv"].get("def") == visit[0] and idx[0] is not None and idx[0] < len(st_["rv"]["ops"]):
                                    return wbody.canon_op(st_["rv"]["ops"][idx[0]])
                    return txt
                sd_ = cb.single_def(pl_["l"])
                if sd_ is None or sd_[2] != "assign":
                    return txt
                rv_ = sd_[3]
                pl_ = rv_.get("place") if rv_["k"] == "ref" else (op_place(rv_["a"]) if rv_["k"] in ("use", "cast") else None)
            return txt
        pu = [b for b, t in cb.calls() if (t["callee"].get("path") or "").endswith("Vec::<T, A>::push") and ("traks" in capture_src(t["args"][0]) or "TrakBox>" in str((op_place(t["args"][0]) or {}).get("ty") or ""))]
        ok = len(fl) == 1 and len(pu) == 1 and cb.dominates(fl[0], pu[0])
        if visit[2] == "map-collect":
            # the closure yields the flush result itself; collect keeps iteration order; the collected vector is what
            # the movie box receives (a store of a Vec<TrakBox> into moov.traks after the collect, no reordering call)
            stores = [1 for pb_ in wbody.reach for st_ in wbody.stmts(pb_) if st_["k"] == "assign" and wbody.place_str(st_["place"]).endswith("moov.traks")]
            reorder = [t["callee"].get("path") for _b, t in wbody.calls() if strip_generics(t["callee"].get("path") or "").split("::")[-1] in
                       ("sort", "sort_by", "sort_by_key", "sort_unstable", "sort_unstable_by", "sort_unstable_by_key", "reverse", "swap", "rotate_left", "rotate_right", "retain", "dedup", "dedup_by_key", "remove", "swap_remove", "insert", "rev")]
            ok = len(fl) == 1 and not pu and len(stores) == 1 and not reorder
    chk.require(ok, "R4", "write_end", "traks pushed in track-vector order", "write_end does not emit the trak boxes in the order of the track vector", site_of(we))
    # ---------------- R6 / R7
    import c01_tables
    c01_tables.run(fx, chk, cg, tw)
    # ---------------- R8 / R9: the demux half and the quantities stored by the mux half
    from packs_common import compose
    chk.rule("R11", "a call the muxer rejects leaves no trace: in every function reachable from Mp4Writer::write_sample / add_track no rejection (a non-I/O Error being built, or a call that may reject) can follow a mutation of muxer state")
    import c01_atomic
    import modsets
    roots = [ww["id"], at["id"]]
    clo_ = cg.closure(roots)
    cyc_ = set()
    for comp in cg.sccs(clo_):
        cyc_.update(comp)
    nm_, nr_ = c01_atomic.run(fx, chk, modsets.compute(fx, cg.topo(clo_), cyc_), roots)
    chk.floor("R11", "mutation sites in the muxer's accepting closure", nm_, 20)
    chk.floor("R11", "rejection sites in the muxer's accepting closure", nr_, 3)
    chk.rule("R8", "the reader's non-fragmented lookup rules hold (C03 instances: absent-table defaults, count source, table footprints, dimension typing of the lookup arithmetic, purity)")
    compose(fx, chk, tier, "R8", "C03", ["R-DEFAULT", "R-COUNT", "R-FOOT", "R-UNITS", "R-PURE"], floor=105, what="reader lookup obligations")
    chk.rule("R9", "the muxer stores into every sample-table field the quantity ISO gives that field (C02 R7 instances, rules/units.py)")
    compose(fx, chk, tier, "R9", "C02", ["R7"], floor=16, what="muxer dimension obligations")
    chk.rule("R10", "every sample-table field the muxer fills is emitted by its encoder and initialised by its decoder, at the same position (C04 S4/S5 instances of stbl and the sample tables)")
    TABLES = ("StblBox", "SttsBox", "CttsBox", "StscBox", "StszBox", "StssBox", "StcoBox", "Co64Box")
    compose(fx, chk, tier, "R10", "C04", ["S4", "S5"], keyfilter=lambda o: any(o["key"].startswith(t) or ("|" + t) in o["key"] for t in TABLES), floor=70, what="sample-table coverage obligations")
    return chk.finish(
        "other",
        "Structural necessary conditions of mux->demux fidelity (exactly-once bookkeeping, final flush, traceless rejection, id pairing, table pairing) checked on the MIR of the muxer with dominance and loop membership. "
        "The value-level core of the statement (k-th sample equal, start-time sums, chunking arithmetic) is NOT decided: no static argument in reach quantifies over those runtime relations.",
    )
