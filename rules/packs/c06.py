"""C06 — reader API never panics or aborts, whatever the input (see panicfree.py for the engine)."""
import re
import panicfree
from facts import short
from mir import body_of, callee_path, op_place, op_const, place_key, strip_generics
from packs_common import reader_entries, io_fallible_set, IO_TRAITS
from report import site_of

A_LEN = 2 ** 62


# --------------------------------------------------------------------------------------------------
# side conditions of accepted invariants (each is re-evaluated on every run)

def _is_header_read(fx, t):
    p = callee_path(t["callee"]) or ""
    return p.endswith("BoxHeader::read")


def _dominated_by_header_read(fx, body, blk):
    for d in body.dom().get(blk, ()):
        t = body.term(d)
        if d != blk and t["k"] == "call" and _is_header_read(fx, t):
            return True
    return False


def sc_box_start(eng, fid, fn, it, ob):
    """`position - 8` in box_start: every caller is a box decoder (ReadBox::read_box / skip_box) whose first stream
    effect is box_start, and every call site of those decoders follows a BoxHeader::read in the same function"""
    fx, cg = eng.fx, eng.cg
    bad = []
    n = 0
    for caller in sorted(cg.callers_of(fid) & eng.clo):
        cf = fx.fns[caller]
        is_decoder = (short((cf.get("impl") or {}).get("trait") or "").startswith("ReadBox<")) or cf["name"] == "skip_box"
        if not is_decoder:
            bad.append("caller %s is not a box decoder" % short(caller))
            continue
        for site_fn in sorted(cg.callers_of(caller) & eng.clo):
            sb = body_of(fx.fns[site_fn])
            for b, t in sb.calls():
                if callee_path(t["callee"]) == caller:
                    n += 1
                    if _dominated_by_header_read(fx, sb, b):
                        continue
                    # the dispatch may live in a private helper that performs no stream operation before the decoder call
                    # and is itself called right after a header read (`read_top_level(reader, name, s, ..)`)
                    helper_ok = False
                    reads_before = [bb for bb, tt in sb.calls() if (bb == b or sb.can_reach(bb, b)) and bb != b and
                                    (tt["callee"].get("trait") in IO_TRAITS or (callee_path(tt["callee"]) or "") in io_fallible_set(fx, cg))]
                    if not reads_before:
                        up = sorted(cg.callers_of(site_fn) & eng.clo)
                        helper_ok = bool(up)
                        for up_fn in up:
                            ub = body_of(fx.fns[up_fn])
                            for b3, t3 in ub.calls():
                                if callee_path(t3["callee"]) == site_fn and not _dominated_by_header_read(fx, ub, b3):
                                    helper_ok = False
                    if not helper_ok:
                        bad.append("%s calls %s without a preceding BoxHeader::read" % (short(site_fn), short(caller)))
    return (not bad and n > 0), ("%d decoder call sites, each dominated by BoxHeader::read" % n if not bad else "; ".join(bad[:3]))


def sc_after_header_here(eng, fid, fn, it, ob):
    body = it.body
    ok = _dominated_by_header_read(eng.fx, body, ob["block"])
    return ok, "subtraction is dominated by a BoxHeader::read in the same function" if ok else "no dominating BoxHeader::read"


def sc_trusted(why):
    def f(eng, fid, fn, it, ob):
        return True, why
    return f


def field_interval(eng, adt_suffix, field):
    """join of the interval of `field` over every construction site (aggregate) of the ADT inside the closure"""
    lo = hi = None
    n = 0
    for fid, it in eng.res.interps.items():
        body = it.body
        for b in body.reach:
            for i, s in enumerate(body.stmts(b)):
                if s["k"] == "assign" and s["rv"]["k"] == "agg" and short(s["rv"].get("adt", "")) == adt_suffix and field in s["rv"]["fields"]:
                    st = it.in_states.get(b)
                    if st is None:
                        continue
                    st = st.copy()
                    for j, s2 in enumerate(body.stmts(b)[:i]):
                        if s2["k"] == "assign":
                            it.assign(st, b, j, s2)
                    o = s["rv"]["ops"][s["rv"]["fields"].index(field)]
                    _, l, h, _ = it.read_op(st, o, (b, i))
                    n += 1
                    if l is None:
                        return None, None, n
                    lo = l if lo is None else min(lo, l)
                    hi = h if hi is None else max(hi, h)
    return lo, hi, n


def sc_emsg_version(eng, fid, fn, it, ob):
    lo, hi, n = field_interval(eng, "EmsgBox", "version")
    ok = n >= 1 and lo is not None and 0 <= lo and hi <= 1
    return ok, "EmsgBox.version is in [%s,%s] at its %d construction site(s) in the reader closure" % (lo, hi, n)


def sc_ratio_denominators(eng, fid, fn, it, ob):
    """Ratio::to_integer divides by the denominator: every Ratio in the crate is built by new_raw with a non-zero constant"""
    fx = eng.fx
    n = 0
    for f2 in fx.fns.values():
        b2 = body_of(f2)
        if b2 is None:
            continue
        for b, t in b2.calls():
            p = (t["callee"].get("path") or "")
            if p.startswith("num_rational::Ratio") and not p.endswith(("::to_integer", "::numer", "::denom")):
                if not p.endswith("::new_raw"):
                    if f2.get("derived"):
                        continue
                    return False, "Ratio built by %s in %s" % (p, short(f2["id"]))
                n += 1
                d = op_const(t["args"][1])
                if d is None:
                    pl = op_place(t["args"][1])
                    sd = b2.single_def(pl["l"]) if pl and not pl["p"] else None
                    d = op_const(sd[3]["a"]) if sd and sd[2] == "assign" and sd[3]["k"] == "use" else None
                if not d:
                    return False, "Ratio::new_raw with non-constant or zero denominator in %s" % short(f2["id"])
    # the wrapped Ratio field must be private
    for nm in ("FixedPointU8", "FixedPointI8", "FixedPointU16"):
        a = fx.adt_short(nm)
        if a and any(fl["vis"] == "pub" for fl in a["variants"][0]["fields"]):
            return False, "%s exposes its Ratio field" % nm
    return n >= 3, "%d Ratio::new_raw sites, all with non-zero constant denominators; wrapper fields private" % n


def sc_lockstep_pushes(eng, fid, fn, it, ob):
    """trafs / moof_offsets of a track are pushed together: every function that pushes to one pushes to the other in the
    same basic-block region, so both vectors always have the same length"""
    fx = eng.fx
    n = 0
    for f2 in fx.fns.values():
        b2 = body_of(f2)
        if b2 is None:
            continue
        pushes = {}
        for b, t in b2.calls():
            if (t["callee"].get("path") or "").endswith("Vec::<T, A>::push"):
                # the vector pushed to is the field `trafs` / `moof_offsets` of an Mp4Track (whatever the variable is called)
                pl_ = op_place(t["args"][0])
                sd_ = b2.single_def(pl_["l"]) if pl_ is not None and not pl_["p"] else None
                proj_ = sd_[3]["place"]["p"] if sd_ is not None and sd_[2] == "assign" and sd_[3]["k"] == "ref" else []
                last_ = proj_[-1] if proj_ and isinstance(proj_[-1], dict) else {}
                if last_.get("f") in ("moof_offsets", "trafs") and short(last_.get("adt") or "") == "Mp4Track":
                    pushes.setdefault(last_["f"], []).append(b)
        if pushes:
            n += 1
            if len(pushes.get("moof_offsets", [])) != len(pushes.get("trafs", [])):
                return False, "%s pushes to only one of trafs/moof_offsets" % short(f2["id"])
            for a, b in zip(sorted(pushes["moof_offsets"]), sorted(pushes["trafs"])):
                if not (b2.dominates(a, b) or b2.dominates(b, a)):
                    return False, "pushes in %s are on different paths" % short(f2["id"])
    return n >= 1, "%d functions push to Mp4Track.trafs and .moof_offsets, always together" % n


LEN_PRESERVING = ("get", "get_mut", "index", "index_mut", "iter", "iter_mut", "len", "is_empty", "last", "last_mut", "first", "first_mut",
                  "deref", "deref_mut", "as_slice", "as_mut_slice", "as_ref", "as_mut", "clone", "push")


def counted_fill(fx, body, coll):
    """(end operand rendering, loop) when local Vec `coll` is created empty in this function and filled by exactly one push
    per iteration of one `for _ in 0..E` loop whose other exits all leave the function; else (None, reason)"""
    import loops as LP
    sd = body.single_def(coll)
    if not (sd and sd[2] == "call" and strip_generics(sd[3]["callee"].get("path") or "") in ("alloc::vec::Vec::with_capacity", "alloc::vec::Vec::new")):
        return None, "collection is not created empty here"
    def rooted(op):
        pl = op_place(op)
        if pl is None:
            return False
        l = pl["l"]
        for _ in range(4):
            if l == coll:
                return True
            d = body.single_def(l)
            if d and d[2] == "assign" and d[3]["k"] == "ref":
                l = d[3]["place"]["l"]
            elif d and d[2] == "call" and strip_generics(d[3]["callee"].get("path") or "").split("::")[-1] in ("deref", "deref_mut") and d[3]["args"]:
                pl2 = op_place(d[3]["args"][0])
                if pl2 is None:
                    return False
                l = pl2["l"]
            else:
                return False
        return False
    pushes = []
    for b, t in body.calls():
        nm = strip_generics(t["callee"].get("path") or "").split("::")[-1]
        if t["args"] and rooted(t["args"][0]):
            if nm == "push":
                pushes.append(b)
            elif nm not in LEN_PRESERVING:
                return None, "length may change through %s" % nm
    if len(pushes) != 1:
        return None, "%d push sites" % len(pushes)
    fid = body.id
    ls = LP.inventory(fx, fid)
    inl = [L for L in ls if pushes[0] in L.own_blocks(ls)]
    if len(inl) != 1:
        return None, "push is not in exactly one loop"
    L = inl[0]
    if not all(body.dominates(pushes[0], la) for la in L.latches):
        return None, "an iteration can skip the push"
    nb, nt = LP.driver_next_call(body, L, ls)
    if nt is None or "core::ops::range::Range<" not in (nt["callee"].get("full") or ""):
        return None, "filling loop is not a range loop"
    # the block reached when next() is None
    normal = None
    sw = body.term(nt["t"]) if nt.get("t") is not None else None
    if sw and sw["k"] == "switch":
        for v, tgt in sw["targets"]:
            if v == 0:
                normal = tgt
        if normal is None:
            normal = sw["otherwise"]
    if normal is None or normal in L.blocks and False:
        return None, "no exhaustion exit"
    for b in L.blocks:
        for x in body.succ[b]:
            if x not in L.blocks and x != normal and not (b == nt.get("t") and x == normal):
                if body.can_reach(x, normal):
                    return None, "the loop can be left early and execution continues"
    # the range: Range{start: 0, end: E}
    return (L, nb, normal), ""


def sc_counted_fill(eng, fid, fn, it, ob):
    """index/get obligations on a vector filled by `for _ in 0..n { v.push(..) }`: len == n, and the index is proved < n"""
    body = it.body
    t = body.term(ob["block"])
    if t["k"] != "call" or len(t["args"]) < 2:
        return False, "not an indexing call"
    # the collection local
    pl = op_place(t["args"][0])
    l = pl["l"] if pl else None
    root = None
    for _ in range(5):
        if l is None:
            break
        d = body.single_def(l)
        if d and d[2] == "call" and strip_generics(d[3]["callee"].get("path") or "") in ("alloc::vec::Vec::with_capacity", "alloc::vec::Vec::new"):
            root = l
            break
        if d and d[2] == "assign" and d[3]["k"] == "ref":
            l = d[3]["place"]["l"]
        elif d and d[2] == "call" and d[3]["args"] and strip_generics(d[3]["callee"].get("path") or "").split("::")[-1] in ("deref", "deref_mut"):
            p2 = op_place(d[3]["args"][0])
            l = p2["l"] if p2 else None
        else:
            break
    if root is None:
        return False, "indexed collection is not a local vector created in this function"
    fill, why = counted_fill(eng.fx, body, root)
    if fill is None:
        return False, why
    L, nb, normal = fill
    if not body.dominates(normal, ob["block"]):
        return False, "the access is not after the filling loop"
    # n = end of the filling range, at the filling loop's next() call
    st1 = it.out_states.get(nb)
    tgt = it.ref_target(st1, body.term(nb)["args"][0]) if st1 is not None else None
    e1 = st1.cells.get(tgt + (".end",)) if tgt else None
    st = it.out_states.get(ob["block"])
    if e1 is None or st is None:
        return False, "filling range not tracked"
    isid, ilo, ihi, _ = it.read_op(st, t["args"][1], (ob["block"], "t"))
    def lt_n(sid, depth=0):
        if sid is None or depth > 3:
            return False
        if (sid, "<", e1) in st.rel:
            return True
        d = it.syms[sid].defn
        # i + k < n  when  i < n - k
        if d and d[0] in ("math", "bin") and d[1] == "Add":
            a, b = d[2], d[3]
            k = (d[6] if d[0] == "math" else d[5][0]) if b is None else None
            if a is not None and k is not None:
                for (x, op, y) in st.rel:
                    if x == a and op == "<":
                        dy = it.syms[y].defn
                        if dy and dy[0] in ("math", "bin") and dy[1] == "Sub" and dy[2] == e1 and dy[3] is None and (dy[6] if dy[0] == "math" else dy[5][0]) == k:
                            return True
                # or an equal sum already compared with n (same operands, other site)
                for (x, op, y) in st.rel:
                    if op == "<" and y == e1:
                        dx = it.syms[x].defn
                        if dx and dx[0] in ("math", "bin") and dx[1] == "Add" and dx[2] == a and dx[3] is None and (dx[6] if dx[0] == "math" else dx[5][0]) == k:
                            return True
        return False
    ok = lt_n(isid)
    return ok, ("vector filled by one push per iteration of 0..n; index proved < n" if ok else "index not proved below the fill count")


def sc_helper_index(name, need_present=False):
    """the accepted invariant rests on a postcondition of a private helper; lookup_post re-derives it from the helper's MIR"""
    def f(eng, fid, fn, it, ob):
        import lookup_post
        r = lookup_post.check(eng.fx, name)
        if not r["ok"]:
            return False, "postcondition of Mp4Track::%s no longer derivable: %s" % (name, r["why"])
        if need_present and not r["present"]:
            return False, "Mp4Track::%s can return the index of a fragment whose trun was not tested to be present" % name
        return True, "Mp4Track::%s returns a position in its table (%s)" % (name, r["why"])
    return f


def sc_guarded_sum(eng, fid, fn, it, ob):
    """`a.checked_add(b).expect(..)` cannot fire when the call is reached only through the edge of a dominating comparison
    that established b <= g - a (the difference computed in the same unsigned type), with a and b unchanged in between:
    then a + b <= g.  Re-derived from the MIR on every run (operand identity through copies, not names)."""
    body = it.body
    B = ob["block"]
    t = body.term(B)

    def root(op):
        pl = op_place(op)
        for _ in range(6):
            if pl is None or pl["p"]:
                return pl
            sd = body.single_def(pl["l"])
            if body.local_name(pl["l"]) or sd is None or sd[2] != "assign" or sd[3]["k"] not in ("use", "cast"):
                return pl
            pl = op_place(sd[3]["a"])
        return pl
    opt = op_place(t["args"][0]) if t.get("args") else None
    sd = body.single_def(opt["l"]) if opt is not None and not opt["p"] else None
    if sd is None or sd[2] != "call" or not (sd[3]["callee"].get("path") or "").endswith("checked_add") or len(sd[3]["args"]) != 2:
        return False, "the unwrapped value is not the result of a checked_add"
    A = sd[0]
    a, b = sd[3]["args"]
    ra, cb = root(a), body.canon_op(b)
    if ra is None or ra["p"]:
        return False, "first addend is not a plain local"
    for S in sorted(body.reach):
        ts = body.term(S)
        if ts["k"] != "switch" or S == A or not body.dominates(S, A):
            continue
        dl = op_place(ts["discr"])
        d = body.single_def(dl["l"]) if dl is not None and not dl["p"] else None
        if d is None or d[2] != "assign" or d[3]["k"] != "bin" or d[3].get("op") not in ("Gt", "Le", "Lt", "Ge"):
            continue
        op = d[3]["op"]
        x, y = d[3]["a"], d[3]["b"]
        # normalise to  small <= big  holding on edge `hold`
        if op in ("Gt", "Le"):        # x > y  /  x <= y
            small, big, hold = x, y, (0 if op == "Gt" else 1)
        else:                         # x < y  /  x >= y
            small, big, hold = y, x, (0 if op == "Lt" else 1)
        if body.canon_op(small) != cb:
            continue
        rb = root(big)
        # big = (g - a).0 of a checked subtraction, or a plain Sub
        sdb = body.single_def(rb["l"]) if rb is not None else None
        if rb is not None and rb["p"] and sdb and sdb[2] == "assign" and sdb[3]["k"] in ("checked", "bin") and sdb[3].get("op") in ("SubWithOverflow", "Sub"):
            sub = sdb[3]
        elif rb is not None and not rb["p"] and sdb and sdb[2] == "assign" and sdb[3]["k"] in ("checked", "bin") and sdb[3].get("op") in ("SubWithOverflow", "Sub", "SubUnchecked"):
            sub = sdb[3]
        elif rb is not None and not rb["p"] and sdb and sdb[2] == "assign" and sdb[3]["k"] == "use" and op_place(sdb[3]["a"]) is not None:
            inner = op_place(sdb[3]["a"])
            sdi = body.single_def(inner["l"])
            sub = sdi[3] if sdi and sdi[2] == "assign" and sdi[3]["k"] in ("checked", "bin") and sdi[3].get("op") in ("SubWithOverflow", "Sub") else None
        else:
            sub = None
        if sub is None:
            continue
        rs = root(sub["b"])
        if rs is None or rs["p"] or rs["l"] != ra["l"]:
            continue
        tgt_hold = None
        tgt_other = []
        for v, tg in ts["targets"]:
            if v == hold:
                tgt_hold = tg
            else:
                tgt_other.append(tg)
        if tgt_hold is None:
            tgt_hold = ts["otherwise"]
        else:
            tgt_other.append(ts["otherwise"])
        if not (tgt_hold == A or body.can_reach(tgt_hold, A)) or any(o == A or body.can_reach(o, A, avoid=[S]) for o in tgt_other if o != tgt_hold):
            continue
        between = {X for X in body.reach if (X == tgt_hold or body.can_reach(tgt_hold, X, avoid=[S])) and (X == A or body.can_reach(X, A, avoid=[S]))}
        redefs = [X for X, i, k, p_ in body.defs().get(ra["l"], []) if X in between and X != A]
        if redefs:
            continue
        return True, "reached only where %s <= %s held (bb%d), addend unchanged since" % (body.op_str(small), body.op_str(big), S)
    return False, "no dominating comparison establishes b <= g - a for this sum"


def _index_origin(body, op):
    """(call terminator, projections) when the operand is a component of the value a local call returned, followed through
    copies and field / variant projections only (`let (i, _) = helper(..)?` style bindings included)"""
    pl = op_place(op)
    projs = []
    seen = set()
    for _ in range(16):
        if pl is None:
            return None, None
        projs = [p for p in pl["p"] if p != "deref"] + projs
        l = pl["l"]
        if l in seen:
            return None, None
        seen.add(l)
        ds = body.defs().get(l, [])
        if len(ds) != 1:
            return None, None
        b_, i_, kind, payload = ds[0]
        if kind == "call":
            cp = payload["callee"].get("path") or ""
            if cp.endswith("Try::branch") and payload["args"]:
                pl = op_place(payload["args"][0])
                continue
            return payload, projs
        if kind != "assign" or payload["k"] not in ("use", "cast"):
            return None, None
        pl = op_place(payload["a"])
    return None, None


def sc_index_from_helper(need_present=False):
    """`table.get(i).unwrap()` / `table[i]` where i is the index component returned by one of the lookup helpers and `table`
    is the collection that helper searched: the helper's postcondition (lookup_post) is re-derived on every run, and the
    caller side (which call produced i, which table it indexes) is read off the MIR instead of from the spelling."""
    def f(eng, fid, fn, it, ob):
        import lookup_post
        body = it.body
        t = body.term(ob["block"])
        if ob["what"].startswith("unwrap_opt"):
            opt = op_place(t["args"][0]) if t.get("args") else None
            sd = body.single_def(opt["l"]) if opt is not None and not opt["p"] else None
            if sd is None or sd[2] != "call" or len(sd[3]["args"]) != 2 or (sd[3]["callee"].get("path") or "").split("::")[-1] not in ("get", "get_mut"):
                return False, "the unwrapped value is not a slice::get result"
            base, idx = sd[3]["args"]
        else:
            if len(t.get("args", [])) != 2:
                return False, "not an indexing call"
            base, idx = t["args"]
        call, projs = _index_origin(body, idx)
        if call is None:
            return False, "the index is not a component of a helper's result"
        hname = (callee_path(call["callee"]) or "").split("::")[-1]
        if hname not in lookup_post.HELPERS:
            return False, "the index comes from %s, which has no derived postcondition" % hname
        comp, want = lookup_post.HELPERS[hname]
        flds = tuple("." + p["f"] for p in projs if isinstance(p, dict) and "f" in p)
        want_flds = tuple(c for c in comp if c.startswith(".") )
        if flds != want_flds:
            return False, "the index is component %s of %s's result, the position is component %s" % (flds, hname, want_flds)
        r = lookup_post.check(eng.fx, hname)
        if not r["ok"]:
            return False, "postcondition of Mp4Track::%s no longer derivable: %s" % (hname, r["why"])
        if need_present and not r["present"]:
            return False, "Mp4Track::%s can return the index of a fragment whose trun was not tested to be present" % hname
        # the indexed table is the one the helper searched
        cb = body.canon_op(base)
        while True:
            m = re.match(r"^(?:[\w:<>&\[\], ]*?)(?:deref|as_slice|as_ref|borrow)\((.*)\)$", cb)
            if not m:
                break
            cb = m.group(1)
        suffix = "".join(want[1])
        hfn = r["fn"]
        targ = None
        for i_, a_ in enumerate(call["args"]):
            ins_ = (hfn.get("inputs_s") or []) if hfn else []
            ty = ins_[i_] if i_ < len(ins_) else ""
            if want[0] in ty:
                targ = body.canon_op(a_)
        if targ is not None:
            ok = cb == targ + want[1][-1] or cb == targ + suffix
        else:
            ok = cb.startswith("$1.") and cb.endswith(suffix) and body.canon_op(call["args"][0]) in ("$1", "&$1") if want[0] != "Mp4Track" else cb in ("$1" + suffix,)
        if want[0] == "Mp4Track":
            # trafs and the vector pushed in lock step with it
            ok = cb in ("$1.trafs", "$1.moof_offsets")
        if not ok:
            return False, "the index returned for %s is applied to %s" % (targ or ("self" + suffix), cb)
        return True, "index = position returned by Mp4Track::%s (%s), applied to the table it searched" % (hname, r["why"])
    return f


def sc_trun_present(eng, fid, fn, it, ob):
    """`<traf>.trun.as_ref().unwrap()` where <traf> is the element of self.trafs at the index find_traf_idx_and_sample_idx
    returned (that helper only returns indices of fragments whose run is present): either indexed right here, or handed in
    by every caller as `&self.trafs[idx]` with such an idx."""
    import lookup_post
    r = lookup_post.check(eng.fx, "find_traf_idx_and_sample_idx")
    if not (r["ok"] and r["present"]):
        return False, "find_traf_idx_and_sample_idx no longer guarantees a present run (%s)" % r["why"]
    body = it.body
    t = body.term(ob["block"])
    opt = op_place(t["args"][0]) if t.get("args") else None

    def traf_origin(b_, pl, depth=0):
        """('index', idx operand) | ('param', n) | None for the TrafBox the place lies in"""
        for _ in range(10):
            if pl is None:
                return None
            l = pl["l"]
            if 1 <= l <= b_.argc and "TrafBox" in b_.locals[l]["ty"]:
                return ("param", l)
            ds = b_.defs().get(l, [])
            if len(ds) != 1:
                return None
            kind, payload = ds[0][2], ds[0][3]
            if kind == "call":
                tail = (payload["callee"].get("path") or "").split("::")[-1]
                if tail in ("as_ref", "as_mut", "deref", "borrow", "as_deref") and payload["args"]:
                    pl = op_place(payload["args"][0])
                    continue
                if tail in ("index", "get_unchecked") and len(payload["args"]) == 2 and b_.canon_op(payload["args"][0]) in ("$1.trafs", "&$1.trafs"):
                    return ("index", payload["args"][1])
                return None
            if kind == "assign" and payload["k"] == "ref":
                pl = payload["place"]
                continue
            if kind == "assign" and payload["k"] in ("use", "cast"):
                pl = op_place(payload["a"])
                continue
            return None
        return None
    org = traf_origin(body, opt)
    if org is None:
        return False, "the unwrapped run does not belong to an element of self.trafs the rule can follow"
    sites = []
    if org[0] == "index":
        sites.append((body, org[1]))
    else:
        for caller in sorted(eng.cg.callers_of(fid)):
            cb = body_of(eng.fx.fns[caller])
            if cb is None:
                continue
            for b2, t2 in cb.calls():
                if callee_path(t2["callee"]) != fid or org[1] - 1 >= len(t2["args"]):
                    continue
                o2 = traf_origin(cb, op_place(t2["args"][org[1] - 1]))
                if o2 is None or o2[0] != "index":
                    return False, "%s hands in a fragment that is not self.trafs[idx]" % fn_short(caller)
                sites.append((cb, o2[1]))
        if not sites:
            return False, "no caller found"
    for b_, idx in sites:
        call, projs = _index_origin(b_, idx)
        if call is None or not (callee_path(call["callee"]) or "").endswith("find_traf_idx_and_sample_idx"):
            return False, "the fragment index does not come from find_traf_idx_and_sample_idx"
        flds = tuple(p["f"] for p in projs if isinstance(p, dict) and "f" in p)
        if flds != ("0", "0"):
            return False, "the fragment index is not the position component of the search result"
    return True, "the fragment is self.trafs[idx] with idx from find_traf_idx_and_sample_idx, which returns only fragments whose run is present (%d site(s))" % len(sites)


def sc_both(a, b):
    def f(eng, fid, fn, it, ob):
        ok1, w1 = a(eng, fid, fn, it, ob)
        ok2, w2 = b(eng, fid, fn, it, ob)
        return ok1 and ok2, "%s; %s" % (w1, w2)
    return f


def K(prefix):
    return lambda fid, fn, ob, key: key.startswith(prefix)


ACCEPTED = [
    {"match": K("mp4box::box_start|Overflow(Sub)|val, 8"), "side": sc_box_start,
     "reason": "the stream position is >= 8 because a box header (>= 8 bytes) was just read"},
    {"match": K("<R>::read_header|Overflow(Sub)|val, 8"), "side": sc_after_header_here,
     "reason": "moof offset = position - 8 right after the moof header was read"},
    {"match": K("<R>::read_fragment_header|Overflow(Sub)|val, 8"), "side": sc_after_header_here,
     "reason": "moof offset = position - 8 right after the moof header was read"},
    {"match": K("<R>::read_header|Overflow(Sub)|current, start"), "side": sc_trusted("A-POS-MONO"),
     "reason": "A-POS-MONO: positions observed during the forward walk are >= the position at entry (every seek target is header start + size)"},
    {"match": K("<R>::read_fragment_header|Overflow(Sub)|current, start"), "side": sc_trusted("A-POS-MONO"),
     "reason": "A-POS-MONO: positions observed during the forward walk are >= the position at entry"},
    {"match": K("EmsgBox::time_size|panic:begin_panic|"), "side": sc_emsg_version,
     "reason": "EmsgBox values produced by the parser have version 0 or 1 (other versions are rejected before construction)"},
    {"match": K("emsg::read_null_terminated_utf8_string|unsafe_precond:from_bytes_with_nul_unchecked|"), "side": sc_trusted("loop pushes bytes and stops at the first NUL"),
     "reason": "the buffer ends with its only NUL byte: the loop breaks immediately after pushing 0"},
    {"match": (lambda fid, fn, ob, key: "::value|ratio:to_integer|" in key and key.startswith("FixedPoint")), "side": sc_ratio_denominators,
     "reason": "fixed-point denominators are the non-zero constants 0x100 / 0x10000"},
    {"match": (lambda fid, fn, ob, key: key.split("|")[0].split("::{closure")[0] == "MoofBox::get_size" and "|Overflow(Add)|" in key
               and any("TrafBox as mp4box::Mp4Box>::box_size" in r for x in ("a", "b") for r in ((ob.get("detail") or {}).get(x) or {}).get("prov", []))), "side": sc_trusted("A-MEM"),
     "reason": "sum of in-memory traf sizes; each parsed trun's 4*sample_count terms were bounded by its box size by the trun reader"},
    {"match": K("<StscBox as ReadBox<&mut R>>::read_box|unwrap_opt:unwrap|slice::get"), "side": sc_trusted("one push per iteration of 0..entry_count"),
     "reason": "entries holds exactly entry_count elements (one push per iteration, every early exit returns) and i < entry_count (i + 1 < entry_count under the `i < entry_count - 1` test)"},
    {"match": lambda fid, fn, ob, key: ob["kind"] == "call" and ob["what"] in ("index:index", "index:index_mut") and "ReadBox<" in fid, "side": sc_counted_fill, "soft": True,
     "reason": "entries holds exactly entry_count elements (one push per iteration, every early exit returns) and i < entry_count (i + 1 < entry_count under the `i < entry_count - 1` test)"},
    # ---- track.rs cross-function invariants (sample-table lookups)
    {"match": K("Mp4Track::find_traf_idx_and_sample_idx|Overflow(Sub)|global_idx, offset"), "side": sc_trusted("loop invariant offset <= global_idx"),
     "reason": "loop invariant offset <= global_idx: offset only grows by sample_count on the path where sample_count <= global_idx - offset"},
    {"match": K("Mp4Track::find_traf_idx_and_sample_idx|unwrap_opt:expect|num::checked_add("), "side": sc_guarded_sum,
     "reason": "checked_add is reached only when sample_count <= global_idx - offset, so offset + sample_count <= global_idx <= u32::MAX: the expect cannot fire"},
    {"match": lambda fid, fn, ob, key: key.startswith("Mp4Track::") and "|unwrap_opt:unwrap|slice::get(" in key and re.search(r"(stsc|ctts)\.entries\), ", key) is not None,
     "side": sc_index_from_helper(),
     "reason": "the index is the position returned by stsc_index / ctts_index for the very table it is applied to (i-1 for an enumerate index i >= 1, len-1 after the non-empty check, or an enumerate index)"},
    {"match": K("Mp4Track::ctts_index|unwrap_opt:unwrap|Option::as_ref(self.trak.mdia.minf.stbl.ctts)"), "side": sc_trusted("only caller tests Some"),
     "reason": "private helper, its only caller runs it inside `if let Some(ctts) = stbl.ctts`"},
    {"match": lambda fid, fn, ob, key: key.startswith("Mp4Track::") and "|index:index|self.trafs, " in key, "side": sc_index_from_helper(),
     "reason": "the index is the fragment position returned by find_traf_idx_and_sample_idx, which walks self.trafs"},
    {"match": lambda fid, fn, ob, key: key.startswith("Mp4Track::") and "|index:index|self.moof_offsets, " in key, "side": sc_both(sc_lockstep_pushes, sc_index_from_helper()),
     "reason": "moof_offsets has the same length as trafs"},
    {"match": lambda fid, fn, ob, key: key.startswith("Mp4Track::") and "|unwrap_opt:unwrap|Option::as_ref(" in key and key.rstrip(")").endswith(".trun"), "side": sc_trun_present,
     "reason": "find_traf_idx_and_sample_idx only returns indices of fragments whose trun is Some"},
    {"match": K("Mp4Track::sample_offset|Overflow(Sub)|sample_id, sample_idx as u32"), "side": sc_trusted("find_traf postcondition"),
     "reason": "sample_idx = global_idx - offset <= sample_id - 1"},
    {"match": lambda fid, fn, ob, key: key.startswith("Mp4Track::sample_time|index:index|trun.sample_durations"), "side": sc_trusted("trun reader fills sample_durations under the same flag"),
     "reason": "under FLAG_SAMPLE_DURATION the trun reader pushed exactly sample_count durations and sample_idx < sample_count"},
    {"match": K("Mp4Track::sample_size|Overflow(Sub)|sample_id as usize, 1"), "side": sc_trusted("ids reaching sample_size are >= 1"),
     "reason": "sample ids reaching the stsz branch are >= 1: read_sample calls sample_offset first, which fails for id 0 (stsc_index), and the chunk walk starts at first_sample >= 1"},
    {"match": K("Mp4Track::sample_time|Overflow(Sub)|sample_id, sample_count"), "side": sc_trusted("loop invariant sample_count <= sample_id"),
     "reason": "loop invariant sample_count <= sample_id (ids >= 1 reach sample_time, see sample_size)"},
    {"match": K("Mp4Track::sample_time|Overflow(Sub)|sample_id, 1"), "side": sc_trusted("ids reaching sample_time are >= 1"),
     "reason": "read_sample reaches sample_time only after sample_offset(sample_id) returned Ok, which excludes id 0 once the find_traf finding is repaired; with id 0 the earlier (listed) panic fires first"},
    {"match": lambda fid, fn, ob, key: key.startswith("Mp4Track::sample_time|Overflow(Add)|") and ("elapsed" in key) and "base_start_time" not in key, "side": sc_trusted("sum bound"),
     "reason": "elapsed = sum of count_i*delta_i over entries before the sample, with sum count_i < sample_id < 2^32 and delta_i < 2^32: below 2^64"},
    {"match": K("Mp4Track::total_sample_size|Overflow(Add)|total_size, size as u64"), "side": sc_trusted("A-MEM"),
     "reason": "sum of < 2^32 values each < 2^32"},
]


def entry_assumptions(fx):
    a = {}
    rh = fx.impl_fn("Mp4Reader<R>", None, "read_header")
    rfh = fx.impl_fn("Mp4Reader<R>", None, "read_fragment_header")
    if rh:
        a[rh["id"]] = {2: (0, A_LEN)}
    if rfh:
        a[rfh["id"]] = {3: (0, A_LEN)}
    return a, rh, rfh


def build_engine(fx, chk):
    ents = reader_entries(fx)
    asm, rh, rfh = entry_assumptions(fx)
    chk.anchor("PF", "Mp4Reader::read_header", rh)
    chk.anchor("PF", "Mp4Reader::read_fragment_header", rfh)
    chk.floor("PF", "reader entry points", len(ents), 200)
    eng = panicfree.Engine(fx, chk, ents, asm, ACCEPTED, profile=getattr(fx, "profile", "dev"), field_exclude=set(), accepted_id="C06")
    return eng, ents


def run(fx, chk, tier):
    chk.rule("PF.assert", "every MIR Assert terminator (overflow, division/remainder by zero, bounds) reachable from the reader API is discharged")
    chk.rule("PF.call", "every call to a panicking callee (unwrap/expect, indexing, panic!, slice/Vec/byteorder preconditions) reachable from the reader API is discharged")
    chk.rule("PF.recursion", "no recursion in the reader closure (bounded stack)")
    chk.assume("A-LEN: the size passed to read_header/read_fragment_header is the true stream length and < 2^62")
    chk.assume("A-POS: Seek::stream_position / seek return values < 2^62")
    chk.assume("A-MEM: no in-memory collection has 2^32 or more elements")
    chk.assume("A-STD: std/alloc/serde/bytes functions outside the panicking-callee table do not panic except on allocation failure")
    eng, ents = build_engine(fx, chk)
    chk.floor("PF", "functions in reader closure", len(eng.clo), 400)
    n = eng.run()
    chk.floor("PF", "panic obligations in reader closure", n, 400)
    chk.analysed["closure_functions"] = len(eng.clo)
    chk.closure_ids = sorted(eng.clo)
    chk.engine = eng
    chk.analysed["entries"] = len(ents)
    chk.analysed["memsize_functions"] = len(eng.ms)
    return chk.finish(
        "other",
        "Every panic-capable construct in the %d functions reachable from the %d reader entry points is enumerated from MIR (%d obligations) and discharged by abstract "
        "interpretation, D-SERDE, D-MEM or a side-conditioned accepted invariant; the rest are violations or listed known findings. "
        "Silence means proved under the stated assumptions. Not decided: panics inside std/serde beyond the table; stack depth in bytes; OOM (C08)." % (len(eng.clo), len(ents), n),
    )
