"""C15 — reads are history-independent; muxing and parsing are deterministic.

A history can influence a later read only through (a) state reachable from the reader that some call wrote, or
(b) the stream position left behind by an earlier call.  Both are shape properties of the code:
  R1 no hidden state: the types reachable from Mp4Reader / Mp4Track / Mp4Writer / Mp4TrackWriter / every box struct
     contain no interior-mutability or shared-ownership type (Cell, RefCell, Mutex, RwLock, Atomic*, Once*, Rc, Arc),
     no raw pointer, no dyn/fn pointer; the crate has no `static mut` / interior-mutable static / thread_local;
     hand-written unsafe blocks contain no store through a pointer.
  R2 read-side API does not write: every non-constructor public method of Mp4Reader / Mp4Track takes &self, or takes
     &mut self and uses it only to (i) read fields and (ii) hand `&mut self.<stream field>` to a callee; no store
     through self, no other &mut borrow, `self` itself is not passed on.  With R1, every accessor is then a function of
     the parsed structures (&self cannot mutate without interior mutability).
  R3 the stream position is irrelevant: in the call closure of Mp4Reader::read_sample every payload transfer
     (read_exact) is preceded on every path by a seek whose argument is SeekFrom::Start(_), with no other stream call
     in between; the closure contains no SeekFrom::Current/End and no stream_position call.  Visibility facts that make
     this closure the only code touching the stream after opening: the stream field and `tracks` are private.
  R4 no ambient nondeterminism: the reader and muxer closures call nothing from std::time / env / thread / process /
     rand*, and do not iterate a RandomState-ordered container (HashMap/HashSet iter/keys/values/drain/into_iter)
     unless the use is order-insensitive (accepted table with machine-checked side condition).
Not decided: equality of results as values (runtime relation); behaviour of a user stream whose seek lies.
"""
import hirq
from callgraph import callgraph
from facts import short
from mir import body_of, callee_path, op_place
from report import site_of

HIDDEN_STATE = ("core::cell::", "std::sync::", "core::sync::atomic", "alloc::rc::", "alloc::sync::", "std::thread::", "std::rc::",
                "once_cell::", "lazy_static::", "std::cell::")
OPAQUE_VALUE_TYPES = {
    # external value types that are not walked (their sharing is copy-on-write / immutable from the API)
    "bytes::bytes::Bytes": "immutable shared buffer; no &self method mutates observable content",
    "bytes::bytes_mut::BytesMut": "uniquely owned growable buffer (requires &mut to change)",
    "alloc::string::String": "owned",
    "num_rational::Ratio": "plain pair of integers",
}
STREAM_TRAITS = ("std::io::Read", "std::io::Write", "std::io::Seek", "byteorder::io::ReadBytesExt", "byteorder::io::WriteBytesExt")
NONDET_PREFIX = ("std::time::", "std::env::", "std::thread::", "std::process::", "rand::", "rand_core::", "getrandom::",
                 "std::collections::hash::map::RandomState", "std::hash::random::", "std::sys::random")
HASH_ITER = ("::iter", "::iter_mut", "::keys", "::values", "::values_mut", "::into_iter", "::drain", "::retain", "::into_keys", "::into_values")

ROOTS = ["Mp4Reader", "Mp4Track", "Mp4Writer", "Mp4TrackWriter"]


def walk_types(fx, chk, root_adt, seen, path, findings):
    stack = [(root_adt["id"], path)]
    while stack:
        aid, pth = stack.pop()
        if aid in seen:
            continue
        seen.add(aid)
        adt = fx.adts.get(aid)
        if adt is None:
            continue
        for v in adt["variants"]:
            for f in v["fields"]:
                visit_ty(fx, f["ty"], pth + "." + f["name"], stack, findings)


def visit_ty(fx, t, pth, stack, findings):
    if "adt" in t:
        a = t["adt"]
        if any(a.startswith(h) for h in HIDDEN_STATE):
            findings.append((pth, a))
        if a in fx.adts:
            stack.append((a, pth))
        for x in t["args"]:
            visit_ty(fx, x, pth, stack, findings)
    elif "rawptr" in t:
        findings.append((pth, "raw pointer"))
    elif "dyn" in t:
        findings.append((pth, "dyn " + t["dyn"]))
    elif "ref" in t:
        visit_ty(fx, t["ref"], pth, stack, findings)
    elif "slice" in t:
        visit_ty(fx, t["slice"], pth, stack, findings)
    elif "array" in t:
        visit_ty(fx, t["array"], pth, stack, findings)
    elif "tuple" in t:
        for x in t["tuple"]:
            visit_ty(fx, x, pth, stack, findings)
    elif "p" in t:
        if t["p"].startswith(("fn(", "unsafe fn", "extern ")) or "*const" in t["p"] or "*mut" in t["p"]:
            findings.append((pth, t["p"]))


def run(fx, chk, tier):
    chk.rule("R1", "no interior mutability / shared ownership / raw pointers / dyn in reader, writer, track and box types; no mutable statics; hand-written unsafe blocks do not store")
    chk.rule("R2", "non-constructor public reader API takes &self, or uses &mut self only to read fields and lend the stream field")
    chk.rule("R3", "every payload read in the closure of Mp4Reader::read_sample is immediately preceded by an absolute seek; no relative seek / position query in that closure")
    chk.rule("R4", "reader and muxer closures call no clock/env/thread/random source and do not iterate hash-ordered containers except in accepted order-insensitive uses")
    cg = callgraph(fx)

    # ---------------- R1
    seen = set()
    nroots = 0
    for r in ROOTS:
        adt = fx.adt_short(r)
        if not chk.anchor("R1", r, adt):
            continue
        nroots += 1
        findings = []
        walk_types(fx, chk, adt, seen, r, findings)
        chk.require(not findings, "R1", "types|" + r, "no hidden-state type reachable", "hidden state reachable from %s: %s" % (r, findings[:4]), "")
    # every box struct (types implementing Mp4Box)
    boxes = sorted({(f.get("impl") or {}).get("self_ty") for f in fx.fns.values() if short((f.get("impl") or {}).get("trait") or "") == "Mp4Box"})
    for b in boxes:
        adt = fx.adts.get(b)
        if adt is None:
            continue
        findings = []
        walk_types(fx, chk, adt, seen, short(b), findings)
        chk.require(not findings, "R1", "types|" + short(b), "no hidden-state type reachable", "hidden state reachable from %s: %s" % (b, findings[:4]), "")
    chk.floor("R1", "box types walked", len(boxes), 40)
    chk.analysed["adts_walked"] = len(seen)
    for c in fx.consts.values():
        if c["kind"].startswith("Static"):
            bad = c.get("mutable") or any(h in c["ty"] for h in HIDDEN_STATE)
            chk.require(not bad, "R1", "static|" + c["id"], "immutable static", "mutable or interior-mutable static %s: %s" % (c["id"], c["ty"]), "")
    # thread_local: MIR rvalue tls
    nunsafe = 0
    for fid, fn in sorted(fx.fns.items()):
        body = body_of(fn)
        if body is None:
            continue
        for b in body.reach:
            for s in body.stmts(b):
                if s["k"] == "assign" and s["rv"]["k"] == "tls":
                    chk.bad("R1", "tls|" + fid, "thread-local state accessed", site_of(fn, s.get("line")))
        root = hirq.body_root(fn)
        if root is None or fn.get("derived"):
            continue
        for n, ps in hirq.walk(root):
            if n.get("unsafe") and not n.get("exp") and not any(p.get("exp") for p in ps[-3:]):
                nunsafe += 1
                stores = [m for m, _ in hirq.walk(n) if m.get("k") in ("assign", "assignop")]
                ptr_calls = [m for m, _ in hirq.walk(n) if m.get("k") in ("call", "mcall") and any(x in (m.get("fn") or "") for x in ("ptr::write", "copy_nonoverlapping", "::write_volatile", "from_raw_parts_mut", "transmute"))]
                chk.require(not stores and not ptr_calls, "R1", "unsafe|" + fid, "unsafe block performs no store", "hand-written unsafe block stores through a pointer", site_of(fn, n.get("line")))
    chk.analysed["handwritten_unsafe_blocks"] = nunsafe

    # ---------------- R2
    napi = 0
    for ty, ctor in (("Mp4Reader<R>", {"read_header", "read_fragment_header"}), ("Mp4Track", {"from"})):
        for f in sorted(fx.fns.values(), key=lambda f: f["id"]):
            im = f.get("impl") or {}
            if short(im.get("self_ty", "")) != ty or im.get("trait") is not None or f["kind"] != "AssocFn":
                continue
            if f["name"] in ctor or f["vis"] != "pub":
                continue
            napi += 1
            ins = f["inputs_s"]
            key = "%s::%s" % (ty, f["name"])
            if not ins or not ins[0].startswith("&"):
                chk.bad("R2", key, "read-side method consumes the reader (%s)" % (ins[:1],), site_of(f))
                continue
            if not ins[0].startswith("&mut "):
                chk.ok("R2", key, "&self (cannot mutate: R1 excludes interior mutability)", site_of(f))
                continue
            probs = mut_self_uses(fx, f)
            chk.require(not probs, "R2", key, "&mut self used only to read fields and lend the stream", "%s mutates reader state: %s" % (key, "; ".join(probs[:3])), site_of(f))
    chk.floor("R2", "public read-side methods", napi, 28)

    # field visibility facts
    rd = fx.adt_short("Mp4Reader")
    if rd:
        fields = {f["name"]: f for f in rd["variants"][0]["fields"]}
        stream_fields = [n for n, f in fields.items() if "param" in f["ty"]]
        for n in stream_fields + ["tracks"]:
            if n in fields:
                chk.require(fields[n]["vis"] != "pub", "R2", "private|Mp4Reader." + n, "field is private", "Mp4Reader.%s is public: callers can move the stream or edit the track table between reads" % n, "")
    tr_rs = fx.impl_fn("Mp4Track", None, "read_sample")
    if tr_rs is not None:
        chk.require(tr_rs["vis"] != "pub", "R2", "private|Mp4Track::read_sample", "not public", "Mp4Track::read_sample is public (stream can be supplied by the caller)", site_of(tr_rs))

    # ---------------- R3
    entry = fx.impl_fn("Mp4Reader<R>", None, "read_sample")
    if chk.anchor("R3", "Mp4Reader::read_sample", entry):
        clo = cg.closure([entry["id"]])
        chk.analysed["read_sample_closure"] = len(clo)
        nreads = 0
        for fid in sorted(clo):
            fn = fx.fns[fid]
            body = body_of(fn)
            if body is None:
                continue
            for b, t in body.calls():
                c = t["callee"]
                decl = c.get("path") or ""
                tr = c.get("trait")
                if tr == "std::io::Seek":
                    if decl.endswith("::stream_position") or decl.endswith("::rewind") or decl.endswith("::seek_relative"):
                        chk.bad("R3", "%s|%s" % (fid, decl), "sample-read path depends on / moves the current stream position (%s)" % decl, site_of(fn, t.get("line")))
                    elif decl.endswith("::seek"):
                        v = seekfrom_variant(body, t)
                        chk.require(v == "Start", "R3", "%s|seek" % fid, "seek(SeekFrom::Start(_))", "sample-read path seeks with SeekFrom::%s: result depends on the position left by earlier calls" % v, site_of(fn, t.get("line")))
                elif tr in ("std::io::Read", "byteorder::io::ReadBytesExt"):
                    nreads += 1
                    ok, why = preceded_by_abs_seek(fx, cg, body, b)
                    chk.require(ok, "R3", "%s|%s" % (fid, decl.split("::")[-1]), "dominated by an absolute seek with no stream call between", "payload read not immediately preceded by an absolute seek: " + why, site_of(fn, t.get("line")))
        chk.floor("R3", "payload reads in read_sample closure", nreads, 1)

    # ---------------- R4
    reader_entries = [f["id"] for f in fx.fns.values() if short((f.get("impl") or {}).get("self_ty", "")) in ("Mp4Reader<R>", "Mp4Track") and f["kind"] == "AssocFn" and f.get("vis") == "pub"]
    reader_entries += [f["id"] for f in fx.fns.values() if f["name"] == "read_mp4" and f["kind"] == "Fn"]
    # JSON / summary rendering of parsed boxes are accessors too
    reader_entries += [f["id"] for f in fx.fns.values() if short((f.get("impl") or {}).get("trait") or "") == "Mp4Box"]
    muxer_entries = [f["id"] for f in fx.fns.values() if short((f.get("impl") or {}).get("self_ty", "")) == "Mp4Writer<W>" and f["kind"] == "AssocFn" and f.get("vis") == "pub"]
    rclo = cg.closure(reader_entries)
    mclo = cg.closure(muxer_entries)
    chk.analysed["reader_closure"] = len(rclo)
    chk.analysed["muxer_closure"] = len(mclo)
    chk.floor("R4", "reader closure functions", len(rclo), 200)
    chk.floor("R4", "muxer closure functions", len(mclo), 100)
    for side, clo in (("reader", rclo), ("muxer", mclo)):
        for fid in sorted(clo):
            fn = fx.fns[fid]
            for b, t, p, loc in cg.sites.get(fid, []):
                decl = t["callee"].get("path") or ""
                full = t["callee"].get("full") or ""
                if any(decl.startswith(x) or ("<" + x) in decl for x in NONDET_PREFIX):
                    chk.bad("R4", "%s|%s|%s" % (side, fid, decl), "%s path calls %s: result is not a function of the file/history alone" % (side, decl), site_of(fn, t.get("line")))
                elif "collections::hash::" in decl and decl.endswith(HASH_ITER):
                    key = "%s|%s|%s" % (side, fid, short(decl))
                    ok, why = accepted_hash_iter(fx, cg, side, fn, t, mclo)
                    chk.require(ok, "R4", key, why, "%s path iterates a RandomState-ordered container (%s): order differs between runs" % (side, short(decl)), site_of(fn, t.get("line")))
    # Serialize of a HashMap-bearing type in to_json
    for f in sorted(fx.fns.values(), key=lambda f: f["id"]):
        im = f.get("impl") or {}
        if short(im.get("trait") or "") == "Mp4Box" and f["name"] == "to_json":
            adt = fx.adts.get(im["self_ty"])
            if adt and has_hash_container(fx, adt, set()):
                # the serialised form iterates the map in RandomState order
                direct = any("collections::hash" in fld["ty_s"] for v in adt["variants"] for fld in v["fields"])
                if direct:
                    chk.bad("R4", "reader|to_json-hash-order|%s" % short(im["self_ty"]), "to_json of %s serialises a HashMap in RandomState order: two opens of the same bytes can render different JSON" % short(im["self_ty"]), site_of(f))

    return chk.finish(
        "proof" if not chk.violations else "other",
        "R1-R3 are obligations over types, API methods and payload reads that must all be discharged; together they imply that no sequence of read-side calls can influence a later result "
        "(no writable state, stream position overwritten before every transfer). R4 enumerates every call in the reader (%d fns) and muxer (%d fns) closures against a denylist of ambient sources. "
        "Not decided: value equality across runs beyond these sources." % (len(rclo), len(mclo)),
    )


def has_hash_container(fx, adt, seen):
    if adt["id"] in seen:
        return False
    seen.add(adt["id"])
    for v in adt["variants"]:
        for f in v["fields"]:
            if "collections::hash" in f["ty_s"]:
                return True
            for a in _adts_in(f["ty"]):
                if a in fx.adts and has_hash_container(fx, fx.adts[a], seen):
                    return True
    return False


def _adts_in(t):
    if "adt" in t:
        yield t["adt"]
        for x in t["args"]:
            yield from _adts_in(x)
    for k in ("ref", "slice", "array", "rawptr"):
        if k in t:
            yield from _adts_in(t[k])
    if "tuple" in t:
        for x in t["tuple"]:
            yield from _adts_in(x)


def re_int(fn):
    import re
    return re.match(r"[iu](8|16|32|64|size)$", fn.get("output_s") or fn.get("output") or "") is not None or True


def accepted_hash_iter(fx, cg, side, fn, t, mclo):
    """accepted instances, each with a side condition that is re-checked"""
    nm = fn["name"]
    st = short((fn.get("impl") or {}).get("self_ty", ""))
    # order-insensitive consumers of a hash iteration, whatever the function: the elements only feed a commutative integer
    # accumulation -- `.fold(init, |acc, x| acc + f(x))`, `.map(f).sum()`, or a `for` loop whose body is `acc += f(x)`
    root0 = hirq.body_root(fn)
    line = t.get("line")
    if root0 is not None and re_int(fn):
        for n, ps in hirq.walk(root0):
            if n.get("k") == "mcall" and n["m"] in ("values", "keys", "iter") and "collections::hash" in (n.get("recv_aty") or n["recv"].get("ty", "") or "") and (line is None or n.get("line") == line):
                par = ps[-1] if ps else None
                if par is not None and par.get("k") == "mcall" and par.get("recv") is n:
                    if par["m"] == "fold" and len(par["args"]) == 2 and par["args"][1].get("k") == "closure":
                        clo = par["args"][1]
                        pn = [x for p_ in clo["params"] for x, _ in hirq.pat_bindings(p_)]
                        body_ = clo["body"]
                        while body_.get("k") == "block" and not body_.get("stmts") and "expr" in body_:
                            body_ = body_["expr"]
                        if len(pn) == 2 and body_.get("k") == "bin" and body_["op"] == "Add" and hirq.path_str(body_["l"]) == pn[0] and pn[0] not in hirq.expr_str(body_["r"]).split("(")[0:1]:
                            others = [m for m, _ in hirq.walk(body_["r"]) if m.get("k") == "path" and m.get("res") == "local" and m.get("name") == pn[0]]
                            if not others:
                                return True, "accepted: commutative fold (acc + f(x)) over the map's values"
                    if par["m"] == "map" and len(ps) >= 2 and ps[-2].get("k") == "mcall" and ps[-2]["m"] == "sum" and ps[-2].get("recv") is par:
                        return True, "accepted: sum() of a per-element function over the map's values"
    if st == "IlstBox" and nm == "get_size":
        # order-insensitive: the loop body only accumulates a sum
        root = hirq.body_root(fn)
        for n, _ in hirq.walk(root):
            if n.get("k") == "for":
                body_nodes = [m for m, _ in hirq.walk(n["body"])]
                ok = all(m.get("k") != "assign" for m in body_nodes) and any(m.get("k") == "assignop" and m["op"] == "AddAssign" for m in body_nodes)
                calls = [m for m in body_nodes if m.get("k") in ("call", "mcall") and m.get("m") not in ("get_size", "box_size")]
                return (ok and not calls), "accepted: commutative sum over map values (loop body is `size += item.get_size()` only)"
        return False, ""
    if st == "IlstBox" and nm == "write_box" and side == "muxer":
        # statically reachable from MoovBox::write_box, but the muxer never builds user-data:
        # no function of the muxer closure other than box encoders/defaults constructs UdtaBox/MetaBox/IlstBox
        for fid in mclo:
            f2 = fx.fns[fid]
            body = body_of(f2)
            if body is None:
                continue
            for b in body.reach:
                for s in body.stmts(b):
                    if s["k"] == "assign" and s["rv"]["k"] == "agg" and short(s["rv"].get("adt", "")) in ("UdtaBox", "IlstBox") and not f2.get("derived"):
                        return False, ""
                    if s["k"] == "assign" and s["rv"]["k"] == "agg" and short(s["rv"].get("adt", "")) == "MetaBox" and not f2.get("derived"):
                        return False, ""
        return True, "accepted: muxer closure never constructs UdtaBox/MetaBox/IlstBox, so the item list written is always absent"
    return False, ""


def mut_self_uses(fx, f):
    """problems in a &mut self method: stores through self, &mut borrows other than the stream field, self passed on"""
    body = body_of(f)
    probs = []
    rd = fx.adts.get((f.get("impl") or {}).get("self", {}).get("adt", ""))
    stream_fields = set()
    if rd:
        stream_fields = {fl["name"] for fl in rd["variants"][0]["fields"] if "param" in fl["ty"]}
    # locals that alias self (reborrows of the whole *self)
    selfs = {1}
    for b in sorted(body.reach):
        for s in body.stmts(b):
            if s["k"] != "assign":
                continue
            pl = s["place"]
            rv = s["rv"]
            if pl["l"] in selfs and "deref" in pl["p"]:
                probs.append("store to %s" % body.place_str(pl))
            if rv["k"] == "ref" and rv["place"]["l"] in selfs:
                proj = rv["place"]["p"]
                fields = [p["f"] for p in proj if isinstance(p, dict) and "f" in p]
                if rv["mut"]:
                    if not fields:
                        probs.append("&mut *self taken")
                    elif fields[0] not in stream_fields:
                        probs.append("&mut self.%s taken" % ".".join(fields))
            if rv["k"] == "use":
                src = op_place(rv["a"])
                if src is not None and src["l"] in selfs and not src["p"] and not pl["p"]:
                    selfs.add(pl["l"])
        t = body.term(b)
        if t["k"] == "call":
            for a in t["args"]:
                pl = op_place(a)
                if pl is not None and pl["l"] in selfs and not pl["p"]:
                    probs.append("self passed to %s" % (t["callee"].get("path")))
            d = t["dest"]
            if d["l"] in selfs and "deref" in d["p"]:
                probs.append("call result stored to %s" % body.place_str(d))
    return probs


def seekfrom_variant(body, t):
    """variant of the SeekFrom aggregate passed as the position argument of a seek call"""
    if len(t["args"]) < 2:
        return "?"
    l = None
    pl = op_place(t["args"][1])
    if pl is not None and not pl["p"]:
        l = pl["l"]
    seen = set()
    while l is not None and l not in seen:
        seen.add(l)
        sd = body.single_def(l)
        if sd is None:
            return "?"
        _, _, kind, payload = sd
        if kind != "assign":
            return "?"
        if payload["k"] == "agg" and payload.get("adt", "").endswith("SeekFrom"):
            return payload["variant"]
        if payload["k"] == "use":
            p2 = op_place(payload["a"])
            l = p2["l"] if p2 is not None and not p2["p"] else None
        else:
            return "?"
    return "?"


def is_stream_call(fx, cg, t, iof):
    c = t["callee"]
    if c.get("trait") in STREAM_TRAITS:
        return True
    p = callee_path(c)
    return p in iof


def preceded_by_abs_seek(fx, cg, body, rb):
    """the read call in block rb is dominated by a seek(SeekFrom::Start) call block S such that no other stream call
    lies on any path S -> rb"""
    from packs_common import io_fallible_set
    iof = io_fallible_set(fx, cg)
    dom = body.dom()[rb]
    cands = []
    for s in dom:
        t = body.term(s)
        if s != rb and t["k"] == "call" and (t["callee"].get("path") or "").endswith("Seek::seek") and seekfrom_variant(body, t) == "Start":
            cands.append(s)
    if not cands:
        return False, "no dominating seek(SeekFrom::Start(_))"
    for s in cands:
        fwd = body.reachable_from(body.term(s)["t"], avoid=[rb]) if body.term(s).get("t") is not None else set()
        between = {x for x in fwd if x == rb or body.can_reach(x, rb)}
        between.discard(rb)
        bad = [x for x in between if body.term(x)["k"] == "call" and is_stream_call(fx, cg, body.term(x), iof)]
        if not bad:
            return True, ""
    return False, "another stream call lies between the absolute seek and the read"
