"""Mechanically re-checked postconditions of the private index helpers of the sample-table lookup code.

C06 discharges several index / unwrap obligations in the callers of these helpers through accepted cross-function
invariants ("the returned index is a position in that table").  Here the invariant itself is decided on every run by
trace-partitioned abstract interpretation of the helper: on every path that returns a value, the returned index is
  * the index of an `enumerate()` directly over `<coll>.iter()`, or the item of the range `0..<coll>.len()`, or
  * such an index minus a constant c with the index known to be >= c on that path, or
  * `<coll>.len() - c` with the length known to be >= c on that path (c >= 1),
for the collection named in the table below.  An index obtained any other way (through an adapter that drops or reorders
elements such as filter/filter_map/skip/rev, from a search routine, from arithmetic) is not recognised and the accepted
invariant is withdrawn: the caller's obligation is then reported."""
import pathwise
from facts import short
from mir import body_of

# helper -> (result component holding the index, collection: (owner type substring, field path suffix))
HELPERS = {
    "stsc_index": (("as Ok", ".0"), ("StscBox", (".stsc", ".entries"))),
    "ctts_index": (("as Ok", ".0", ".0"), ("CttsBox", (".entries",))),
    "find_traf_idx_and_sample_idx": (("as Some", ".0", ".0"), ("Mp4Track", (".trafs",))),
}
_memo = {}


def coll_matches(body, coll, want):
    owner, suffix = want
    if _coll_matches_param(body, coll, want):
        return True
    if tuple(coll[-len(suffix):]) != tuple(suffix):
        return False
    if owner == "Mp4Track":
        return coll[:2] == (1, "deref") and len(coll) == 2 + len(suffix)
    root = coll[0]
    if coll[:2] == (1, "deref") and len(coll) > 2 + len(suffix) - 1:
        return True          # reached from self through the named fields
    return isinstance(root, int) and owner in body.locals[root]["ty"]


def _coll_matches_param(body, coll, want):
    """the helper receives the table itself (`fn stsc_index(stsc: &StscBox, ..)`): the collection is the last field of the
    suffix below a parameter of the owner type"""
    owner, suffix = want
    root = coll[0]
    return isinstance(root, int) and 1 <= root <= body.argc and owner in body.locals[root]["ty"] and tuple(x for x in coll[1:] if x != "deref") == (suffix[-1],)


def index_in(it, body, st, sid, want, depth=0):
    """(True, how) when sym `sid` is provably < len(collection `want`) on this path"""
    if sid is None or depth > 4:
        return False, "index is not a tracked value"
    d = it.syms[sid].defn
    lo, hi = it.iv(st, sid)
    if d and d[0] == "enumitem" and coll_matches(body, d[1], want):
        return True, "enumerate index over the collection"
    if d and d[0] == "rangeitem":
        e = it.syms[d[1]].defn
        if e and e[0] == "len" and coll_matches(body, e[1], want) and lo is not None and lo >= 0:
            return True, "item of 0..len()"
        return False, "range does not end at the collection's len()"
    if d and d[0] in ("math", "bin") and d[1] == "Sub":
        if d[0] == "math":
            _, _, a, b, alo, ahi, blo, bhi = d
        else:
            _, _, a, b, (alo, ahi), (blo, bhi) = d
        if b is None and blo is not None and blo == bhi and blo >= 0 and a is not None:
            c = blo
            ad = it.syms[a].defn
            a_lo = it.iv(st, a)[0]
            if ad and ad[0] == "len" and coll_matches(body, ad[1], want) and c >= 1 and a_lo is not None and a_lo >= c:
                return True, "len() - %d with len() >= %d on this path" % (c, c)
            ok, how = index_in(it, body, st, a, want, depth + 1)
            if ok and a_lo is not None and a_lo >= c:
                return True, "%s, minus %d (index >= %d on this path)" % (how, c, c)
    return False, "index %s is not derived from a position in the collection" % (d[0] if d else "of unknown origin")


def element_present(it, body, st, idx_sid, want, field, variant="Some"):
    """is there a fact `<elem>.<field> is Some` where <elem> is the element of the collection at index idx_sid?"""
    for f in st.facts:
        if f[0] != "variant" or f[2] != variant:
            continue
        key = f[1]
        if not key or key[-1] != "." + field:
            continue
        root = key[0]
        sid = st.cells.get((root,))
        d = it.syms[sid].defn if sid is not None else None
        if d and d[0] == "elemof" and d[2] == idx_sid and coll_matches(body, d[1], want):
            return True
    return False


def check(fx, name):
    """-> dict(ok, why, paths, details[])"""
    key = (id(fx), name)
    if key in _memo:
        return _memo[key]
    comp, want = HELPERS[name]
    fn = fx.impl_fn("Mp4Track", None, name)
    res = {"ok": False, "why": "helper Mp4Track::%s not found" % name, "paths": 0, "present": None, "fn": fn}
    if fn is None:
        _memo[key] = res
        return res
    body = body_of(fn)
    n = 0
    bad = None
    present = True
    hows = set()
    for it, blocks, events, st, kind in pathwise.paths(fx, body):
        if kind != "return":
            continue
        if not any(f[0] == "variant" and f[1] == (0,) and f[2] in ("Ok", "Some") for f in st.facts):
            continue
        n += 1
        sid = st.cells.get((0,) + comp)
        ok, how = index_in(it, body, st, sid, want)
        hows.add(how)
        if not ok and bad is None:
            bad = how
        if name == "find_traf_idx_and_sample_idx" and not element_present(it, body, st, sid, want, "trun"):
            present = False
    res = {"ok": n > 0 and bad is None, "why": ("%d returning path(s): %s" % (n, "; ".join(sorted(hows)))) if bad is None and n else (bad or "no path returns a value"),
           "paths": n, "present": present if name == "find_traf_idx_and_sample_idx" else None, "fn": fn}
    _memo[key] = res
    return res
