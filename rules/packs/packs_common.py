"""Helpers shared by several rule packs (repository-specific discovery, not generic analysis)."""
from facts import short

IO_TRAITS = ("std::io::Read", "std::io::Write", "std::io::Seek", "std::io::BufRead",
             "byteorder::io::ReadBytesExt", "byteorder::io::WriteBytesExt")

_cache = {}


def is_io_result(ty):
    return ty.startswith("core::result::Result<") and "std::io::error::Error" in ty


def io_fallible(fx, cg):
    """(direct, transitive) sets of local functions that can fail with an I/O error"""
    key = ("iof", id(fx))
    if key in _cache:
        return _cache[key]
    direct = set()
    for fid, sites in cg.sites.items():
        for b, t, p, loc in sites:
            c = t["callee"]
            if c.get("trait") in IO_TRAITS:
                direct.add(fid)
            elif not loc and is_io_result(t["dest"]["ty"]):
                direct.add(fid)
    iof = set(direct)
    changed = True
    while changed:
        changed = False
        for f, es in cg.edges.items():
            if f not in iof and es & iof:
                iof.add(f)
                changed = True
        # a generic helper that calls a trait method on its type parameter is I/O-fallible when an impl of that method is
        for f, ents in getattr(cg, "poly", {}).items():
            if f in iof or f not in fx.fns:
                continue
            from callgraph import _impls_of_trait_method
            if any(c in iof for tr, m, _p in ents for c in _impls_of_trait_method(fx, tr, m)):
                iof.add(f)
                changed = True
    _cache[key] = (direct, iof)
    return direct, iof


def io_fallible_set(fx, cg):
    return io_fallible(fx, cg)[1]


def self_short(fn):
    return short((fn.get("impl") or {}).get("self_ty", ""))


def trait_short(fn):
    return short((fn.get("impl") or {}).get("trait") or "")


def pub_methods(fx, self_ty_short):
    return [f for f in fx.fns.values() if self_short(f) == self_ty_short and (fn_trait(f) is None) and f["kind"] == "AssocFn" and f.get("vis") == "pub"]


def fn_trait(fn):
    return (fn.get("impl") or {}).get("trait")


def reader_entries(fx):
    """public read-side API: Mp4Reader / Mp4Track methods, read_mp4, every Mp4Box::to_json/summary/box_size/box_type,
    Metadata impls, Display/Debug impls of crate types"""
    out = []
    for f in fx.fns.values():
        if f["kind"] not in ("AssocFn", "Fn"):
            continue
        ss = self_short(f)
        ts = trait_short(f)
        if ss in ("Mp4Reader<R>", "Mp4Track") and fn_trait(f) is None and f.get("vis") == "pub":
            out.append(f["id"])
        elif f["kind"] == "Fn" and f["name"] == "read_mp4":
            out.append(f["id"])
        elif ts == "Mp4Box":
            out.append(f["id"])
        elif ts.startswith("Metadata"):
            out.append(f["id"])
        elif ts in ("Display", "Debug") and not f.get("derived"):
            out.append(f["id"])
    return sorted(out)


def muxer_entries(fx):
    out = []
    for f in fx.fns.values():
        if f["kind"] != "AssocFn":
            continue
        ss = self_short(f)
        ts = trait_short(f)
        if ss == "Mp4Writer<W>" and fn_trait(f) is None and f.get("vis") == "pub":
            out.append(f["id"])
        elif ss == "TrackConfig" and ts.startswith("From<"):
            out.append(f["id"])
    return sorted(out)


_sub_cache = {}
ACTIVE = []       # property ids of the packs currently running, outermost first


def compose(fx, chk, tier, tag, pid, rules, keyfilter=None, floor=None, what=None, fn=None):
    """re-evaluate rule instances owned by pack `pid` and report them under rule `tag` of the composing check.
    Instances that are listed known findings of the owning property are not instances of the composition."""
    import importlib
    import json
    import os
    import report
    if not ACTIVE:
        # outermost composition: the composing pack is the root of the stack for the duration of this call
        ACTIVE.append(chk.pid)
        try:
            return compose(fx, chk, tier, tag, pid, rules, keyfilter, floor, what, fn)
        finally:
            ACTIVE.pop()
    if pid in ACTIVE:
        # the owning pack is further up the composition stack (it composes this one, which composes it back): its
        # instances are reported there, not here
        return 0
    ck = (id(fx), pid, tier, getattr(fn, "__name__", None))
    if ck not in _sub_cache:
        sub = report.Check(pid)
        sub.finish = lambda *a, **k: 0
        ACTIVE.append(pid)
        try:
            if fn is not None:
                # only the named part of the owning pack (a function taking (fx, sub)) is evaluated
                fn(fx, sub)
            else:
                importlib.import_module(pid.lower()).run(fx, sub, tier)
        finally:
            ACTIVE.pop()
        _sub_cache[ck] = sub
    sub = _sub_cache[ck]
    known = set()
    kf = os.path.join(os.path.dirname(os.path.dirname(os.path.dirname(os.path.abspath(__file__)))), "known_findings.jsonl")
    if os.path.exists(kf):
        for line in open(kf):
            line = line.strip()
            if line:
                e = json.loads(line)
                if e.get("property") == pid and e.get("status", "known") == "known":
                    known.add(e["key"])
                    if e.get("ckey"):
                        known.add(e["ckey"])
    n = 0
    for o in sub.obligations:
        base = o["rule"].split(".floor")[0].split(".anchor")[0]
        if not any(base == r or base.startswith(r + ".") for r in rules):
            continue
        if keyfilter and not keyfilter(o):
            continue
        full = "%s|%s" % (o["rule"], o["key"])
        if not o["ok"] and (full in known or o["key"] in known or (o.get("detail") or {}).get("ckey") in known):
            continue
        n += 1
        key = "%s:%s|%s" % (pid, o["rule"], o["key"])
        if o["ok"]:
            chk.ok(tag, key, o["how"], o["site"])
        else:
            chk.bad(tag, key, o["how"], o["site"], o.get("detail"))
    if floor is not None:
        chk.floor(tag, what or ("instances of %s %s" % (pid, "/".join(rules))), n, floor)
    return n


def run_sub(fx, pid, tier, fn=None):
    """run pack `pid` (or fn(sub)) silently as a sub-pack of the current check; returns the sub Check"""
    import importlib
    import report
    sub = report.Check(pid)
    sub.finish = lambda *a, **k: 0
    ACTIVE.append(pid)
    try:
        if fn is not None:
            fn(sub)
        else:
            importlib.import_module(pid.lower()).run(fx, sub, tier)
    finally:
        ACTIVE.pop()
    return sub
