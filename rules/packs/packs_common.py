"""Helpers shared by several rule packs (repository-specific discovery, not generic analysis)."""
from facts import short

IO_TRAITS = ("std::io::Read", "std::io::Write", "std::io::Seek", "std::io::BufRead",
             "byteorder::io::ReadBytesExt", "byteorder::io::WriteBytesExt")

_cache = {}


def is_io_result(ty):
    return ty.startswith("core::result::Result<") and "std::io::error::Error" in ty


def io_fallible(fx, cg):
    """(direct, transitive) sets of local functions that can fail with an I/O error"""
    key = ("iof", id(fx))
    if key in _cache:
        return _cache[key]
    direct = set()
    for fid, sites in cg.sites.items():
        for b, t, p, loc in sites:
            c = t["callee"]
            if c.get("trait") in IO_TRAITS:
                direct.add(fid)
            elif not loc and is_io_result(t["dest"]["ty"]):
                direct.add(fid)
    iof = set(direct)
    changed = True
    while changed:
        changed = False
        for f, es in cg.edges.items():
            if f not in iof and es & iof:
                iof.add(f)
                changed = True
    _cache[key] = (direct, iof)
    return direct, iof


def io_fallible_set(fx, cg):
    return io_fallible(fx, cg)[1]


def self_short(fn):
    return short((fn.get("impl") or {}).get("self_ty", ""))


def trait_short(fn):
    return short((fn.get("impl") or {}).get("trait") or "")


def pub_methods(fx, self_ty_short):
    return [f for f in fx.fns.values() if self_short(f) == self_ty_short and (fn_trait(f) is None) and f["kind"] == "AssocFn" and f.get("vis") == "pub"]


def fn_trait(fn):
    return (fn.get("impl") or {}).get("trait")


def reader_entries(fx):
    """public read-side API: Mp4Reader / Mp4Track methods, read_mp4, every Mp4Box::to_json/summary/box_size/box_type,
    Metadata impls, Display/Debug impls of crate types"""
    out = []
    for f in fx.fns.values():
        if f["kind"] not in ("AssocFn", "Fn"):
            continue
        ss = self_short(f)
        ts = trait_short(f)
        if ss in ("Mp4Reader<R>", "Mp4Track") and fn_trait(f) is None and f.get("vis") == "pub":
            out.append(f["id"])
        elif f["kind"] == "Fn" and f["name"] == "read_mp4":
            out.append(f["id"])
        elif ts == "Mp4Box":
            out.append(f["id"])
        elif ts.startswith("Metadata"):
            out.append(f["id"])
        elif ts in ("Display", "Debug") and not f.get("derived"):
            out.append(f["id"])
    return sorted(out)


def muxer_entries(fx):
    out = []
    for f in fx.fns.values():
        if f["kind"] != "AssocFn":
            continue
        ss = self_short(f)
        ts = trait_short(f)
        if ss == "Mp4Writer<W>" and fn_trait(f) is None and f.get("vis") == "pub":
            out.append(f["id"])
        elif ss == "TrackConfig" and ts.startswith("From<"):
            out.append(f["id"])
    return sorted(out)
