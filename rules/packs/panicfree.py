"""Shared engine of C06 (reader API) and C17 (muxer API): enumerate every panic-capable construct reachable from an
entry set and discharge it, or report it.

Obligations (one per site, from MIR of the analysed closure):
  1 every Assert terminator (Overflow(op), DivisionByZero, RemainderByZero, BoundsCheck, OverflowNeg);
  2 every call to a callee of the panicking-callee table (absint.PANICKING);
  3 the closure's call graph has no cycle other than the accepted generic trait forwarding (bounded stack);
Discharge: abstract interpretation (intervals + relations + variant facts: D-CONST, D-INT, D-DIV, D-UNWRAP, D-INDUCT),
then pack-level rules D-SERDE, D-MEM, the accepted-invariant table (each entry with a re-checked side condition), and
finally attribution of parameter-dependent failures to the call sites that pass the unbounded value.
"""
import json
import os
import re

import analysis
import hirq
from absint import Interp, ty_range
from callgraph import callgraph
from facts import short
from mir import body_of, callee_path, op_place, strip_generics
from report import site_of

MEM_ROOTS = ("C", "LEN")


def fn_short(fid):
    """stable short name: `<Type as Trait>::method` (module paths stripped) or `Type::method[::{closure#n}]`"""
    if fid.startswith("<"):
        return short(fid)
    segs = []
    depth = 0
    cur = ""
    i = 0
    while i < len(fid):
        ch = fid[i]
        if ch in "<{(":
            depth += 1
        elif ch in ">})":
            depth -= 1
        if depth == 0 and fid.startswith("::", i):
            segs.append(cur)
            cur = ""
            i += 2
            continue
        cur += ch
        i += 1
    segs.append(cur)
    n = 2
    while n < len(segs) and segs[-(n - 1)].startswith("{closure"):
        n += 1
    keep = segs[-n:] if len(segs) >= n else segs
    return short("::".join(keep)) if False else "::".join(keep)


def fold_accumulators(fx, res):
    """{closure id: (accumulator root, provenance of the fold's initial value)} for closures passed to Iterator::fold:
    the closure's first explicit parameter only ever holds the initial value or an earlier result of the closure"""
    out = {}
    for fid, it in res.interps.items():
        body = it.body
        for b, t in body.calls():
            if strip_generics(t["callee"].get("path") or "") not in ("core::iter::traits::iterator::Iterator::fold", "core::iter::traits::iterator::Iterator::try_fold") or len(t["args"]) != 3:
                continue
            st = it.out_states.get(b)
            if st is None:
                continue
            rd_init = it.read_op(st, t["args"][1], (b, "t"))
            init_prov = rd_init[3] or frozenset()
            clo_prov = it.read_op(st, t["args"][2], (b, "t"))[3] or frozenset()
            recv_ty = (op_place(t["args"][0]) or {}).get("ty") or ""
            extra = (recv_ty, (rd_init[1], rd_init[2]))
            for r in clo_prov:
                if r.startswith("CALL:") and "{closure" in r:
                    out[r[5:]] = ("P2", init_prov) + extra
            # a closure that captures nothing is a constant: identify it by its type `{closure@file:line:..}`
            a2 = t["args"][2]
            cty = (a2.get("const") or {}).get("ty") or (op_place(a2) or {}).get("ty") or ""
            m_ = re.search(r"\{closure@([^:}]+):(\d+):", cty)
            if m_:
                cands = [k for k in fx.fns if k.startswith(fid + "::{closure") and (fx.fns[k].get("span") or {}).get("file") == m_.group(1) and (fx.fns[k].get("span") or {}).get("line") == int(m_.group(2))]
                if len(cands) == 1 and cands[0] not in out:
                    out[cands[0]] = ("P2", init_prov) + extra
    return out


def checked_sub_map(fx, fid, ob):
    """D-CSUB for `x.checked_sub(K).map(|d| d + C)` with constants C <= K: the closure only runs with d = x - K, so d + C <= x"""
    from mir import op_const, strip_generics
    if "::{closure" not in fid:
        return None
    parent = fid.split("::{closure")[0]
    body = body_of(fx.fns[fid])
    pbody = body_of(fx.fns[parent]) if parent in fx.fns else None
    b = ob.get("block")
    if body is None or pbody is None or b is None or body.argc < 2:
        return None
    t = body.term(b)
    msg = t.get("msg") or {}
    if t["k"] != "assert" or msg.get("k") != "Overflow" or msg.get("op") != "Add":
        return None
    cval = None
    for par_op, c_op in ((msg["a"], msg["b"]), (msg["b"], msg["a"])):
        pl = op_place(par_op)
        c = op_const(c_op)
        if pl is None or pl["p"] or c is None:
            continue
        l = pl["l"]
        for _ in range(3):
            sd = body.single_def(l)
            if sd is not None and sd[2] == "assign" and sd[3]["k"] == "use" and op_place(sd[3]["a"]) is not None and not op_place(sd[3]["a"])["p"]:
                l = op_place(sd[3]["a"])["l"]
            else:
                break
        if l == 2:
            cval = c
    if not isinstance(cval, int) or cval < 0:
        return None
    span = fx.fns[fid].get("span") or {}
    for pb, pt in pbody.calls():
        if strip_generics(pt["callee"].get("path") or "") != "core::option::Option::map" or len(pt["args"]) != 2:
            continue
        a2 = pt["args"][1]
        cty = (a2.get("const") or {}).get("ty") or (op_place(a2) or {}).get("ty") or ""
        m_ = re.search(r"\{closure@([^:}]+):(\d+):", cty)
        if not m_ or m_.group(1) != span.get("file") or int(m_.group(2)) != span.get("line"):
            continue
        rp = op_place(pt["args"][0])
        sd = pbody.single_def(rp["l"]) if rp is not None and not rp["p"] else None
        for _ in range(3):
            if sd is not None and sd[2] == "assign" and sd[3]["k"] == "use" and op_place(sd[3]["a"]) is not None and not op_place(sd[3]["a"])["p"]:
                sd = pbody.single_def(op_place(sd[3]["a"])["l"])
            else:
                break
        if sd is None or sd[2] != "call" or strip_generics(sd[3]["callee"].get("path") or "").split("::")[-1] != "checked_sub" or len(sd[3]["args"]) != 2:
            continue
        def cev(op, depth=0):
            """value of an operand computed from constants only (`2 * HEADER_SIZE`)"""
            c_ = op_const(op)
            if isinstance(c_, int) or depth > 4:
                return c_ if isinstance(c_, int) else None
            pl_ = op_place(op)
            if pl_ is None:
                return None
            proj = [x for x in pl_["p"] if x != "deref"]
            sd_ = pbody.single_def(pl_["l"])
            if sd_ is None or sd_[2] != "assign":
                return None
            rv_ = sd_[3]
            if rv_["k"] == "use" and not proj:
                return cev(rv_["a"], depth + 1)
            if rv_["k"] in ("bin", "checked") and (not proj or (len(proj) == 1 and isinstance(proj[0], dict) and proj[0].get("i") == 0)):
                x_, y_ = cev(rv_["a"], depth + 1), cev(rv_["b"], depth + 1)
                op_ = (rv_.get("op") or "").replace("WithOverflow", "")
                if isinstance(x_, int) and isinstance(y_, int) and op_ in ("Add", "Mul", "Sub"):
                    return x_ + y_ if op_ == "Add" else x_ * y_ if op_ == "Mul" else x_ - y_
            return None
        k = cev(sd[3]["args"][1])
        if isinstance(k, int) and k >= cval:
            return "the closure runs only on Some(x - %d) of checked_sub: adding %d stays at or below x" % (k, cval)
    return None


def operand_field(fx, fid, ob, which):
    """(ADT short name, field) of the struct field an operand of an Assert obligation was read from, however the access
    is spelled (through `self.a.b.c`, a `&mut` alias, an iterator item, ...); None when the operand is not a plain field read"""
    body = body_of(fx.fns[fid])
    b = ob.get("block")
    if body is None or b is None:
        return None
    t = body.term(b)
    msg = t.get("msg") or {}
    op = msg.get(which)
    if op is None:
        return None
    pl = op_place(op)
    for _ in range(6):
        if pl is None:
            return None
        flds = [x for x in pl["p"] if isinstance(x, dict) and "f" in x and x.get("adt")]
        if flds:
            return (short(flds[-1]["adt"]), flds[-1]["f"])
        if pl["p"] and any(x != "deref" for x in pl["p"]):
            return None
        sd = body.single_def(pl["l"])
        if sd is None or sd[2] != "assign":
            return None
        rv = sd[3]
        if rv["k"] in ("use", "cast"):
            pl = op_place(rv["a"])
        elif rv["k"] == "ref":
            pl = rv["place"]
        else:
            return None
    return None


def sum64_fold(fx, fid, ob, fold_acc):
    """D-SUM64 for `iter.fold(init, |acc, x| acc + f(x))`: the closure's only addition advances a 64-bit accumulator by a 32-bit
    value, its result is the closure's result, the fold runs over a slice iterator (fewer than 2^32 elements under A-MEM) or a
    Range<u32>, and the initial value is below 2^32: the sum stays below 2^64"""
    from mir import op_const
    info = (fold_acc or {}).get(fid)
    body = body_of(fx.fns[fid])
    b = ob.get("block")
    if info is None or len(info) < 4 or body is None or b is None or body.argc < 3:
        return None
    recv_ty, (ilo, ihi) = info[2], info[3]
    if not (recv_ty.startswith("core::slice::iter::Iter<") or "Range<u32>" in recv_ty or "RangeInclusive<u32>" in recv_ty):
        return None
    if ilo is None or ilo < 0 or ihi > 0xFFFFFFFF:
        return None
    t = body.term(b)
    msg = t.get("msg") or {}
    if t["k"] != "assert" or msg.get("k") != "Overflow" or msg.get("op") != "Add":
        return None
    d = ob["detail"]
    for acc_op, other_d in ((msg["a"], d["b"]), (msg["b"], d["a"])):
        pl = op_place(acc_op)
        iv = other_d.get("iv") or [None, None]
        if pl is None or pl["p"] or iv[0] is None or iv[0] < 0 or iv[1] > 0xFFFFFFFF:
            continue
        l = pl["l"]
        for _ in range(3):
            sd = body.single_def(l)
            if sd is not None and sd[2] == "assign" and sd[3]["k"] == "use" and op_place(sd[3]["a"]) is not None and not op_place(sd[3]["a"])["p"]:
                l = op_place(sd[3]["a"])["l"]
            else:
                break
        if l != 2 or body.locals[2]["ty"] not in ("u64", "usize"):
            continue
        # the closure returns this sum and contains no other addition to the accumulator
        adds = [s_ for bb in range(body.n) for s_ in body.stmts(bb) if s_["k"] == "assign" and s_["rv"]["k"] in ("bin", "checked") and s_["rv"].get("op") in ("Add", "AddWithOverflow")]
        rets = [s_ for bb in range(body.n) for s_ in body.stmts(bb) if s_["k"] == "assign" and s_["place"]["l"] == 0 and not s_["place"]["p"]]
        if len(adds) == 1 and len(rets) == 1 and rets[0]["rv"]["k"] == "use":
            src = op_place(rets[0]["rv"]["a"])
            if src is not None and src["l"] == adds[0]["place"]["l"]:
                return "fold accumulator: starts below 2^32 and gains one 32-bit value per element of %s: below 2^64" % recv_ty.split("::")[-1][:40]
        # try_fold: the closure's successful result is Ok(sum) (its other results leave the fold)
        ok_rets = [s_ for s_ in rets if s_["rv"]["k"] == "agg" and s_["rv"].get("variant") in ("Ok", "Some", "Continue") and s_["rv"].get("ops")]
        if len(adds) == 1 and len(ok_rets) == 1:
            src = op_place(ok_rets[0]["rv"]["ops"][0])
            for _ in range(3):
                sd = body.single_def(src["l"]) if src is not None and not src["p"] else None
                if sd is not None and sd[2] == "assign" and sd[3]["k"] == "use" and op_place(sd[3]["a"]) is not None:
                    src = op_place(sd[3]["a"])
                else:
                    break
            if src is not None and src["l"] == adds[0]["place"]["l"]:
                return "try_fold accumulator: starts below 2^32 and gains one 32-bit value per element of %s: below 2^64" % recv_ty.split("::")[-1][:40]
    return None


def sum64(fx, fid, ob):
    """D-SUM64: a 64-bit accumulator that starts at a constant < 2^32 and is only ever advanced, inside one `for` loop over a
    Range<u32> (at most 2^32 iterations), by this addition of a value widened from 32 bits: it stays below 2^32 + 2^32 * (2^32 - 1)
    < 2^64, so the checked addition cannot overflow.  Returns the justification or None."""
    import loops as LP
    from mir import op_const
    body = body_of(fx.fns[fid])
    b = ob.get("block")
    if body is None or b is None:
        return None
    t = body.term(b)
    msg = t.get("msg") or {}
    if t["k"] != "assert" or msg.get("k") != "Overflow" or msg.get("op") != "Add":
        return None
    d = ob["detail"]

    def small(x):
        iv = x.get("iv") or [None, None]
        return iv[0] is not None and iv[0] >= 0 and iv[1] <= 0xFFFFFFFF
    for acc_op, acc_d, other_d in ((msg["a"], d["a"], d["b"]), (msg["b"], d["b"], d["a"])):
        pl = op_place(acc_op)
        if pl is None or pl["p"] or not small(other_d) or body.locals[pl["l"]]["ty"] not in ("u64", "usize"):
            continue
        l = pl["l"]
        # the accumulator may be read through a copy: follow single-definition copies back to the variable
        for _ in range(3):
            sd = body.single_def(l)
            if sd is not None and sd[2] == "assign" and sd[3]["k"] == "use" and op_place(sd[3]["a"]) is not None and not op_place(sd[3]["a"])["p"]:
                l = op_place(sd[3]["a"])["l"]
            else:
                break
        ls = LP.inventory(fx, fid)
        inner = [L for L in ls if b in L.blocks]
        if not inner:
            continue
        L = min(inner, key=lambda x: len(x.blocks))
        nb, nt = LP.driver_next_call(body, L, ls)
        if nt is None:
            continue
        rty = nt["args"][0].get("ty") or (op_place(nt["args"][0]) or {}).get("ty") or ""
        if "Range<u32>" not in rty and "RangeInclusive<u32>" not in rty and "Range<u16>" not in rty and "Range<u8>" not in rty and "core::slice::iter::Iter<" not in rty:
            # (a slice iterator yields fewer than 2^32 items under A-MEM)
            continue
        inits, steps, bad = [], [], False
        for bb in range(body.n):
            for s_ in body.stmts(bb):
                if s_["k"] != "assign" or s_["place"]["l"] != l:
                    continue
                if s_["place"]["p"]:
                    bad = True
                    continue
                rv = s_["rv"]
                if bb not in L.blocks and rv["k"] == "use" and op_const(rv["a"]) is not None and 0 <= op_const(rv["a"]) <= 0xFFFFFFFF:
                    inits.append(bb)
                elif bb in L.own_blocks(ls) and rv["k"] == "use" and op_place(rv["a"]) is not None:
                    src = op_place(rv["a"])
                    # `acc = move tmp.0` with tmp the result of the checked addition asserted in block b
                    sd = body.single_def(src["l"])
                    if sd is not None and sd[2] == "assign" and sd[3]["k"] in ("bin", "checked") and sd[3].get("op") in ("Add", "AddWithOverflow") and sd[0] == b:
                        steps.append(bb)
                    else:
                        bad = True
                else:
                    bad = True
            tt = body.term(bb)
            if tt["k"] == "call" and tt["dest"]["l"] == l:
                bad = True
        # no mutable borrow of the accumulator
        for bb in range(body.n):
            for s_ in body.stmts(bb):
                if s_["k"] == "assign" and s_["rv"]["k"] in ("ref", "rawptr") and s_["rv"].get("mut") and s_["rv"]["place"]["l"] == l:
                    bad = True
        if bad or len(inits) != 1 or len(steps) != 1:
            continue
        return "64-bit accumulator `%s` starts at a constant and is advanced only by this addition of a 32-bit value, once per iteration of a loop over %s: below 2^64" % (body.local_name(l) or "_%d" % l, rty.split("::")[-1])
    return None


def memsize_fns(res, fx=None):
    """functions whose integer results are computed only from constants, lengths of in-memory collections and other such
    functions (in-memory size computations)"""
    ms = set()
    _TRAIT_IMPLS["fx"] = fx
    _TRAIT_IMPLS["analysed"] = set(getattr(res, "interps", {}) or {})
    acc = fold_accumulators(fx, res) if fx is not None else {}
    # greatest fixpoint: start from every function with a summary and remove those with a root that is not an in-memory size
    # term given the remaining set.  (The least fixpoint cannot see through `size_of_opt<T>` <-> `T::box_size`, which are
    # mutually dependent only in the "every impl" approximation; real recursion is excluded by PF.recursion.)
    ms = {f for f, summ in res.summaries.items() if summ}
    changed = True
    while changed:
        changed = False
        for f in sorted(ms):
            summ = res.summaries[f]
            ok = True
            for sub, (lo, hi, prov) in summ.items():
                for r in prov:
                    if f in acc and r == acc[f][0] and all(mem_root(x, ms) for x in acc[f][1]):
                        continue
                    if not mem_root(r, ms, f):
                        ok = False
            if not ok:
                ms.discard(f)
                changed = True
    return ms, acc


_TRAIT_IMPLS = {}


def mem_root(r, ms, fid=None, acc=None):
    if r in MEM_ROOTS or r.startswith("S:"):
        return True
    if r.startswith("CALL:"):
        return r[5:] in ms
    if r.startswith("X:") and _TRAIT_IMPLS.get("fx") is not None:
        # a trait method called on a type parameter (`T::box_size` inside a generic helper): whichever impl the
        # instantiation selects, the value is an in-memory size term when every local impl of that method is one
        fx = _TRAIT_IMPLS["fx"]
        decl = r[2:]
        tr, _, m = decl.rpartition("::")
        impls = [f["id"] for f in fx.fns.values() if f["name"] == m and ((f.get("impl") or {}).get("trait_path") or "") == tr]
        # impls outside the analysed closure cannot be what an instantiation reachable from the entry points selects
        analysed = _TRAIT_IMPLS.get("analysed")
        if analysed is not None:
            impls = [i for i in impls if i in analysed]
        if fid is not None:
            # the instantiations of the generic function the call sits in select the impls
            from callgraph import callgraph as _cg
            types = _cg(fx).instantiations(fid.split("::{closure")[0])
            if types:
                impls = [i for i in impls if ((fx.fns[i].get("impl") or {}).get("self_ty") or "") in types]
        return bool(impls) and all(i in ms for i in impls)
    if acc and fid in acc and r == acc[fid][0] and fid in ms:
        return True       # accumulator of a fold whose initial value and step results are in-memory size terms
    return False


def serde_safe(fx, adt_id, seen, why):
    """P8 walk for D-SERDE: only derived Serialize impls / the crate's serialize_with helpers / primitive leaves, and
    map keys that are unit-only enums, strings or integers"""
    if adt_id in seen:
        return True
    seen.add(adt_id)
    adt = fx.adts.get(adt_id)
    if adt is None:
        return True   # external leaf types (String, Vec, Option, Ratio, Bytes ...) handled by ty walk below
    # is there a hand-written Serialize impl for it?
    for im in fx.impls:
        if im.get("trait_path", "") and im["trait_path"].endswith("::Serialize") and im["self_ty"] == adt_id and not im.get("derived"):
            # serde's derive marks its impls #[automatically_derived]; anything else is hand written
            why.append("hand-written Serialize for " + adt_id)
            return False
    for v in adt["variants"]:
        for f in v["fields"]:
            if not serde_ty_safe(fx, f["ty"], seen, why):
                return False
    return True


def serde_ty_safe(fx, t, seen, why):
    if "adt" in t:
        a = t["adt"]
        if "collections::hash::map::HashMap" in a or "collections::btree::map::BTreeMap" in a:
            k = t["args"][0] if t["args"] else {}
            if not map_key_ok(fx, k):
                why.append("map key type %s is not string/integer/unit-enum" % (k,))
                return False
        if a in fx.adts:
            if not serde_safe(fx, a, seen, why):
                return False
        elif not a.startswith(("alloc::", "core::", "std::", "num_rational::", "bytes::")):
            why.append("external type " + a)
            return False
        return all(serde_ty_safe(fx, x, seen, why) for x in t["args"])
    for k in ("ref", "slice", "array"):
        if k in t:
            return serde_ty_safe(fx, t[k], seen, why)
    if "tuple" in t:
        return all(serde_ty_safe(fx, x, seen, why) for x in t["tuple"])
    if "p" in t:
        if t["p"] in ("f32", "f64"):
            return True   # serde_json writes null for non-finite floats, no error
        return True
    if "dyn" in t or "rawptr" in t:
        why.append("dyn/raw pointer")
        return False
    return True


def map_key_ok(fx, k):
    if "p" in k:
        return k["p"] in ("u8", "u16", "u32", "u64", "i8", "i16", "i32", "i64", "usize", "isize", "char", "bool", "str")
    if "adt" in k:
        if k["adt"] == "alloc::string::String":
            return True
        adt = fx.adts.get(k["adt"])
        if adt and adt["kind"] == "Enum" and all(not v["fields"] for v in adt["variants"]):
            return True
    if "ref" in k:
        return map_key_ok(fx, k["ref"])
    return False


def user_adts(fx, entries):
    """ADTs whose values the API user can construct and pass in: reachable from the entry points' parameter types
    through public fields / enum payloads (a struct with a private field can only be built by the crate)"""
    out = set()
    stack = []

    def push_ty(t):
        if "adt" in t:
            stack.append(t["adt"])
            for x in t["args"]:
                push_ty(x)
        for k in ("ref", "slice", "array", "rawptr"):
            if k in t:
                push_ty(t[k])
        if "tuple" in t:
            for x in t["tuple"]:
                push_ty(x)
    for e in entries:
        fn = fx.fns[e]
        for t in fn.get("inputs", []):
            push_ty(t)
    while stack:
        a = stack.pop()
        if a in out or a not in fx.adts:
            continue
        adt = fx.adts[a]
        fields = [f for v in adt["variants"] for f in v["fields"]]
        if adt["kind"] == "Struct" and any(f["vis"] != "pub" for f in fields):
            continue    # not constructible outside the crate: values come from crate code
        out.add(a)
        for f in fields:
            push_ty(f["ty"])
    return out


ACCEPTED_CKEYS = os.path.join(os.path.dirname(os.path.abspath(__file__)), "accepted_ckeys.json")


def load_accepted_ckeys(pid):
    """canonical keys of the obligations each accepted-invariant entry matched on the reference tree (generated by
    tools_accepted.py, committed): lets an accepted entry keep matching after a behaviour-preserving rewrite of the operands"""
    try:
        with open(ACCEPTED_CKEYS) as fh:
            return json.load(fh).get(pid, {})
    except (OSError, ValueError):
        return {}


class Engine:
    def __init__(self, fx, chk, entries, assumptions, accepted, profile="dev", field_exclude=None, accepted_id=None):
        self.fx = fx
        self.chk = chk
        self.entries = entries
        self.cg = callgraph(fx)
        self.clo = self.cg.closure(entries)
        self.accepted = accepted
        self.accepted_hits = {}
        self.accepted_ckeys = load_accepted_ckeys(accepted_id or chk.pid)
        self.res = analysis.analyze(fx, entries, assumptions, profile=profile, tag="pf", field_exclude=field_exclude)
        self.ms, self.fold_acc = memsize_fns(self.res, fx)
        self.assumptions = assumptions
        self.profile = profile
        self.stats = {}

    # ---- keys ---------------------------------------------------------------
    def key_of(self, fid, ob, it):
        d = ob["detail"]
        if ob["kind"] == "assert":
            what = ob["what"]
            if "a" in d and "b" in d:
                expr = "%s, %s" % (d["a"]["expr"], d["b"]["expr"])
            elif "dividend" in d:
                expr = "%s / %s" % (d["dividend"]["expr"], d.get("divisor", {}).get("expr", "?"))
            elif "index" in d:
                expr = "%s < %s" % (d["index"]["expr"], d["len"]["expr"])
            elif "a" in d:
                expr = d["a"]["expr"]
            else:
                expr = ""
        else:
            what = ob["what"]
            expr = ", ".join(d.get("args", []))
        expr = re.sub(r"\s+", " ", expr)[:140]
        return "%s|%s|%s" % (fn_short(fid), what, expr)

    def ckey_of(self, fid, ob):
        """canonical twin of key_of: operands rendered by what they are computed from (mir.Body.canon_op), so that renaming
        a local, introducing a temporary or changing the spelling of a lossless conversion keeps the key"""
        d = ob["detail"]
        what = ob["what"]
        if ob["kind"] == "assert":
            if "a" in d and "b" in d:
                expr = "%s, %s" % (d["a"].get("cexpr"), d["b"].get("cexpr"))
            elif "dividend" in d:
                expr = "%s / %s" % (d["dividend"].get("cexpr"), d.get("divisor", {}).get("cexpr", "?"))
            elif "index" in d:
                expr = "%s < %s" % (d["index"].get("cexpr"), d["len"].get("cexpr"))
            elif "a" in d:
                expr = d["a"].get("cexpr")
            else:
                expr = ""
        else:
            expr = ", ".join(d.get("cargs", []))
        return "%s|%s|%s" % (fn_short(fid), what, re.sub(r"\s+", " ", expr or "")[:200])

    # ---- run -----------------------------------------------------------------
    def run(self):
        fx, chk = self.fx, self.chk
        # recursion
        bad_sccs = []
        for comp in self.cg.sccs(self.clo):
            # accepted: blanket forwarding impls `impl Metadata for &T / Option<T>` recurse through the *type*, not the
            # value: each step strips one `&`/`Option` layer of a finite type
            if all("types::Metadata" in c for c in comp):
                chk.ok("PF.recursion", "Metadata-forwarding", "generic forwarding impls (&T, Option<T>): recursion depth bounded by the type's nesting")
                chk.trust("accepted: `impl Metadata for &T` / `for Option<T>` forward to T::method; the call-graph cycle is an artefact of trait-generic resolution")
                continue
            bad_sccs.append(comp)
        for comp in bad_sccs:
            chk.bad("PF.recursion", "scc|" + "|".join(fn_short(c) for c in comp[:4]), "recursion in the analysed closure: stack depth depends on the input", site_of(fx.fns[comp[0]]))
        if not bad_sccs:
            chk.ok("PF.recursion", "closure", "no recursive cycle among %d functions" % len(self.clo))
        # obligations
        seen_keys = {}
        seen_ckeys = {}
        n_total = 0
        for fid in sorted(self.res.interps):
            it = self.res.interps[fid]
            fn = fx.fns[fid]
            if not it.converged:
                chk.bad("PF.engine", "noconv|" + fn_short(fid), "abstract interpretation did not converge", site_of(fn))
            for ob in it.obligations:
                if ob.get("exp") and ob["kind"] == "call" and ob["what"].startswith("panic") and False:
                    continue
                n_total += 1
                key = self.key_of(fid, ob, it)
                k2 = seen_keys.get(key, 0)
                seen_keys[key] = k2 + 1
                if k2:
                    key = "%s#%d" % (key, k2)
                ck = self.ckey_of(fid, ob)
                c2 = seen_ckeys.get(ck, 0)
                seen_ckeys[ck] = c2 + 1
                ob["ckey"] = ck if not c2 else "%s#%d" % (ck, c2)
                ob["detail"]["ckey"] = ob["ckey"]
                self.decide(fid, fn, it, ob, key)
        self.stats["obligations"] = n_total
        return n_total

    def decide(self, fid, fn, it, ob, key):
        chk = self.chk
        site = site_of(fn, ob.get("line"))
        rule = "PF." + ("assert" if ob["kind"] == "assert" else "call")
        # where the construct itself is (verdicts that blame a caller carry the caller's site instead)
        cl = chk.__dict__.setdefault("construct_lines", {})
        sp = fn.get("body_span") or fn.get("span") or {}
        if sp.get("file") and ob.get("line"):
            cl.setdefault(sp["file"], set()).add(ob["line"])
        if ob["ok"]:
            chk.ok(rule, key, ob.get("how") or "abstract interpretation (interval / relation / variant fact)", site)
            return
        d = ob["detail"]
        # ---- D-DEAD: the method's self type is never constructed inside the closure and cannot be supplied by the user
        dead = self.dead_fn(fn)
        if dead:
            chk.ok(rule, key, "D-DEAD: no value of %s is constructed in the analysed closure, the method cannot run" % short(dead), site)
            return
        # ---- D-SERDE
        if ob["kind"] == "call" and ob["what"].startswith("unwrap_res") and any(r.startswith("X:serde_json::ser::to_string") for r in d.get("prov", [])):
            st = (fn.get("impl") or {}).get("self_ty")
            why = []
            if not st and fn.get("generics"):
                # a generic helper (`fn json<T: Serialize>(v: &T)`): every type it is instantiated with must be safe
                types = sorted(t_ for t_ in self.cg.instantiations(fid) if t_ in self.fx.adts)
                if types and all(serde_safe(self.fx, t_, set(), why) for t_ in types):
                    chk.ok(rule, key, "D-SERDE: the helper is instantiated with %d types, all with derived Serialize impls, infallible helpers and string/integer/unit-enum map keys" % len(types), site)
                    return
                st = ", ".join(short(t_) for t_ in types) or None
            if st and "," not in st and serde_safe(self.fx, st, set(), why):
                chk.ok(rule, key, "D-SERDE: only derived Serialize impls, infallible helpers and string/integer/unit-enum map keys under " + short(st), site)
                return
            chk.bad(rule, key, "serde_json::to_string(..).unwrap(): serialisation of %s can fail (%s)" % (short(st or "?"), "; ".join(why)), site, d)
            return
        # ---- D-MEM
        if ob["kind"] == "assert" and ob["what"] in ("Overflow(Add)", "Overflow(Mul)") and "a" in d and "b" in d:
            roots = set(d["a"]["prov"]) | set(d["b"]["prov"])
            if roots and all(mem_root(r, self.ms, fid, self.fold_acc) for r in roots):
                chk.ok(rule, key, "D-MEM: operands are in-memory size terms (constants, len(), size functions): bounded by A-MEM", site)
                chk.assume("A-MEM: the wire size of any in-memory box (sum of len() x element size over its collections) is below 2^63")
                return
        # ---- D-SUM64
        if ob["kind"] == "assert" and ob["what"] == "Overflow(Add)":
            why = sum64(self.fx, fid, ob) or sum64_fold(self.fx, fid, ob, self.fold_acc)
            if why:
                chk.ok(rule, key, "D-SUM64: " + why, site)
                return
        # ---- D-CSUB
        if ob["kind"] == "assert" and ob["what"] == "Overflow(Add)":
            why = checked_sub_map(self.fx, fid, ob)
            if why:
                chk.ok(rule, key, "D-CSUB: " + why, site)
                return
        # ---- accepted invariants with side conditions
        for ai, acc in enumerate(self.accepted):
            if acc["match"](fid, fn, ob, key) or ob.get("ckey") in self.accepted_ckeys.get(str(ai), ()):
                self.accepted_hits.setdefault(str(ai), []).append(ob.get("ckey"))
                ok, why = acc["side"](self, fid, fn, it, ob)
                if ok:
                    chk.ok(rule, key, "accepted invariant: %s [side condition holds: %s]" % (acc["reason"], why), site)
                    chk.trust("accepted: %s -- %s" % (key, acc["reason"]))
                    return
                if acc.get("soft"):
                    continue          # a generic discharge rule that does not apply here: try the next entries
                chk.bad(rule, key, "accepted invariant no longer holds (%s): %s" % (acc["reason"], why), site, d)
                return
        # ---- parameter-dependent: attribute to callers
        proots = self.param_roots(d)
        if proots and fid not in self.entries:
            blamed = self.blame(fid, ob, proots)
            live = [(c, cs) for c, cs in blamed if not self.dead_fn(self.fx.fns[c])]
            if blamed and not live:
                chk.ok(rule, key, "D-DEAD: only reached with an unbounded argument from methods of never-constructed types (%s)" % ", ".join(fn_short(c) for c, _ in blamed), site)
                return
            blamed = live
            if blamed:
                for caller, csite in blamed:
                    chk.bad(rule, "%s|from=%s" % (key, fn_short(caller)), "%s can panic: %s -- reached with an unbounded argument from %s" % (ob["what"], self.describe(ob), fn_short(caller)), csite,
                            dict(d, ckey="%s|from=%s" % (ob.get("ckey"), fn_short(caller))))
                return
        chk.bad(rule, key, "%s can panic: %s" % (ob["what"], self.describe(ob)), site, d)

    def dead_fn(self, fn):
        """self type of a method that can never run: a local ADT with no construction site in the closure that the API
        user cannot supply either"""
        cons = getattr(self.res, "constructed", None)
        if cons is None:
            return None
        st = (fn.get("impl") or {}).get("self", {}).get("adt")
        ins = fn.get("inputs_s") or []
        takes_self = bool(ins) and st is not None and ins[0].lstrip("&").replace("mut ", "").startswith(st)
        if st in self.fx.adts and takes_self and st not in cons and st not in self.res.field_exclude:
            return st
        return None

    def describe(self, ob):
        d = ob["detail"]
        if "a" in d and "b" in d:
            return "%s %s %s with %s in %s, %s in %s" % (d["a"]["expr"], d.get("op", ""), d["b"]["expr"], d["a"]["expr"], d["a"]["iv"], d["b"]["expr"], d["b"]["iv"])
        if "dividend" in d:
            dv = d.get("divisor", {})
            return "divisor %s in %s" % (dv.get("expr"), dv.get("iv"))
        if "index" in d and "len" in d:
            return "index %s in %s, length %s in %s" % (d["index"]["expr"], d["index"]["iv"], d["len"]["expr"], d["len"]["iv"])
        return "%s(%s)" % (d.get("callee", ""), ", ".join(d.get("args", [])))

    def param_roots(self, d):
        roots = set()
        for k in ("a", "b", "divisor", "dividend", "index", "len", "value"):
            if k in d and isinstance(d[k], dict):
                for r in d[k].get("prov", []):
                    if re.match(r"P\d+$", r):
                        roots.add(int(r[1:]))
        return roots

    def blame(self, fid, ob, proots):
        """callers whose own arguments make the obligation fail (re-run the callee under each call site's intervals)"""
        out = []
        body = body_of(self.fx.fns[fid])
        for caller in sorted(self.cg.callers_of(fid) & set(self.res.interps)):
            cit = self.res.interps[caller]
            for b, callee, args in cit.call_args:
                if callee != fid:
                    continue
                piv = {}
                for i, (lo, hi, prov) in enumerate(args):
                    l = i + 1
                    if l <= body.argc and ty_range(body.locals[l]["ty"]) and lo is not None:
                        piv[l] = (lo, hi)
                it2 = Interp(self.fx, body, param_iv=piv, summaries=self.res.summaries, profile=self.profile, field_inv=self.res.field_inv).run()
                fails = any((o["block"] == ob["block"] and o["what"] == ob["what"] and not o["ok"]) for o in it2.obligations)
                if fails:
                    line = cit.body.term(b).get("line")
                    out.append((caller, site_of(self.fx.fns[caller], line)))
                    break
        return out
