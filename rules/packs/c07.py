"""C07 — parsing always terminates, with work linear in the input length.

Every loop (natural loop of the MIR CFG) in every function reachable from the reader API must fall in one class, with
its evidence; anything else is reported:
  L-ITER       `for` over an in-memory collection's iterator (slice::Iter, Enumerate, Zip, hash_map::Values, Bytes ...)
  L-RANGE      `for _ in a..b` with b constant / of a narrow type (<= 2^16 iterations) / a len() / *size-guarded*: a
               dominating comparison bounds b by an expression computed only from the box-size parameter, stream
               positions and constants (provenance from the abstract interpreter), the loop being on the "fits" edge
  L-RANGE-READ `for _ in a..b` whose body performs a `?`-propagated stream read on every path to the back edge
               (iterations <= bytes available)
  L-READ       `loop`/`while` whose body must read from the stream on every iteration
  L-BOXWALK    loop over child boxes: (i) exactly one BoxHeader::read dominating the back edge, (ii) every reposition
               after it (skip_box, T::read_box, skip_bytes_to(current + s)) is driven by the size `s` just read,
               (iii) the position is re-read every iteration, and (iv) at each such reposition the abstract
               interpreter proves s >= 1 (a zero-size guard dominates it) -- otherwise the child "ends" where it
               began and the loop never advances.
Cost: consuming loops (BOXWALK / READ / RANGE-READ) are amortised by the bytes they span; a size-guarded loop is
amortised by its box; an in-memory (LEN) loop nested in another non-constant loop, directly or through callees, is
degree 2 and reported.  A loop whose bound is a parsed field with no relation to the input length is reported.
Not decided: wall-clock time, constant factors.
"""
import c06
import loops as LP
from absint import _size_derived
from facts import short
from mir import body_of, callee_path, op_place, place_key, strip_generics
from packs_common import IO_TRAITS, io_fallible_set
from panicfree import fn_short
from report import site_of

NARROW = 1 << 16
FLOOR_WALK_CALLS = 89   # counted: header reads, child decoders and skips of the 20 box-walk loops
FLOOR_BOXWALK = 18      # counted on the pinned tree: 20 (15 container whiles, 2 top-level, avc1, mp4a, dref)
FLOOR_LOOPS = 60


def size_roots(fx, fid):
    """parameter roots that denote the enclosing box size / file length: the u64 `size` parameter of a box decoder
    (ReadBox::read_box impl) or of the two top-level open functions.  Parameters of accessors (sample ids ...) are
    caller-chosen numbers, not bounded by the input length."""
    fn = fx.fns[fid]
    tr = short((fn.get("impl") or {}).get("trait") or "")
    if tr.startswith("ReadBox<") or fn["name"] in ("read_header", "read_fragment_header", "skip_box"):
        return {"P%d" % (i + 1) for i, t in enumerate(fn.get("inputs_s") or []) if t == "u64"}
    return set()


_ip_memo = {}


def size_roots_ip(fx, eng, fid):
    """size_roots extended to private helpers: parameter i of a helper is a size root when every call site in the analysed
    closure passes a value that is itself bounded by the input length there (constant / narrow, a length of an in-memory
    collection, size-derived, or guarded by a size-derived bound on that path).  Least fixpoint over the call graph."""
    key = id(eng)
    if key not in _ip_memo:
        roots = {f: set(size_roots(fx, f)) for f in eng.clo}
        # call sites: callee -> [(caller, block, terminator)]
        sites = {}
        for caller in eng.clo:
            it = eng.res.interps.get(caller)
            if it is None:
                continue
            for b, t in it.body.calls():
                p = callee_path(t["callee"])
                if p in eng.clo and p != caller:
                    sites.setdefault(p, []).append((caller, b, t))
        changed = True
        rounds = 0
        while changed and rounds < 8:
            changed = False
            rounds += 1
            for f in eng.clo:
                fn = fx.fns[f]
                if size_roots(fx, f) or not sites.get(f):
                    continue
                ins = fn.get("inputs_s") or []
                for i, ty in enumerate(ins):
                    r = "P%d" % (i + 1)
                    if r in roots[f] or ty not in ("u64", "usize", "u32"):
                        continue
                    ok = True
                    for caller, b, t in sites[f]:
                        it = eng.res.interps[caller]
                        st = it.out_states.get(b)
                        if st is None:
                            continue          # unreachable call site
                        if i >= len(t["args"]):
                            ok = False
                            break
                        sid, lo, hi, prov = it.read_op(st, t["args"][i], (b, "t"))
                        sro = roots[caller]
                        ub = derived_ub(it, st, sid) if sid is not None else None
                        bounded = (hi is not None and hi <= NARROW) or (prov and all(x in ("C", "LEN") or x.startswith("S:") for x in prov)) \
                            or (ub and size_derived_in(ub, sro)) or size_derived_in(prov, sro)
                        if not bounded:
                            ok = False
                            break
                    if ok:
                        roots[f].add(r)
                        changed = True
        _ip_memo[key] = roots
    return _ip_memo[key].get(fid, set())


def size_derived_in(prov, sroots):
    if not prov:
        return False
    has = False
    for r in prov:
        if r == "C":
            continue
        if r == "POS" or r in sroots or (r.startswith("CALL:") and r.endswith("::box_start")):
            has = True
            continue
        return False
    return has


def lower_bound(it, st, sym):
    """lower bound of a symbol: its interval, improved by recorded relations x <= sym (e.g. a summand of a sum)"""
    lo = it.iv(st, sym)[0]
    for (x, op, y) in st.rel:
        if op in ("<=", "<") and it.rel_le(st, y, sym):
            xl = it.iv(st, x)[0]
            if xl is not None:
                xl = xl + (1 if op == "<" else 0)
                lo = xl if lo is None else max(lo, xl)
    return lo


def derived_ub(it, st, sym):
    """provenance of an upper bound of `sym`: recorded directly by a comparison, or through a product
    `sym * k <= bound` with k >= 1 on the current path"""
    ub = st.ub.get(sym)
    if ub:
        return ub
    for p, pub in st.ub.items():
        dd = it.syms[p].defn
        if dd and dd[0] in ("math", "bin") and dd[1] == "Mul":
            a, b = dd[2], dd[3]
            other = b if a == sym else (a if b == sym else None)
            if other is not None:
                lo = lower_bound(it, st, other)
                if lo is not None and lo >= 1:
                    return pub
    return None


def is_header_read(t):
    return (callee_path(t["callee"]) or "").endswith("BoxHeader::read")


def classify(fx, eng, fid, L, all_loops, iof):
    body = L.body
    it = eng.res.interps.get(fid)
    own = L.own_blocks(all_loops)
    # consuming?  a block with a must-read call that dominates every latch
    readers = []
    for b, t in LP.calls_in(body, L.blocks):
        c = t["callee"]
        p = callee_path(c)
        if LP.consuming_call(t) or (p in fx.fns and LP.must_read(fx, p)):
            if all(body.dominates(b, la) for la in L.latches):
                readers.append(b)
    consuming = bool(readers)
    nb, nt = LP.driver_next_call(body, L, all_loops)
    if nt is not None and not consuming:
        # `for x in iter.map(|..| { reads })`: the reads happen in the closure, once per iteration
        mc = LP.mapped_closure(fx, fid, nt["callee"].get("full"))
        if mc is not None and LP.must_read(fx, mc):
            consuming = True
    hdr = [b for b, t in LP.calls_in(body, own) if is_header_read(t) and all(body.dominates(b, la) for la in L.latches)]
    if hdr:
        return "BOXWALK", {"header_block": hdr[0], "consuming": True, "for_range": nt is not None}
    if nt is not None:
        kind, ity = LP.iter_kind(nt["callee"].get("full"))
        if kind == "collection":
            n_const = fixed_array_len(body, loop_iter_local(body, L, all_loops))
            if n_const is not None and n_const <= NARROW:
                return "RANGE-CONST", {"iterator": short(ity)[:80], "end": n_const, "consuming": consuming, "count": "iteration over a fixed-size array"}
            return "ITER", {"iterator": short(ity)[:80], "consuming": consuming}
        if kind in ("range", "range_incl"):
            d = {"iterator": short(ity), "consuming": consuming}
            st = it.out_states.get(nb) if it is not None else None
            if st is None:
                return "RANGE-UNKNOWN", d
            tgt = it.ref_target(st, nt["args"][0])
            e_ = st.cells.get(tgt + (".end",)) if tgt else None
            s_ = st.cells.get(tgt + (".start",)) if tgt else None
            if e_ is None:
                return ("RANGE-READ", d) if consuming else ("RANGE-UNKNOWN", d)
            elo, ehi = it.iv(st, e_)
            slo = it.iv(st, s_)[0] if s_ is not None else 0
            # trip count = end - start.  When start = end - r (`first..id` with first = id - r) the count is r.
            c_sym = e_
            sdef = it.syms[s_].defn if s_ is not None else None
            if sdef and sdef[0] in ("math", "bin") and sdef[1] == "Sub" and sdef[2] == e_ and sdef[3] is not None:
                c_sym = sdef[3]
                d["count"] = "start = end - r: trip count is r"
            clo, chi = it.iv(st, c_sym)
            if c_sym == e_ and chi is not None and slo is not None:
                chi = chi - slo
            prov = it.syms[c_sym].prov
            ub = derived_ub(it, st, c_sym)
            sroots = size_roots_ip(fx, eng, fid)
            d.update({"trip": [clo, chi], "prov": sorted(prov), "ub": sorted(ub) if ub else None})
            if chi is not None and chi <= NARROW:
                return "RANGE-CONST", d
            if prov and all(r == "C" for r in prov):
                return "RANGE-CONST", d
            if prov and all(r in ("C", "LEN") or r.startswith("S:") for r in prov):
                return "RANGE-LEN", d
            if ub and size_derived_in(ub, sroots):
                return "RANGE-GUARDED", d
            if size_derived_in(prov, sroots):
                return "RANGE-SIZE", d
            if consuming:
                return "RANGE-READ", d
            tb = table_bounded(fx, fid, body, L, all_loops)
            if tb:
                d["table"] = tb
                return "RANGE-TABLE", d
            return "RANGE-PARSED", d
    if consuming:
        return "READ", {"consuming": True}
    return "UNCLASSIFIED", {}


GET_CALLS = ("core::slice::get", "core::slice::get_mut", "core::slice::<impl [T]>::get", "core::slice::<impl [T]>::get_mut")


def _traf_region(body, blk):
    """'frag' / 'nonfrag' when `blk` is dominated by one side of a test of `trafs.is_empty()`, else None"""
    for b in range(body.n):
        t = body.term(b)
        if t["k"] != "switch":
            continue
        pl = op_place(t["discr"])
        sd = body.single_def(pl["l"]) if pl is not None and not pl["p"] else None
        neg = False
        if sd is not None and sd[2] == "assign" and sd[3]["k"] == "un" and sd[3].get("op") == "Not":
            neg = True
            pl2 = op_place(sd[3]["a"])
            sd = body.single_def(pl2["l"]) if pl2 is not None and not pl2["p"] else None
        if sd is None or sd[2] != "call" or strip_generics(sd[3]["callee"].get("path") or "") != "alloc::vec::Vec::is_empty" or "trafs" not in body.canon_op(sd[3]["args"][0]):
            continue
        f_t = [tg for v, tg in t["targets"] if v == 0]
        if not f_t:
            continue
        false_t, true_t = f_t[0], t["otherwise"]
        empty_t, nonempty_t = (false_t, true_t) if neg else (true_t, false_t)
        if blk == nonempty_t or (body.dominates(nonempty_t, blk) and not body.dominates(empty_t, blk)):
            return "frag"
        if blk == empty_t or (body.dominates(empty_t, blk) and not body.dominates(nonempty_t, blk)):
            return "nonfrag"
    return None


def table_bounded(fx, fid, body, L, all_loops):
    """a loop whose bound is a parsed value but whose every iteration calls, with `?`, a local function that can only succeed by
    finding an element of an in-memory table at a position derived from the loop variable: the loop ends at the first missing
    element, so it runs at most len(table) + 1 times (in-memory, hence bounded by the input length under the allocation rules).
    Returns a description or None.  The callee is examined in the same fragmented / non-fragmented region as the loop."""
    nb, nt = LP.driver_next_call(body, L, all_loops)
    if nt is None:
        return None
    item = nt["dest"]["l"]
    region = _traf_region(body, L.head)
    for b, t in LP.calls_in(body, L.own_blocks(all_loops)):
        g = callee_path(t["callee"])
        gf = fx.fns.get(g)
        gb = body_of(gf) if gf else None
        if gb is None or not str(gf.get("output_s") or "").startswith("core::result::Result<"):
            continue
        fed = [i for i, a in enumerate(t["args"]) if op_place(a) is not None and derives_from(body, op_place(a)["l"], item)]
        if not fed:
            continue
        # the error of the call leaves the loop: its result goes through `?` (Try::branch) in the loop
        dl = t["dest"]["l"]
        tried = any(strip_generics(t2["callee"].get("path") or "") == "core::ops::try_trait::Try::branch" and op_place(t2["args"][0]) is not None and derives_from(body, op_place(t2["args"][0])["l"], dl)
                    for _b2, t2 in LP.calls_in(body, L.blocks))
        if not tried:
            continue
        how = _gated_ok(fx, g, fed, region, 0)
        if how:
            return "each iteration calls %s, which succeeds only when %s holds an element at the requested position" % (fn_short(g), how[:80])
    return None


def _gated_ok(fx, g, fed, region, depth):
    """every way function g can produce Ok (on the given side of the trafs split) lies under the Some edge of a `get` on a
    collection at an index derived from one of the parameters `fed` (0-based), or is the result of a local Result function
    with the same property for the parameters it is handed.  Returns the rendering of one guarding collection, or None."""
    gf = fx.fns.get(g)
    gb = body_of(gf) if gf else None
    if gb is None or depth > 3:
        return None
    ok_sites = []          # (block, kind, terminator)
    for ob in gb.reach:
        if any(s_["k"] == "assign" and s_["place"]["l"] == 0 and not s_["place"]["p"] and s_["rv"]["k"] == "agg" and s_["rv"].get("variant") == "Ok" for s_ in gb.stmts(ob)):
            ok_sites.append((ob, "agg", None))
    for ob, t in gb.calls():
        if t["dest"]["l"] == 0 and not t["dest"]["p"] and not (t["callee"].get("path") or "").endswith("from_residual"):
            ok_sites.append((ob, "call", t))
    ok_sites = [x for x in ok_sites if region is None or _traf_region(gb, x[0]) in (region, None)]
    if not ok_sites:
        return None
    guards = []
    for gb_, gt in gb.calls():
        if strip_generics(gt["callee"].get("path") or "") in GET_CALLS and len(gt["args"]) == 2:
            ipl = op_place(gt["args"][1])
            if ipl is None or not any(derives_from(gb, ipl["l"], p_ + 1) for p_ in fed):
                continue
            # the switch on the Option's discriminant
            for sb in range(gb.n):
                st_ = gb.term(sb)
                if st_["k"] != "switch":
                    continue
                dp = op_place(st_["discr"])
                sd = gb.single_def(dp["l"]) if dp is not None and not dp["p"] else None
                if sd is not None and sd[2] == "assign" and sd[3]["k"] == "discr" and derives_from(gb, sd[3]["place"]["l"], gt["dest"]["l"]):
                    some_t = [tg for v, tg in st_["targets"] if v == 1]
                    if some_t:
                        guards.append((some_t[0], gb.canon_op(gt["args"][0])))
    hows = [c for _, c in guards]
    for ob, kind, t in ok_sites:
        if any(ob == g0 or gb.dominates(g0, ob) for g0, _ in guards):
            continue
        if kind == "call":
            h = callee_path(t["callee"])
            hf = fx.fns.get(h)
            if hf is not None and str(hf.get("output_s") or "").startswith("core::result::Result<"):
                fed2 = [i for i, a in enumerate(t["args"]) if op_place(a) is not None and any(derives_from(gb, op_place(a)["l"], p_ + 1) for p_ in fed)]
                sub = _gated_ok(fx, h, fed2, None, depth + 1) if fed2 else None
                if sub:
                    hows.append(sub)
                    continue
        return None
    return sorted(set(hows))[0] if hows else None


def check_boxwalk(fx, eng, chk, fid, fn, L, all_loops, d, key):
    """conditions (i)-(iv)"""
    body = L.body
    it = eng.res.interps[fid]
    H = d["header_block"]
    site = site_of(fn, L.line)
    # (i) exactly one header read per iteration
    hdrs = [b for b, t in LP.calls_in(body, L.blocks) if is_header_read(t)]
    chk.require(len(hdrs) == 1, "R-BOXWALK.i", key, "one BoxHeader::read per iteration", "%d BoxHeader::read calls inside one box-walk loop" % len(hdrs), site)
    # (iii) position refreshed each iteration
    pos = [b for b, t in LP.calls_in(body, L.own_blocks(all_loops)) if (t["callee"].get("path") or "").endswith("Seek::stream_position") and all(body.dominates(b, la) for la in L.latches)]
    if not pos and not d.get("for_range"):
        chk.bad("R-BOXWALK.iii", key, "the loop does not re-read the stream position on every iteration: its exit test uses a stale position", site)
    elif pos:
        chk.ok("R-BOXWALK.iii", key, "stream_position() taken every iteration", site)
    # (ii)+(iv) repositioning calls after the header read
    after = body.reachable_from(body.term(H)["t"], avoid=[L.head]) & L.blocks if body.term(H).get("t") is not None else set()
    nadv = 0
    for b, t in LP.calls_in(body, after):
        c = t["callee"]
        p = callee_path(c) or ""
        decl = strip_generics(c.get("path") or "")
        tr = short(((fx.fns.get(p) or {}).get("impl") or {}).get("trait") or "")
        is_adv = p.endswith("::skip_box") or tr.startswith("ReadBox<") or p.endswith("::skip_bytes_to") or p.endswith("::skip_bytes") or decl == "std::io::Seek::seek"
        if not is_adv:
            continue
        st = it.out_states.get(b)
        if st is None:
            continue
        nadv += 1
        arg = t["args"][1] if len(t["args"]) > 1 else None
        akey = "%s|%s(%s)" % (key, fn_short(p) if p in fx.fns else decl.split("::")[-1], body.op_str(arg) if arg else "")
        asite = site_of(fn, t.get("line"))
        if arg is None:
            chk.bad("R-BOXWALK.ii", akey, "reposition without a size argument", asite)
            continue
        sid, lo, hi, prov = it.read_op(st, arg, (b, "t"))
        from_header = any(r.endswith("BoxHeader::read") for r in prov)
        sz_lo = lo
        if p.endswith("::skip_bytes_to") or decl == "std::io::Seek::seek":
            # target = position + s : find the header-size operand of the sum
            dd = it.syms[sid].defn if sid is not None else None
            sz_lo = None
            if dd and dd[0] in ("math", "bin") and dd[1] == "Add":
                for osid, oiv in ((dd[2], (dd[4], dd[5]) if dd[0] == "math" else dd[4]), (dd[3], (dd[6], dd[7]) if dd[0] == "math" else dd[5])):
                    if osid is not None and any(r.endswith("BoxHeader::read") for r in it.syms[osid].prov):
                        sz_lo = it.iv(st, osid)[0]
                        from_header = True
            if sz_lo is None and p.endswith("::skip_bytes_to") and not from_header:
                # absolute reposition to the parent's end (e.g. after the wanted child was found): leaves the loop
                if not any(body.can_reach(b, la) or b == la for la in L.latches):
                    continue
        if p.endswith("::skip_bytes"):
            chk.ok("R-BOXWALK.ii", akey, "relative forward skip", asite)
            continue
        if not any(body.can_reach(b, la) or b == la for la in L.latches):
            # the path leaves the loop (return / break) after this call
            chk.ok("R-BOXWALK.ii", akey, "reposition on a path that leaves the loop", asite)
            continue
        chk.require(from_header, "R-BOXWALK.ii", akey, "advance driven by the size just read", "reposition inside a box-walk loop is not driven by the child size just read", asite)
        chk.require(sz_lo is not None and sz_lo >= 1, "R-BOXWALK.iv", akey, "child size proved >= 1 here (zero-size guard dominates)",
                    "a child box with size 0 makes this reposition return to the child's own header: the loop never advances (no zero-size guard; size interval starts at %s)" % sz_lo, asite)
    if nadv == 0:
        chk.note("box-walk loop %s has no reposition after the header read (children are consumed by reads only)" % key)


def loop_iter_local(body, L, all_loops):
    """local holding the iterator that drives loop L (receiver of its Iterator::next)"""
    nb, nt = LP.driver_next_call(body, L, all_loops)
    if nt is None:
        return None
    pl = op_place(nt["args"][0])
    if pl is None:
        return None
    l = pl["l"]
    # `&mut iter` temporaries
    for _ in range(3):
        sd = body.single_def(l)
        if sd and sd[2] == "assign" and sd[3]["k"] == "ref":
            l = sd[3]["place"]["l"]
        else:
            break
    return l


VIEW_CALLS = ("len", "iter", "iter_mut", "into_iter", "deref", "deref_mut", "as_slice", "as_mut_slice", "as_ref", "as_mut", "enumerate", "rev", "zip", "skip", "take",
              "chunks", "windows", "by_ref", "peekable", "map", "filter", "cloned", "copied", "borrow", "values", "keys", "first", "last", "get", "index")


def rooted_at_param(body, local):
    """does the collection behind an iterator / range bound live in a parameter (self.field, a borrowed argument), as opposed
    to a collection this function created?  Follows copies, borrows, range literals and view-like calls (len, iter, ...) only."""
    seen, stack = set(), [local]
    while stack:
        x = stack.pop()
        if x in seen:
            continue
        seen.add(x)
        if 1 <= x <= body.argc:
            return True
        for (b, i, kind, payload) in body.defs().get(x, []):
            ops = []
            if kind == "assign":
                rv = payload
                if rv["k"] in ("use", "cast", "un"):
                    ops = [rv["a"]]
                elif rv["k"] == "bin":
                    ops = [rv["a"], rv["b"]]
                elif rv["k"] == "agg":
                    ops = rv["ops"]
                elif rv["k"] in ("ref", "rawptr", "discr", "len"):
                    stack.append(rv["place"]["l"])
            elif kind == "call":
                nm = strip_generics(payload["callee"].get("path") or "").split("::")[-1]
                if nm in VIEW_CALLS and payload["args"]:
                    ops = [payload["args"][0]] + (payload["args"][1:] if nm == "zip" else [])
            for o in ops:
                pl = op_place(o)
                if pl is not None:
                    stack.append(pl["l"])
    return False


def fixed_array_len(body, local, depth=0):
    """N when the iterator held in `local` walks (a reference to) a `[T; N]` array, else None"""
    import re as _re
    if local is None or depth > 8:
        return None
    m = _re.search(r"\[[^\[\];]+; (\d+)\]", body.local_ty(local))
    if m and ("Iter" in body.local_ty(local) or body.local_ty(local).lstrip("&").replace("mut ", "").startswith("[")):
        return int(m.group(1))
    for (b, i, kind, payload) in body.defs().get(local, []):
        ops = []
        if kind == "assign":
            rv = payload
            if rv["k"] in ("use", "cast"):
                ops = [rv["a"]]
            elif rv["k"] == "ref":
                pl = rv["place"]
                m = _re.match(r"\[[^\[\];]+; (\d+)\]$", pl.get("ty", ""))
                if m:
                    return int(m.group(1))
                if not pl["p"]:
                    return fixed_array_len(body, pl["l"], depth + 1)
                return None
        elif kind == "call":
            nm = strip_generics(payload["callee"].get("path") or "").split("::")[-1]
            if nm in ("iter", "iter_mut", "into_iter", "deref", "deref_mut", "as_slice", "as_mut_slice", "enumerate", "rev", "copied", "cloned", "zip") and payload["args"]:
                ops = payload["args"][:1]
        for o in ops:
            pl = op_place(o)
            if pl is None:
                continue
            m = _re.match(r"(?:&mut |&)?\[[^\[\];]+; (\d+)\]$", pl.get("ty", ""))
            if m:
                return int(m.group(1))
            if not pl["p"]:
                r = fixed_array_len(body, pl["l"], depth + 1)
                if r is not None:
                    return r
    return None


def derives_from(body, local, root, depth=0, seen=None):
    """is `local` computed (through assignments and call arguments) from `root`?"""
    if local is None or root is None:
        return False
    if seen is None:
        seen = set()
    if local == root:
        return True
    if local in seen or depth > 40:
        return False
    seen.add(local)
    for (b, i, kind, payload) in body.defs().get(local, []):
        ops = []
        if kind == "assign":
            rv = payload
            if rv["k"] in ("use", "cast", "un", "repeat"):
                ops = [rv["a"]]
            elif rv["k"] == "bin":
                ops = [rv["a"], rv["b"]]
            elif rv["k"] == "agg":
                ops = rv["ops"]
            elif rv["k"] in ("ref", "discr", "rawptr"):
                if derives_from(body, rv["place"]["l"], root, depth + 1, seen):
                    return True
        elif kind == "call":
            ops = payload["args"]
        for o in ops:
            pl = op_place(o)
            if pl is not None and derives_from(body, pl["l"], root, depth + 1, seen):
                return True
    return False


def run(fx, chk, tier):
    chk.rule("R-CLASS", "every loop in the reader closure is L-ITER, L-RANGE (const/narrow/len/size-guarded/table-bounded), L-RANGE-READ, L-READ or L-BOXWALK")
    chk.rule("R-BOXWALK.i", "exactly one BoxHeader::read per iteration, dominating the back edge")
    chk.rule("R-BOXWALK.ii", "every reposition after the header read is driven by the size just read")
    chk.rule("R-BOXWALK.iii", "the stream position is re-read every iteration")
    chk.rule("R-BOXWALK.iv", "at every reposition the child size is proved >= 1 (zero-size guard)")
    chk.rule("R-BOXWALK.v", "a child decoder, skip or header read that fails inside a box walk ends the walk: its error is propagated, never swallowed (after a failure the stream is somewhere inside the child, and resuming the walk there re-parses bytes already visited) (C10 R1 instances at the walk's call sites)")
    chk.rule("R-COST", "no in-memory or parsed-bound loop is nested (directly or through callees) inside another non-constant loop")
    chk.rule("R-NOREC", "no recursion in the reader closure")
    chk.assume("A-LEN, A-POS, A-MEM as in C06; read_exact(n) on success consumed n bytes; box containment is acyclic (no recursion) so the walk depth is constant")
    eng, ents = c06.build_engine(fx, chk)
    cg = eng.cg
    iof = io_fallible_set(fx, cg)
    # recursion
    sccs = [c for c in cg.sccs(eng.clo) if not all("types::Metadata" in x for x in c)]
    chk.require(not sccs, "R-NOREC", "closure", "no recursive cycle among %d functions" % len(eng.clo), "recursion: %s" % sccs[:2])
    inv = {}
    counts = {}
    fn_loops = {}
    for fid in sorted(eng.clo):
        fn = fx.fns[fid]
        ls = LP.inventory(fx, fid)
        if not ls:
            continue
        for L in ls:
            kind, d = classify(fx, eng, fid, L, ls, iof)
            L.kind, L.detail = kind, d
            counts[kind] = counts.get(kind, 0) + 1
        fn_loops[fid] = ls
    nl = sum(counts.values())
    chk.floor("R-CLASS", "loops in reader closure", nl, FLOOR_LOOPS)
    chk.floor("R-CLASS", "box-walk loops", counts.get("BOXWALK", 0), FLOOR_BOXWALK)
    chk.analysed["loop_classes"] = counts
    chk.analysed["closure_functions"] = len(eng.clo)
    # per-loop verdicts
    for fid, ls in sorted(fn_loops.items()):
        fn = fx.fns[fid]
        seen = {}
        for L in ls:
            rg = _traf_region(body_of(fn), L.head)
            base = "%s|%s%s" % (fn_short(fid), L.kind, "@" + rg if rg else "")
            # the side of the `trafs.is_empty()` split the loop is on, then the ordinal among loops of the same class inside one function, in CFG order (no line numbers in keys)
            n = seen.get(base, 0)
            seen[base] = n + 1
            key = base if n == 0 else "%s#%d" % (base, n)
            site = site_of(fn, L.line)
            k = L.kind
            if k == "RANGE-TABLE":
                chk.ok("R-CLASS", key, "bound is a parsed value, but " + L.detail.get("table", ""), site, L.detail)
            elif k in ("ITER", "RANGE-CONST", "RANGE-LEN", "RANGE-GUARDED", "RANGE-SIZE", "RANGE-READ", "READ"):
                chk.ok("R-CLASS", key, {"ITER": "L-ITER over " + L.detail.get("iterator", ""), "RANGE-CONST": "constant/narrow bound %s" % L.detail.get("end"),
                                        "RANGE-LEN": "bound is a len()", "RANGE-GUARDED": "bound guarded by a size-derived expression %s" % L.detail.get("ub"),
                                        "RANGE-SIZE": "bound computed from the box size", "RANGE-READ": "every iteration reads from the stream",
                                        "READ": "every iteration reads from the stream"}[k], site, L.detail)
            elif k == "BOXWALK":
                chk.ok("R-CLASS", key, "L-BOXWALK", site)
                check_boxwalk(fx, eng, chk, fid, fn, L, ls, L.detail, key)
            elif k == "RANGE-PARSED":
                chk.bad("R-CLASS", key, "loop bound is a value parsed from the input with no relation to the input length (end in %s, provenance %s): work is not bounded by n" % (L.detail.get("end"), L.detail.get("prov")), site, L.detail)
            else:
                chk.bad("R-CLASS", key, "loop could not be classified (%s): no progress/bound argument" % k, site, L.detail)
    # ---- cost degree: an in-memory / parsed-bound loop nested (directly or through a callee) in another such loop is
    # degree 2 unless the inner collection is owned by the outer loop's element (tree traversal: total = sum of sizes)
    MEM = ("ITER", "RANGE-LEN", "RANGE-PARSED", "RANGE-TABLE")

    def amortised(L):
        return L.kind in ("BOXWALK", "READ", "RANGE-READ", "RANGE-GUARDED", "RANGE-SIZE")
    order = cg.topo(eng.clo)
    mem_depth = {}       # fid -> 1 if the function (or a callee, on a shared collection) loops over an in-memory collection
    for fid in order:
        body = body_of(fx.fns[fid])
        ls = fn_loops.get(fid, [])
        def over_own_local(L_):
            """the loop walks a collection this function created itself (its length is bounded by what this call consumed or
            allocated, which the allocation and read rules bound by the bytes of its box), not one reachable from a parameter"""
            if body is None:
                return False
            root = loop_iter_local(body, L_, ls)
            if root is None:
                return False
            return not rooted_at_param(body, root)
        best = 1 if any(L.kind in MEM and not over_own_local(L) for L in ls) else 0
        if body is not None and not best:
            for b, t in body.calls():
                p = callee_path(t["callee"])
                if mem_depth.get(p):
                    best = 1
                    break
        mem_depth[fid] = best
    # R-BOXWALK.v: the C10 R1 instances whose call site is a child consumer inside a box-walk loop
    walk_sites = set()
    for fid, ls in sorted(fn_loops.items()):
        fn = fx.fns[fid]
        body = body_of(fn)
        for L in ls:
            if L.kind != "BOXWALK":
                continue
            for b, t in LP.calls_in(body, L.blocks):
                p = callee_path(t["callee"]) or ""
                tr = short(((fx.fns.get(p) or {}).get("impl") or {}).get("trait") or "")
                if p.endswith("::skip_box") or tr.startswith("ReadBox<") or is_header_read(t) or p.endswith("::skip_bytes_to") or p.endswith("::skip_bytes"):
                    walk_sites.add(str(site_of(fn, t.get("line"))))
    from packs_common import compose
    compose(fx, chk, tier, "R-BOXWALK.v", "C10", ["R1"], keyfilter=lambda o: o["rule"] == "R1" and str(o["site"]) in walk_sites, floor=FLOOR_WALK_CALLS, what="fallible child consumers inside box-walk loops")

    chk.rule("R-EXTENT", "every child size handed to a decoder or skip is bounded by its parent (C08 R-CHAIN instances): a decoder reads only inside its own extent, extents nest, so each input byte is transferred a bounded number of times")
    compose(fx, chk, tier, "R-EXTENT", "C08", ["R-CHAIN"], floor=60, what="child-size hand-offs")

    def mem_in_region(g, region, depth=0):
        """does callee g loop over an in-memory collection on the side of the `trafs.is_empty()` split the caller's loop is on?
        (a lookup called from the non-fragmented branch never runs the callee's fragment search)"""
        if region is None or depth > 4:
            return True
        gb = body_of(fx.fns[g]) if g in fx.fns else None
        if gb is None:
            return True
        for L_ in fn_loops.get(g, []):
            if L_.kind in MEM and _traf_region(gb, L_.head) in (region, None):
                return True
        for b_, t_ in gb.calls():
            q = callee_path(t_["callee"])
            if mem_depth.get(q) and _traf_region(gb, b_) in (region, None) and mem_in_region(q, region, depth + 1):
                return True
        return False
    for fid in sorted(fn_loops):
        fn = fx.fns[fid]
        body = body_of(fn)
        ls = fn_loops[fid]
        for L in ls:
            if L.kind == "RANGE-CONST":
                continue
            region = _traf_region(body, L.head)
            key = "%s|%s%s" % (fn_short(fid), L.kind, "@" + region if region else "")
            nb, nt = LP.driver_next_call(body, L, ls)
            elem_root = nt["dest"]["l"] if nt is not None else None
            probs = []
            for o in L.nested:
                if o.kind in MEM and not derives_from(body, loop_iter_local(body, o, ls), elem_root):
                    probs.append(("nested", site_of(fn, o.line), "a second in-memory loop over a collection that does not belong to the outer loop's element"))
            for b, t in LP.calls_in(body, L.blocks):
                p = callee_path(t["callee"])
                if mem_depth.get(p) and mem_in_region(p, region):
                    recv = op_place(t["args"][0]) if t["args"] else None
                    if recv is None or not derives_from(body, recv["l"], elem_root):
                        probs.append(("calls|" + fn_short(p), site_of(fn, t.get("line")), "each iteration calls %s, which loops over an in-memory collection that is not owned by the loop element" % fn_short(p)))
            if not probs:
                if L.kind in MEM:
                    chk.ok("R-COST", key, "single-level loop (inner work is O(1) or over element-owned data)")
                continue
            for tag, site, what in probs:
                if amortised(L):
                    what = "inside a consuming loop: " + what + " (work can reach n * len)"
                else:
                    what = what + ": degree 2"
                chk.bad("R-COST", "%s|%s" % (key, tag), what, site)
    return chk.finish(
        "other",
        "All %d loops of the %d reader-closure functions are classified with a bound/progress argument from the abstract interpreter; box-walk loops must prove child size >= 1 at each reposition. "
        "Silence means terminating and linear under the assumptions. Not decided: wall-clock time and constant factors." % (nl, len(eng.clo)),
    )
