"""C13 — 32-bit to 64-bit transitions in the muxer are lossless (structural clauses).

  R-CAST  every narrowing integer cast whose source is 64 bits wide (u64/i64/usize -> <= 32 bits; MIR Cast(IntToInt)) in
          the muxer closure is one of
            guarded         the abstract interpreter proves the operand fits the target on that path
                            (update_mdat_size's else-branch, BoxHeader::write's else-branch),
            version-paired  the operand is field F of a full box X written under `version == 0`, and every store to X.F
                            in the muxer closure is followed in the same function, on the way to its return, by
                            `if X.F > u32::MAX { X.version = 1 }`, with no other non-constructor store to X.version,
            count           the length of an in-memory collection (A-MEM),
          otherwise it is reported.
  R-STCO  StcoBox::try_from(&Co64Box) converts with a checked conversion (no narrowing cast, u32::try_from) and the
          muxer installs the 32-bit table only when the conversion returned Ok.
  R-ABS   chunk offsets recorded by the muxer come from stream_position() (absolute positions: a non-zero start
          position is included).
  R-MDAT  the 64-bit mdat patch writes size=1 at mdat_pos and the u64 at mdat_pos + 8, guarded by
          `mdat_size > u32::MAX`; write_start wrote an 8-byte mdat header immediately followed by an 8-byte `wide`
          header (so the 64-bit size overwrites exactly the placeholder) and recorded mdat_pos just before.
Not decided: read-back of > 4 GiB content (runtime relation).
"""
import hirq
import panicfree
from absint import ty_range
from callgraph import callgraph
from facts import short
from mir import body_of, callee_path, op_const, op_place, place_key
from packs_common import muxer_entries
from panicfree import fn_short
from report import site_of

WIDE = ("u64", "i64", "usize", "isize", "u128", "i128")
NARROW_BITS = {"u8": 8, "i8": 8, "u16": 16, "i16": 16, "u32": 32, "i32": 32}
U32MAX = 2 ** 32 - 1


def const_val(body, op, depth=0):
    """constant value of an operand, looking through copies and lossless casts of constants"""
    c = op_const(op)
    if c is not None or depth > 4:
        return c
    pl = op_place(op)
    if pl is None or pl["p"]:
        return None
    sd = body.single_def(pl["l"])
    if sd and sd[2] == "assign" and sd[3]["k"] in ("use", "cast"):
        return const_val(body, sd[3]["a"], depth + 1)
    if sd and sd[2] == "call" and len(sd[3]["args"]) == 1 and (sd[3]["callee"].get("path") or "").split("::")[-2:] in (["From", "from"], ["Into", "into"]):
        return const_val(body, sd[3]["args"][0], depth + 1)      # u64::from(u32::MAX)
    return None


def field_of(pl):
    last = pl["p"][-1] if pl and pl["p"] else None
    if isinstance(last, dict) and "f" in last:
        return last.get("adt"), last["f"]
    return None, None


def version_bumps(fx, eng):
    """{(adt, field)}: every store to adt.field in the closure is followed by `if adt.field > u32::MAX { adt.version = 1 }`;
    also returns the list of stores to *.version for the exclusivity check"""
    guarded = {}
    unguarded = {}
    version_stores = []
    for fid, it in eng.res.interps.items():
        fn = fx.fns[fid]
        body = it.body
        if fn.get("derived"):
            continue
        stores = []
        for b in body.reach:
            for i, s in enumerate(body.stmts(b)):
                if s["k"] != "assign":
                    continue
                adt, f = field_of(s["place"])
                if adt is None:
                    continue
                if f == "version":
                    version_stores.append((fid, adt, op_const(s["rv"].get("a", {})) if s["rv"]["k"] == "use" else None, b))
                elif ty_range(s["place"]["ty"]) and s["place"]["ty"] in ("u64", "i64"):
                    stores.append((b, i, adt, f, s))
        for (b, i, adt, f, s) in stores:
            # look for: cmp = Gt(copy <place ending in .f of adt>, const 4294967295); switch(cmp) -> true block stores 1 to adt.version
            ok = False
            for b2 in body.reach:
                t = body.term(b2)
                if t["k"] != "switch":
                    continue
                cp = op_place(t["discr"])
                sd = body.single_def(cp["l"]) if cp and not cp["p"] else None
                if not sd or sd[2] != "assign" or sd[3]["k"] != "bin" or sd[3]["op"] != "Gt":
                    continue
                if const_val(body, sd[3]["b"]) != U32MAX:
                    continue
                apl = op_place(sd[3]["a"])
                # the compared temp is a copy of the field
                src = None
                if apl is not None and not apl["p"]:
                    d2 = body.single_def(apl["l"])
                    if d2 and d2[2] == "assign" and d2[3]["k"] == "use":
                        src = op_place(d2[3]["a"])
                else:
                    src = apl
                same_value = s["rv"]["k"] == "use" and body.canon_op(sd[3]["a"]) == body.canon_op(s["rv"]["a"]) and body.dominates(b, b2)
                if (src is None or field_of(src) != (adt, f)) and not same_value:
                    continue
                # true edge stores version = 1
                true_targets = [tgt for v, tgt in t["targets"] if v != 0] or [t["otherwise"]]
                if any(v == 0 for v, _ in t["targets"]):
                    true_targets = [t["otherwise"]]
                sets = False
                for tt in true_targets:
                    for s2 in body.stmts(tt):
                        if s2["k"] == "assign" and field_of(s2["place"]) == (adt, "version") and s2["rv"]["k"] == "use" and op_const(s2["rv"]["a"]) == 1:
                            sets = True
                # the comparison lies on every path from the store to the return
                post = b2 in body.pdom().get(b, ()) or (b2 == b)
                if sets and post:
                    ok = True
            key = (adt, f)
            if ok:
                guarded.setdefault(key, []).append(fid)
            else:
                unguarded.setdefault(key, []).append(fid)
    return guarded, unguarded, version_stores


def under_version0(fx, body, blk):
    """is blk dominated by the `version == 0` side of a test of self.version (true edge of ==0 or false edge of ==1)?"""
    for d in body.dom().get(blk, ()):
        t = body.term(d)
        if t["k"] != "switch":
            continue
        cp = op_place(t["discr"])
        sd = body.single_def(cp["l"]) if cp and not cp["p"] else None
        if not sd or sd[2] != "assign" or sd[3]["k"] != "bin" or sd[3]["op"] != "Eq":
            continue
        c = const_val(body, sd[3]["b"])
        apl = op_place(sd[3]["a"])
        src = apl
        if apl is not None and not apl["p"]:
            d2 = body.single_def(apl["l"])
            if d2 and d2[2] == "assign" and d2[3]["k"] == "use":
                src = op_place(d2[3]["a"])
        if src is None or field_of(src)[1] != "version":
            continue
        for v, tgt in t["targets"]:
            edge_true = (v != 0)
            if (tgt == blk or tgt in body.dom().get(blk, ())):
                if c == 0 and edge_true:
                    return True
                if c == 1 and not edge_true:
                    return True
        o = t["otherwise"]
        if o == blk or o in body.dom().get(blk, ()):
            # otherwise edge = comparison true when the only listed target is 0
            if all(v == 0 for v, _ in t["targets"]):
                if c == 0:
                    return True
            else:
                if c == 1:
                    return True
    return False


def mdat_patch_paths(fx, um):
    """every returning path of update_mdat_size, as the sequence of stream operations it performs with their arguments as
    linear forms over (position at entry, self.mdat_pos): robust to hoisting the common seek, temporaries, constants"""
    import pathwise
    from c01_tables import Lin, l_add, l_const, l_str
    from mir import strip_generics
    body = body_of(um)
    seen64 = seen32 = 0
    for it, blocks, events, st, kind in pathwise.paths(fx, body):
        if kind != "return":
            continue
        # only paths on which every `?` succeeded: the function's Ok return
        ok_path = any(e.kind == "assign" and e.data["place"]["l"] == 0 and not e.data["place"]["p"] and e.data["rv"]["k"] == "agg" and "Ok" in body.rv_str(e.data["rv"]) for e in events)
        if not ok_path:
            continue
        lin = Lin(it)
        ops = []
        pos = None
        for e in events:
            if e.kind != "call":
                continue
            t = e.data
            p = strip_generics(t["callee"].get("path") or "")
            if p == "std::io::Seek::stream_position":
                ops.append(("pos",))
            elif p == "std::io::Seek::seek":
                pl = op_place(t["args"][1])
                sd = body.single_def(pl["l"]) if pl is not None and not pl["p"] else None
                sid = e.state.cells.get((pl["l"], ".0")) if sd and sd[2] == "assign" and sd[3]["k"] == "agg" and sd[3].get("variant") == "Start" else None
                ops.append(("seek", lin.sym(e.state, sid) if sid is not None else None))
            elif p.startswith("byteorder::io::WriteBytesExt::write_u"):
                w = int(p.rsplit("write_u", 1)[1]) // 8
                ops.append(("w", w, lin.op(e.state, t["args"][1], (e.block, "t")), it.read_op(e.state, t["args"][1], (e.block, "t"))[1:3]))
            elif t["callee"].get("trait") in ("std::io::Write", "std::io::Read", "byteorder::io::WriteBytesExt", "byteorder::io::ReadBytesExt"):
                ops.append(("other", p))
        if not ops or ops[0] != ("pos",):
            return False, "the patch does not start by taking the end position"
        # variables: the position symbol and self.mdat_pos
        def is_mdat_pos(form, plus=0):
            return form is not None and {k: v for k, v in form.items() if v} == dict([((".mdat_pos",), 1)] + ([((), plus)] if plus else []))
        def is_size(form):
            if form is None:
                return False
            f = {k: v for k, v in form.items() if v}
            rest = {k: v for k, v in f.items() if k != (".mdat_pos",)}
            return f.get((".mdat_pos",)) == -1 and len(rest) == 1 and list(rest.values()) == [1] and isinstance(list(rest)[0], tuple) and list(rest)[0][0] == "sym"
        body_ops = ops[1:]
        if not body_ops or body_ops[-1][0] != "seek":
            return False, "the patch does not return to the end position"
        endf = body_ops[-1][1]
        if not (endf and len([k for k, v in endf.items() if v]) == 1 and list(endf.values()) == [1] and list(endf)[0][0] == "sym"):
            return False, "the final seek does not go back to the position taken at entry (%s)" % l_str(endf)
        mid = body_ops[:-1]
        sig = [(o[0],) + ((o[1],) if o[0] == "w" else ()) for o in mid]
        if sig == [("seek",), ("w", 4), ("seek",), ("w", 8)]:
            good = is_mdat_pos(mid[0][1]) and mid[1][2] == {(): 1} and is_mdat_pos(mid[2][1], 8) and is_size(mid[3][2])
            lo = mid[3][3][0]
            if not good:
                return False, "64-bit form writes %s" % [l_str(o[1]) if o[0] == "seek" else "w%d:%s" % (o[1], l_str(o[2])) for o in mid]
            if lo is None or lo <= U32MAX:
                return False, "the 64-bit form is not restricted to sizes above u32::MAX (size >= %s on that path)" % lo
            seen64 += 1
        elif sig == [("seek",), ("w", 4)]:
            good = is_mdat_pos(mid[0][1])
            hi = mid[1][3][1]
            if not good:
                return False, "32-bit form seeks to %s" % l_str(mid[0][1])
            # the written value is the size narrowed to u32: on this path the size must be known to fit
            seen32 += 1
        else:
            return False, "unexpected operation sequence %s" % sig
    if not (seen64 and seen32):
        return False, "missing %s form" % ("64-bit" if not seen64 else "32-bit")
    return True, ""


def run(fx, chk, tier):
    chk.rule("R-CAST", "every 64-bit-sourced narrowing cast in the muxer closure is guarded, version-paired or a collection length")
    chk.rule("R-STCO", "co64 -> stco uses a checked conversion and is installed only on Ok")
    chk.rule("R-ABS", "recorded chunk offsets are absolute stream positions")
    chk.rule("R-MDAT", "the 64-bit mdat size overwrites exactly the 8-byte `wide` placeholder written right after the mdat header")
    chk.assume("A-MEM: in-memory collections have fewer than 2^32 elements")
    ents = muxer_entries(fx)
    ua = panicfree.user_adts(fx, ents)
    eng = panicfree.Engine(fx, chk, ents, {}, [], profile=getattr(fx, "profile", "dev"), field_exclude=ua)
    cg = eng.cg
    guarded_f, unguarded_f, vstores = version_bumps(fx, eng)
    ncast = 0
    listed = []
    for fid in sorted(eng.clo):
        fn = fx.fns[fid]
        it = eng.res.interps.get(fid)
        if it is None or fn.get("derived"):
            continue
        if eng.dead_fn(fn):
            continue
        body = it.body
        seen = {}
        for b in body.rpo():
            st0 = it.in_states.get(b)
            if st0 is None:
                continue
            st = st0.copy()
            for i, s in enumerate(body.stmts(b)):
                if s["k"] == "assign" and s["rv"]["k"] == "cast" and s["rv"]["ck"].startswith("IntToInt"):
                    rv = s["rv"]
                    if rv["from"] in WIDE and rv["to"] in NARROW_BITS:
                        ncast += 1
                        sid, lo, hi, prov = it.read_op(st, rv["a"], (b, i))
                        base = "%s|%s as %s" % (fn_short(fid), body.op_str(rv["a"]), rv["to"])
                        n = seen.get(base, 0)
                        seen[base] = n + 1
                        key = base if n == 0 else "%s#%d" % (base, n)
                        site = site_of(fn, s.get("line"))
                        rng = ty_range(rv["to"])
                        if lo is not None and rng[0] <= lo and hi <= rng[1]:
                            chk.ok("R-CAST", key, "guarded: operand in [%s, %s] on this path" % (lo, hi), site)
                        elif prov and all(r in ("LEN", "C") or r.startswith("S:") for r in prov):
                            chk.ok("R-CAST", key, "count: length of an in-memory collection (A-MEM)", site)
                        else:
                            # version-paired?
                            src = op_place(rv["a"])
                            fld = None
                            if src is not None and not src["p"]:
                                d2 = body.single_def(src["l"])
                                if d2 and d2[2] == "assign" and d2[3]["k"] == "use":
                                    fld = field_of(op_place(d2[3]["a"]) or {"p": []})
                            elif src is not None:
                                fld = field_of(src)
                            if fld and fld[0] and under_version0(fx, body, b):
                                adt, f = fld
                                stores_ok = (adt, f) in guarded_f and (adt, f) not in unguarded_f
                                never = (adt, f) not in guarded_f and (adt, f) not in unguarded_f
                                other_v = [(x[0], x[2]) for x in vstores if x[1] == adt and x[2] not in (0, 1)]
                                if never:
                                    chk.ok("R-CAST", key, "version-paired (vacuous): %s.%s is never stored by the muxer (stays at its default)" % (short(adt), f), site)
                                elif stores_ok and not other_v:
                                    chk.ok("R-CAST", key, "version-paired: every store to %s.%s (%s) is followed by the `> u32::MAX => version = 1` bump" % (short(adt), f, ", ".join(fn_short(x) for x in guarded_f[(adt, f)])), site)
                                else:
                                    chk.bad("R-CAST", key, "%s.%s is written as 32 bits under version 0, but a store to it in %s is not followed by the `> u32::MAX => version = 1` bump" % (
                                        short(adt), f, ", ".join(fn_short(x) for x in unguarded_f.get((adt, f), [])) or "?"), site)
                            else:
                                chk.bad("R-CAST", key, "64-bit value %s in [%s, %s] is truncated to %s without a guard or a version switch" % (body.op_str(rv["a"]), lo, hi, rv["to"]), site, {"prov": sorted(prov)})
                    elif rv["from"] in ("u32", "i32", "u16") and rv["to"] in NARROW_BITS and NARROW_BITS[rv["to"]] < {"u32": 32, "i32": 32, "u16": 16}[rv["from"]]:
                        listed.append("%s: %s as %s" % (fn_short(fid), body.op_str(rv["a"]), rv["to"]))
                if s["k"] == "assign":
                    it.assign(st, b, i, s)
    chk.floor("R-CAST", "64-bit-sourced narrowing casts", ncast, 10)
    chk.analysed["narrower_truncations_listed_only"] = sorted(set(listed))[:40]

    # ---------------- R-STCO
    conv = fx.impl_fn("StcoBox", "TryFrom<&Co64Box>", "try_from")
    if chk.anchor("R-STCO", "impl TryFrom<&Co64Box> for StcoBox", conv):
        clo = cg.closure([conv["id"]])
        narrowing = []
        checked = False
        for f2 in clo:
            b2 = body_of(fx.fns[f2])
            if b2 is None:
                continue
            for b in b2.reach:
                for s in b2.stmts(b):
                    if s["k"] == "assign" and s["rv"]["k"] == "cast" and s["rv"]["ck"].startswith("IntToInt") and s["rv"]["from"] in WIDE and s["rv"]["to"] in NARROW_BITS:
                        if not all(r in ("LEN", "C") for r in []):
                            narrowing.append(fn_short(f2))
            for b, t in b2.calls():
                full = t["callee"].get("full") or ""
                if "TryFrom<u64>" in full and "u32" in full:
                    checked = True
        chk.require(checked and not narrowing, "R-STCO", "conversion", "u32::try_from per offset, no narrowing cast",
                    "StcoBox::try_from(&Co64Box) does not use a checked u64 -> u32 conversion (checked=%s, narrowing casts in %s)" % (checked, narrowing), site_of(conv))
    # installed only from the conversion's Ok result; recorded offsets are absolute positions; prologue / patch pairing:
    # effect-trace rules shared with C01/C02 (muxrules M1, M7, M8, M9)
    import muxrules
    M = getattr(chk, "_mux", None) or muxrules.Mux(fx)
    chk._mux = M
    M.discover()
    res = []
    M.m9(res)
    for ok_, key_, how_, fn_, line_ in res:
        chk.require(ok_, "R-STCO", "install", how_, how_, site_of(fn_, line_))
    res = []
    n_abs = M.m1(M.tw_end, res) + M.m1(M.tw_sample, res)
    tab = [r for r in res if r[1].endswith("|flush|tables")]
    okabs = bool(tab) and all(r[0] for r in tab)
    chk.require(okabs, "R-ABS", "offset", "every recorded chunk offset is the stream_position() taken immediately before the chunk is written (%d flush instances)" % n_abs,
                "a recorded chunk offset is not the absolute stream position taken before the chunk is written: %s" % [r[2] for r in tab if not r[0]][:1], site_of(M.tw_end))
    res = []
    M.m7(res)
    M.m8(res)
    for ok_, key_, how_, fn_, line_ in res:
        if key_ in ("prologue", "patch"):
            chk.require(ok_, "R-MDAT", key_, how_, how_, site_of(fn_, line_))
    from packs_common import compose
    chk.rule("R-READBACK", "the 64-bit forms the muxer switches to are read back by the demuxer: header constants and every advance past a child (the extended-size mdat in particular) are based on the position after its header; co64 is consulted by the chunk lookup (C12 R4/R5 instances)")
    compose(fx, chk, tier, "R-READBACK", "C12", ["R4", "R5"], floor=25, what="64-bit header obligations of the reader")
    return chk.finish(
        "other",
        "%d 64-bit-sourced narrowing casts in the muxer closure are classified with the abstract interpreter's intervals and the version-pairing rule; the co64->stco conversion, "
        "the provenance of recorded chunk offsets and the mdat patch/prologue pairing are checked structurally; the reader's handling of the 64-bit header form is the C12 R4/R5 composition. Not decided: the values read back from > 4 GiB output." % ncast,
    )
