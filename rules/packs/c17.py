"""C17 — muxer API is total: bad arguments are errors, never panics (same engine as C06, muxer entry set)."""
import panicfree
from c06 import sc_trusted, sc_ratio_denominators, K
from packs_common import muxer_entries

from facts import short
from mir import body_of


def _stored_variant(body, rv):
    """variant name when the stored value is (a move of) an Option aggregate"""
    from mir import op_place
    for _ in range(4):
        if rv["k"] == "agg":
            return rv.get("variant")
        if rv["k"] == "use":
            pl = op_place(rv["a"])
            if pl is None or pl["p"]:
                return None
            sd = body.single_def(pl["l"])
            if sd is None or sd[2] != "assign":
                return None
            rv = sd[3]
        else:
            return None
    return None


def sc_co64_never_cleared(eng, fid, fn, it, ob):
    """Mp4TrackWriter::new stores Some(..) to the track's stbl.co64 and no method stores anything but Some(..) to
    self.trak...co64 afterwards"""
    through_self = 0
    in_new = 0
    for f2, it2 in eng.res.interps.items():
        f2n = eng.fx.fns[f2]
        if f2n.get("derived") or short((f2n.get("impl") or {}).get("self_ty", "")) != "Mp4TrackWriter":
            continue
        body = it2.body
        for b in body.reach:
            for s in body.stmts(b):
                if s["k"] != "assign":
                    continue
                pl = s["place"]
                last = pl["p"][-1] if pl["p"] else None
                if not (isinstance(last, dict) and last.get("f") == "co64" and short(last.get("adt", "")) == "StblBox"):
                    continue
                v = _stored_variant(body, s["rv"])
                if f2n["name"] == "new":
                    if v == "Some":
                        in_new += 1
                    else:
                        return False, "Mp4TrackWriter::new stores %s to stbl.co64" % v
                elif pl["l"] == 1 and "deref" in pl["p"]:
                    through_self += 1
                    if v != "Some":
                        return False, "%s stores %s to self.trak...co64" % (short(f2), v)
    return in_new >= 1, "new() stores Some(..); %d later store(s) through self, all Some(..)" % through_self


HIST_COUNTERS = {("StszBox", "sample_count"), ("SttsEntry", "sample_count"), ("CttsEntry", "sample_count"), ("Mp4TrackWriter", "chunk_samples"), ("Mp4TrackWriter", "sample_id")}
_FX = {}


def hist_counter(fid, ob):
    """`counter + 1` where the counter is read from one of the per-sample counter fields (identified by struct and field, not by spelling)"""
    d = ob.get("detail") or {}
    one = (d.get("b") or {}).get("iv") == [1, 1] or (d.get("a") or {}).get("iv") == [1, 1]
    fx = _FX.get("fx")
    if not one or fx is None:
        return False
    return panicfree.operand_field(fx, fid, ob, "a") in HIST_COUNTERS or panicfree.operand_field(fx, fid, ob, "b") in HIST_COUNTERS


def _fields(fid, ob):
    fx = _FX.get("fx")
    if fx is None:
        return None
    return (panicfree.operand_field(fx, fid, ob, "a"), panicfree.operand_field(fx, fid, ob, "b"))


def hist_duration(fid, ob):
    d = ob.get("detail") or {}
    fx = _FX.get("fx")
    if fx is None:
        return False
    for x, y in (("a", "b"), ("b", "a")):
        iv = (d.get(y) or {}).get("iv") or [None, None]
        if panicfree.operand_field(fx, fid, ob, x) == ("MdhdBox", "duration") and iv[0] is not None and iv[0] >= 0 and iv[1] <= 0xFFFFFFFF:
            return True
    return False


ACCEPTED = [
    {"match": (lambda fid, fn, ob, key: "::value|ratio:to_integer|" in key and key.startswith("FixedPoint")), "side": sc_ratio_denominators,
     "reason": "fixed-point denominators are the non-zero constants 0x100 / 0x10000"},
    {"match": (lambda fid, fn, ob, key: "|unwrap_opt:unwrap|Option::as_ref(self.trak.mdia.minf.stbl.co64)" in key or "|unwrap_opt:unwrap|Option::as_mut(self.trak.mdia.minf.stbl.co64)" in key),
     "side": sc_co64_never_cleared, "reason": "the track writer's co64 table is created in new() and never cleared"},
    {"match": (lambda fid, fn, ob, key: key.split("|")[0].startswith("Mp4TrackWriter::") and "|Overflow(Add)|" in key and hist_counter(fid, ob)),
     "side": sc_trusted("A-HIST"), "reason": "A-HIST: per-track sample counters (stsz.sample_count, run counts of stts / ctts, chunk_samples, sample_id) advance by 1 per sample and stay below 2^32 (fewer than 2^32 - 1 samples are written to one track)"},
    {"match": (lambda fid, fn, ob, key: key.split("|")[0].startswith("Mp4TrackWriter::update_durations") and "|Overflow(Add)|" in key and hist_duration(fid, ob)), "side": sc_trusted("A-HIST"),
     "reason": "A-HIST: mdhd.duration is the sum of fewer than 2^32 durations, each below 2^32: below 2^64"},
    {"match": (lambda fid, fn, ob, key: key.split("|")[0].startswith("Mp4TrackWriter::") and "|Overflow(Sub)|" in key and _fields(fid, ob) == (("Mp4TrackWriter", "sample_id"), ("Mp4TrackWriter", "chunk_samples"))),
     "side": sc_trusted("invariant chunk_samples <= sample_id"),
     "reason": "chunk_samples counts samples of the open chunk including the current one, sample_id is the number of the current sample: chunk_samples <= sample_id"},
    {"match": (lambda fid, fn, ob, key: key.split("|")[0].startswith("Mp4TrackWriter::") and "|Overflow(Add)|Sub(self.sample_id, self.chunk_samples).0, 1" in key), "side": sc_trusted("A-HIST"),
     "reason": "sample_id - chunk_samples + 1 <= sample_id < 2^32 under A-HIST"},
    {"match": K("<W>::update_mdat_size|Overflow(Sub)|mdat_end, self.mdat_pos"), "side": sc_trusted("A-POS-MONO"),
     "reason": "A-POS-MONO: the position at write_end is not before the position recorded at write_start (only chunk payloads were appended)"},
]


def run(fx, chk, tier):
    _FX["fx"] = fx
    chk.rule("PF.assert", "every MIR Assert terminator reachable from the muxer API (write_start, add_track, write_sample, write_end, into_writer, TrackConfig::from) is discharged")
    chk.rule("PF.call", "every call to a panicking callee reachable from the muxer API is discharged")
    chk.rule("PF.recursion", "no recursion in the muxer closure")
    chk.assume("A-POS: Seek::stream_position / seek return values < 2^62")
    chk.assume("A-MEM: no in-memory collection has 2^32 or more elements")
    chk.assume("A-HIST: fewer than 2^32 - 1 samples are written to any one track (per-track counters are u32)")
    chk.assume("A-STD: std/alloc/serde/bytes functions outside the panicking-callee table do not panic except on allocation failure")
    chk.assume("A-NOFAULT: the stream does not fail (the statement quantifies over arguments and call sequences; a failing stream is C10's subject, where only the call in progress is constrained). "
               "The accepted invariant chunk_samples <= sample_id relies on it: an I/O fault inside the chunk flush returns between the two increments")
    ents = muxer_entries(fx)
    chk.floor("PF", "muxer entry points", len(ents), 10)
    ua = panicfree.user_adts(fx, ents)
    chk.analysed["user_supplied_adts"] = sorted(ua)
    eng = panicfree.Engine(fx, chk, ents, {}, ACCEPTED, profile=getattr(fx, "profile", "dev"), field_exclude=ua, accepted_id="C17")
    chk.analysed["field_invariants"] = {"%s.%s" % (k[0].split("::")[-1], k[1]): list(v) for k, v in sorted(eng.res.field_inv.items()) if v != (0, 2**32-1)}
    chk.floor("PF", "functions in muxer closure", len(eng.clo), 150)
    n = eng.run()
    chk.floor("PF", "panic obligations in muxer closure", n, 150)
    chk.analysed["closure_functions"] = len(eng.clo)
    chk.closure_ids = sorted(eng.clo)
    chk.engine = eng
    chk.analysed["entries"] = len(ents)
    return chk.finish(
        "other",
        "Every panic-capable construct in the %d functions reachable from the %d muxer entry points (configuration and sample fields are TOP: the full value range) is enumerated from MIR (%d obligations) "
        "and discharged or reported. 'When every call succeeds the output satisfies the other muxer properties' is C01/C02/C13/C14's content, not decided here." % (len(eng.clo), len(ents), n),
    )
