"""C05 — box wire formats conform to the ISO/IEC 14496 layouts.

Oracle: spec/layouts.json and spec/bits.json, written from the specifications (14496-12 boxes, 14496-14/-1/-3 esds
descriptors and AudioSpecificConfig, 14496-15 avcC/hvcC, VP-codec binding vpcC, 3GPP tx3g, DASH emsg, iTunes data),
sharing nothing with the library.
  R1 layout: for every box type, in every shape cell, the layout extracted from write_box equals the specification's
     layout, and the layout extracted from read_box equals it too (both sides are compared with the table, so a
     symmetric mistake is caught): same sequence of (width, field | reserved run) with reserved runs merged, same
     full-box header presence, same byte runs / NUL-terminated strings, same repetition structure, same child types.
  R2 four-character codes: box_type()/get_type() of each box struct returns the BoxType variant whose code (from the
     BoxType table checked by C16) is the registered code of that box.
  R3 bit routing: for every bit-packed byte the encoder's routing (field bit -> wire bit, reserved bits with their
     prescribed values) and the decoder's routing (wire bit -> field bit) equal the specification's bit ranges,
     computed by abstract bit-level evaluation of the packing / extraction expressions (operator precedence is the
     compiler's).
  R4 header forms: BoxHeader::write uses the 32-bit form up to u32::MAX and otherwise size=1 + type + 64-bit size;
     BoxHeader::read's `largesize - 8` pairs with the 8 extra bytes it read; descriptor lengths: size_of_length's
     thresholds are the 7-bit group limits and read_desc accepts up to 4 length bytes (padded lengths decode equally).
Not decided: semantic validity of field values (matrix contents, flags meaning).
"""
import json
import os
import re

import c04
import hirq
import layout as LY
import layout2 as L2
import sval
import tables
import bits
from bits import BV, Evaluator
from facts import short
from mir import body_of, op_const
from report import site_of
from panicfree import fn_short

HERE = os.path.dirname(os.path.dirname(os.path.dirname(os.path.abspath(__file__))))
SPEC = json.load(open(os.path.join(HERE, "spec", "layouts.json")))["boxes"]
CODES = json.load(open(os.path.join(HERE, "spec", "fourcc.json")))
BITS = json.load(open(os.path.join(HERE, "spec", "bits.json")))


def code_of(s):
    b = s.encode("latin-1")
    return (b[0] << 24) | (b[1] << 16) | (b[2] << 8) | b[3]


def spec_tokens(items, A, fixed, side="w"):
    """canonical tokens (same vocabulary as layout2.canon) of a specification layout under assignment A"""
    out = []

    def push_res(n):
        if out and out[-1][0] == "res":
            out[-1] = ("res", out[-1][1] + n)
        else:
            out.append(("res", n))
    for it in items:
        k = it[0]
        if k == "f":
            out.append(("f", it[1], it[2]))
        elif k == "res":
            push_res(it[1])
        elif k == "count":
            out.append(("f", it[1], "count"))
        elif k == "packed":
            out.append(("f", it[1], "expr{%s}" % ",".join(sorted(it[2]))))
        elif k == "rep" or k == "rep_to_end":
            out.append(("rep", "count", tuple(spec_tokens(it[1], A, fixed, side))))
        elif k == "rep_by":
            out.append(("rep", "count", tuple(spec_tokens(it[2], A, fixed, side))))
        elif k == "b":
            if A.get("empty(%s)" % it[1]) and side == "w":
                continue
            out.append(("b", it[1]))
        elif k == "bz":
            if A.get("empty(%s)" % it[1]) and side == "w":
                continue
            out.append(("bz", it[1]))
        elif k in ("b16", "b4", "b32"):
            out.append(("b", it[1]))
        elif k == "cstr":
            out.append(("cstr", it[1]))
        elif k == "children":
            out.append(("children", frozenset(it[1])))
        elif k == "if":
            v = A.get(it[1])
            if v is None:
                # atoms of the form X==c: decided by exclusivity
                m = re.match(r"(.+)==(-?\d+)$", it[1])
                v = False
                if m:
                    for kk, vv in A.items():
                        m2 = re.match(r"(.+)==(-?\d+)$", kk)
                        if m2 and m2.group(1) == m.group(1) and vv:
                            v = (m2.group(2) == m.group(2))
            for x in spec_tokens(it[2] if v else it[3], A, fixed, side):
                if x[0] == "res":
                    push_res(x[1])
                else:
                    out.append(x)
        elif k == "ext_as_reserved":
            out.append(("ext",))
        elif k == "desc":
            out.append(("prim", "deschdr"))
            for x in spec_tokens(it[2], A, fixed, side):
                if x[0] == "res":
                    push_res(x[1])
                else:
                    out.append(x)
    return out


def flatten_desc(toks):
    """descriptor sub-structures of the library side: expand write_desc/read_desc inlines in place"""
    out = []
    for t in toks:
        if t[0] == "inline" and t[1] in ("write_desc", "read_desc"):
            out.extend(flatten_desc(list(t[4])))
        else:
            out.append(t)
    return out


def lib_tokens(toks, side, child_types_only=True):
    c = L2.canon(flatten_desc(toks), side)
    out = []
    for t in c:
        if t[0] == "children":
            out.append(("children", frozenset(ty for ty, _ in t[1])))
        elif t[0] == "res" and t[1] == 1 and out and out[-1][0] == "b" and side == "w":
            out[-1] = ("bz", out[-1][1])       # byte run followed by its NUL terminator
        else:
            out.append(t)
    return out


def diff_spec(lib, spec, side):
    """first difference between library tokens and specification tokens (children: lib subset of spec)"""
    lib = list(lib)
    spec = list(spec)
    # trailing reserved bytes written by the encoder are compared; on the decoder side a trailing reserved run may be
    # skipped by the final reposition
    if side == "r":
        while spec and spec[-1][0] == "res" and len(spec) > len(lib):
            spec.pop()
    for i in range(max(len(lib), len(spec))):
        a = lib[i] if i < len(lib) else None
        b = spec[i] if i < len(spec) else None
        if a is None and b is not None and b[0] == "children":
            continue
        if a is not None and a[0] == "children" and b is not None and b[0] == "children":
            extra = a[1] - b[1]
            if extra:
                return "[%d]: child types %s are not children of this box in the specification (%s)" % (i, sorted(extra), sorted(b[1]))
            continue
        if a is None or b is None:
            return "[%d]: library has %s, specification has %s" % (i, a, b)
        if a[0] == "res" and b[0] == "f" and b[2] == "count" and a[1] == b[1]:
            continue
        if side == "r" and a[0] == "b" and b[0] == "bz":
            a = ("bz", a[1])       # the decoder reads the string together with its terminator
        if a[0] != b[0]:
            return "[%d]: library %s vs specification %s" % (i, a, b)
        if a[0] == "f":
            if a[1] != b[1]:
                return "[%d]: field width: library %d bytes (%s), specification %d bytes (%s)" % (i, a[1], a[2], b[1], b[2])
            if not L2.role_eq(a[2], b[2]):
                return "[%d]: %d-byte field: library carries '%s', specification places '%s' here" % (i, a[1], a[2], b[2])
        elif a[0] == "res":
            if a[1] != b[1]:
                return "[%d]: reserved run: library %s bytes, specification %s bytes" % (i, a[1], b[1])
        elif a[0] in ("b", "cstr", "bz"):
            if not L2.role_eq(a[1], b[1]):
                return "[%d]: byte run: library '%s', specification '%s'" % (i, a[1], b[1])
        elif a[0] == "rep":
            d = diff_spec(list(a[2]), list(b[2]), side)
            if d:
                return "[%d].rep%s" % (i, d)
    return None


def run(fx, chk, tier):
    chk.rule("R1", "extracted write layout == specification layout and extracted read layout == specification layout, in every shape cell")
    chk.rule("R2", "box_type() of each box struct is the variant carrying the registered four-character code")
    chk.rule("R3", "bit-packed bytes: encoder and decoder bit routing equal the specification's bit ranges and reserved values")
    chk.rule("R4", "32/64-bit header form selection and descriptor length encoding match the specifications")
    chk.rule("R6", "the size word of every box equals the number of bytes its layout writes, in every shape cell (C04 S1/S2 instances)")
    chk.rule("R5", "four-character-code, enum-code and packed-language conversions used by the encoders/decoders equal the registered tables (C16 R1/R2/R3/R5 instances)")
    chk.assume("spec/layouts.json, spec/bits.json, spec/fourcc.json were written from the standards; entries marked unverified only produce notes")
    not_compared = set()
    ms = c04.models(fx)
    chk.floor("R1", "box types with a specification entry", len([m for m in ms.values() if m.s in SPEC]), 44)
    for ty, m in sorted(ms.items()):
        s = m.s
        sp = SPEC.get(s)
        if sp is None:
            chk.note("%s has no entry in spec/layouts.json" % s)
            continue
        adt = fx.adts.get(ty)
        # ---------------- R2
        if m.ft is not None:
            variant = box_type_variant(fx, m.ft)
            want = sp["code"]
            have = CODES["box_types"].get(variant or "", None)
            chk.require(variant is not None and have == want, "R2", s, "%s -> BoxType::%s ('%s')" % (s, variant, want),
                        "%s::box_type() returns BoxType::%s, whose code is %r; the registered code of this box is %r" % (s, variant, have, want), site_of(m.ft))
        if c04.LEVELS.get(s, 1) >= 3:
            chk.note("%s: layout not compared (%s)" % (s, c04.LEVEL_REASON.get(s, "")))
            continue
        # ---------------- R1
        if c04.LEVELS.get(s, 1) >= 2:
            chk.note("%s: field-level layout not compared with the specification (%s)" % (s, c04.LEVEL_REASON.get(s, "")))
            chk.trust("rung >= 2: %s layout not compared with the specification -- %s" % (s, c04.LEVEL_REASON.get(s, "")))
            continue
        fields = set()
        if adt and adt["kind"] == "Struct":
            fields = {f["name"] for f in adt["variants"][0]["fields"]}

        def shared(atom):
            var = re.split(r"==|&0x|@|>|<", atom.replace("some(", "").replace("empty(", "").rstrip(")"))[0]
            return var.split(".")[0] in fields or var in ("self",) or atom in {v[0] for v in m.cp.values()}
        L2.set_fixed(c04.fixed_of(adt))
        groups = {}
        for cell in m.cells:
            key = tuple(sorted((k, v) for k, v in cell["A"].items() if shared(k)))
            groups.setdefault(key, []).append(cell)
        wbad = rbad = None
        ncell = 0
        for key, cells in sorted(groups.items()):
            live = [c for c in cells if c.get("w_ok", True) and c.get("r_ok", True)]
            if not live:
                continue
            ncell += len(live)
            okw = okr = False
            gw = gr = None
            for cell in live:
                A = cell["A"]
                full = sp["full"] and not (sp["layout"] and sp["layout"][0][0] == "ext_as_reserved")
                st = ([("ext",)] if full else []) + spec_tokens(sp["layout"], A, None, "w")
                d = diff_spec(lib_tokens(cell["w"], "w"), st, "w")
                if d is None:
                    okw = True
                elif gw is None:
                    gw = (A, d)
                st = ([("ext",)] if full else []) + spec_tokens(sp["layout"], A, None, "r")
                d = diff_spec(lib_tokens(cell["r"], "r"), st, "r")
                if d is None:
                    okr = True
                elif gr is None:
                    gr = (A, d)
            if not okw and wbad is None:
                wbad = gw
            if not okr and rbad is None:
                rbad = gr
        unver = "unverified" in (sp.get("note") or "")
        for side, bad, fn in (("write", wbad, m.fw), ("read", rbad, m.fr)):
            if bad is not None:
                u = c04.model_vocab_issue(fx, m, adt, side[0])
                if u:
                    chk.note("%s %s layout not compared with the specification (the extraction contains `%s`, which is outside the layout vocabulary)" % (s, side, u))
                    chk.ok("R1", "%s|%s" % (s, side), "not compared: `%s` is outside the layout vocabulary" % u, site_of(fn))
                    not_compared.add(s)
                    continue
            if bad is not None and unver:
                chk.note("%s %s layout differs from an unverified specification entry in cell %s: %s" % (s, side, c04.cell_str(bad[0]), bad[1]))
                chk.ok("R1", "%s|%s" % (s, side), "not compared strictly (specification entry marked unverified)", site_of(fn))
                continue
            chk.require(bad is None, "R1", "%s|%s" % (s, side), "%s layout == %s in %d cells" % (side, sp["source"], ncell),
                        "%s: %s_box does not follow %s in cell %s: %s" % (s, side, sp["source"], c04.cell_str(bad[0]), bad[1]) if bad else "", site_of(fn))
    chk.analysed["boxes_not_compared"] = sorted(not_compared)
    chk.floor("R1", "box types compared with the specification", len([m_ for m_ in ms.values() if m_.s in SPEC]) - len(not_compared), 40)
    r3(fx, chk, ms)
    r4(fx, chk)
    # ---------------- R5: conversions the layouts are written through (instances owned by C16, re-evaluated here)
    import importlib
    import report
    c16 = importlib.import_module("c16")
    s16 = report.Check("C16")
    s16.finish = lambda *a, **k: 0
    c16.run(fx, s16, tier)
    n5 = 0
    for o in s16.obligations:
        r = o["rule"]
        if r.split(".")[0] not in ("R1", "R2", "R3", "R5") or "text-lossy" in o["key"]:
            continue       # R4 fixed-point value() and the lossy Display of FourCC are not wire-format questions
        n5 += 1
        key = "C16:%s|%s" % (r, o["key"])
        if o["ok"]:
            chk.ok("R5", key, o["how"], o["site"])
        else:
            chk.bad("R5", key, o["how"], o["site"], o.get("detail"))
    chk.floor("R5", "conversion-table obligations", n5, 60)
    # ---------------- R6: the size word.  The first field of every box on the wire is its own length: the header written by
    # write_box must carry box_size(), and box_size() must equal the bytes the layout writes in every shape cell
    # (instances owned by C04 S1/S2, re-evaluated here)
    s4 = report.Check("C04")
    s4.finish = lambda *a, **k: 0
    c04.run(fx, s4, tier)
    n6 = 0
    for o in s4.obligations:
        r = o["rule"]
        if r.split(".")[0] not in ("S1", "S2"):
            continue
        n6 += 1
        key = "C04:%s|%s" % (r, o["key"])
        if o["ok"]:
            chk.ok("R6", key, o["how"], o["site"])
        else:
            chk.bad("R6", key, o["how"], o["site"], o.get("detail"))
    chk.floor("R6", "size-word obligations", n6, 90)
    # ---------------- R7: the 64-bit size-header form decodes like the compact one (instances owned by C12)
    from packs_common import compose
    r8(fx, chk)
    chk.rule("R7", "a box whose header uses the 64-bit size form decodes identically: header constants and every advance past a child are based on the position after its header (C12 R4/R5 instances)")
    compose(fx, chk, tier, "R7", "C12", ["R4", "R5"], floor=25, what="64-bit header obligations")
    return chk.finish(
        "other",
        "Write and read layouts of %d box types (extracted from HIR) are compared with an independent table of the ISO/IEC 14496 family layouts in every shape cell; four-character codes, bit packing and header forms likewise. "
        "Not decided: semantic validity of field values." % len(ms),
    )


def decoder_only_cell(m, A):
    return False


def box_type_variant(fx, ft, depth=0):
    """BoxType variant returned by box_type() (following self.get_type())"""
    root = hirq.body_root(ft)
    e = tables.peel(root)
    if e.get("k") == "path" and (e.get("ctor_of") or e.get("def") or "").startswith("mp4box::BoxType"):
        return (e.get("ctor_of") or e.get("def")).split("::")[-1]
    if e.get("k") in ("mcall", "call") and depth < 3:
        fid = e.get("resolved") or e.get("fn")
        if fid in fx.fns:
            return box_type_variant(fx, fx.fns[fid], depth + 1)
    return None


# ------------------------------------------------------------------------------------------------
# R3 bit routing

def codec_fns(fx, struct, owner=None):
    """(write fn, read fn) holding the packing code of `struct`"""
    st = owner or struct
    for wt, wn, rt, rn in (("WriteBox<&mut W>", "write_box", "ReadBox<&mut R>", "read_box"), ("WriteDesc<&mut W>", "write_desc", "ReadDesc<&mut R>", "read_desc")):
        fw = fx.impl_fn(st, wt, wn)
        fr = fx.impl_fn(st, rt, rn)
        if fw and fr:
            return fw, fr
    return None, None


def write_lets(fn):
    lets = {}
    for n, _ in hirq.walk(hirq.body_root(fn)):
        if n.get("k") == "let" and "init" in n and n["pat"].get("k") == "bind":
            lets[n["pat"]["lid"]] = n["init"]
    return lets


def inline_all(e, lets, depth=0):
    if depth > 6 or e is None:
        return e
    if e.get("k") == "path" and e.get("res") == "local" and e.get("lid") in lets:
        return inline_all(lets[e["lid"]], lets, depth + 1)
    out = dict(e)
    for key in ("e", "l", "r", "recv", "i", "cond", "then", "else", "expr"):
        if isinstance(e.get(key), dict):
            out[key] = inline_all(e[key], lets, depth + 1)
    for key in ("args", "es"):
        if isinstance(e.get(key), list):
            out[key] = [inline_all(x, lets, depth + 1) for x in e[key]]
    return out


def packed_writes(fx, fw):
    """(width, value expression with local lets inlined) of every write atom in fw"""
    from layout import W_WIDTH, WTRAIT
    lets = write_lets(fw)
    out = []
    for n, _ in hirq.walk(hirq.body_root(fw)):
        if n.get("k") == "mcall" and n.get("trait") == WTRAIT and n["m"] in W_WIDTH and n["args"]:
            out.append((W_WIDTH[n["m"]], inline_all(n["args"][0], lets), n))
    return out


def r3(fx, chk, ms):
    n = 0
    for struct, entries in sorted(BITS["packed"].items()):
        for ent in entries:
            fw, fr = codec_fns(fx, struct, ent.get("owner_fns"))
            if not chk.anchor("R3", struct + " codec functions", fw and fr):
                continue
            n += 1
            fields = {f: (r[0], r[1], (r[2] if len(r) > 2 else 0)) for f, r in ent["fields"].items()}
            width = ent["width"] * 8
            ones = ent.get("ones", [])
            key = "%s|%s" % (struct, "+".join(sorted(fields)))
            # ---- encoder
            cands = []
            pw = packed_writes(fx, fw)
            for w, val, node in pw:
                if w != ent["width"]:
                    continue
                names = {field_name(m_) for m_, _ in hirq.walk(val) if m_.get("k") == "field"}
                if set(fields) <= names:
                    cands.append(([val], node))
            if not cands and ent["width"] > 1:
                # the word is written as consecutive single bytes
                for i in range(len(pw) - ent["width"] + 1):
                    grp = pw[i:i + ent["width"]]
                    if all(w == 1 for w, _, _ in grp):
                        names = set()
                        for _, val, _ in grp:
                            names |= {field_name(m_) for m_, _ in hirq.walk(val) if m_.get("k") == "field"}
                        if set(fields) <= names:
                            cands.append(([v for _, v, _ in grp], grp[0][2]))
                            break
            if not cands:
                chk.bad("R3", key + "|write", "no packed write of %s found in %s" % (sorted(fields), short(fw["id"])), site_of(fw))
            else:
                vals, node = cands[0]
                # every field is assumed to be within its wire width (values representable in the format)
                env = {f: BV(64, [("v", f, j) if j < (hi - lo + 1 + flo) and j >= flo else 0 for j in range(64)]) for f, (hi, lo, flo) in fields.items()}
                ev = Evaluator(fx, env=env, namer=lambda n_: field_name(n_))
                bits_ = []
                for v in reversed(vals):
                    bits_.extend(ev.ev(v).resize(8 * (1 if len(vals) > 1 else ent["width"])).bits)
                bv = BV(width, bits_)
                want = {}
                for f, (hi, lo, flo) in fields.items():
                    for j in range(hi - lo + 1):
                        want[lo + j] = (f, flo + j)
                got = bv.routing()
                bad_bits = []
                for pos in range(width):
                    if pos in want:
                        if got.get(pos) != want[pos]:
                            bad_bits.append("wire bit %d carries %s, specification: %s bit %d" % (pos, got.get(pos, bv.bits[pos]), want[pos][0], want[pos][1]))
                    else:
                        presc = 1 if pos in ones else 0
                        if bv.bits[pos] != presc:
                            bad_bits.append("reserved wire bit %d is written as %s, specification prescribes %d" % (pos, bv.bits[pos] if bv.bits[pos] in (0, 1) else got.get(pos), presc))
                chk.require(not bad_bits, "R3", key + "|write", "encoder routing == %s" % ent["source"],
                            "%s encoder packs %s wrongly (%s): %s" % (struct, sorted(fields), ent["source"], "; ".join(bad_bits[:4])), site_of(fw, node.get("line")))
            # ---- value ranges: what the API can put into a field must fit its wire bits
            for f, nbits in sorted((ent.get("value_bits") or {}).items()):
                rng = api_value_range(fx, struct, f)
                if rng is None:
                    continue
                chk.require(rng[1] < (1 << nbits), "R3", "%s|range|%s" % (key, f), "values up to %d fit %d bits" % (rng[1], nbits),
                            "%s.%s can hold values up to %d (%s) but the wire field has %d bits: larger values are silently truncated (the specification's escape coding is not implemented)" % (struct, f, rng[1], rng[2], nbits), site_of(fw))
            # ---- decoder
            if ent.get("decoder") == "not-extracted":
                chk.note("%s: decoder bit routing of %s not extracted (%s)" % (struct, sorted(fields), ent.get("decoder_reason", "")))
                chk.trust("decoder routing of %s.%s not checked: %s" % (struct, "+".join(sorted(fields)), ent.get("decoder_reason", "")))
                continue
            exprs = field_extractions(fx, fr, fields)
            for f, (hi, lo, flo) in sorted(fields.items()):
                e = exprs.get(f)
                if e is None:
                    chk.bad("R3", "%s|read|%s" % (key, f), "no extraction expression found for %s.%s in %s" % (struct, f, short(fr["id"])), site_of(fr))
                    continue
                ev = Evaluator(fx)
                bv = ev.ev(e)
                fwid = hi - lo + 1
                got = bv.routing()
                if bv.w == 1:
                    ok = isinstance(bv.bits[0], tuple) and bv.bits[0][0] == "v" and bv.bits[0][2] == lo
                else:
                    ok = all(got.get(flo + j, (None, None))[1] == lo + j for j in range(fwid)) and all(bv.bits[i] == 0 for i in range(bv.w) if not (flo <= i < flo + fwid))
                    ok = ok and len({v[0] for v in got.values()}) <= 1
                chk.require(ok, "R3", "%s|read|%s" % (key, f), "%s = wire bits %d..%d" % (f, hi, lo),
                            "%s decoder extracts %s as %r; the specification places it in wire bits %d..%d (%s)" % (struct, f, bv, hi, lo, ent["source"]), site_of(fr, e.get("line")))
    chk.floor("R3", "packed words", n, 10)


def api_value_range(fx, struct, field):
    """largest value the public API can store in struct.field: when the field is filled from an enum-typed
    configuration value (`x as u8`), the enum's largest discriminant"""
    for f in fx.fns.values():
        if short((f.get("impl") or {}).get("self_ty", "")) != struct or f["name"] != "new":
            continue
        for n, _ in hirq.walk(hirq.body_root(f)):
            if n.get("k") == "struct":
                for fl in n["fields"]:
                    if fl["name"] == field and fl["e"].get("k") == "cast":
                        src_ty = fl["e"]["e"].get("ty", "")
                        adt = fx.adts.get(src_ty)
                        if adt and adt["kind"] == "Enum":
                            ds = [v.get("discr") for v in adt["variants"] if v.get("discr") is not None]
                            if ds:
                                return (min(ds), max(ds), "enum %s" % short(src_ty))
    return None


def L2_names(role, val):
    names = set()
    if role.startswith("expr{"):
        names |= {x for x in role[5:-1].split(",") if x}
    s = LY.norm_expr(val)
    for x in re.findall(r"[A-Za-z_][A-Za-z0-9_.]*", s):
        names.add(x.split(".")[-1])
        if x.endswith(".len"):
            names.add(x.split(".")[-2])
    return names


def field_name(n):
    p = hirq.path_str(n)
    if p is None:
        return None
    return p.split(".")[-1]


def field_extractions(fx, fr, fields):
    """{field: expression} : for each packed field, the expression whose value initialises it in read_box, with local
    bindings substituted by their initialisers down to the byte read from the stream"""
    root = hirq.body_root(fr)
    # all lets (latest shadowing wins per lid) -> init
    lets = {}
    for n, _ in hirq.walk(root):
        if n.get("k") == "let" and "init" in n:
            p = n["pat"]
            if p.get("k") == "bind":
                lets[p["lid"]] = n["init"]
            elif p.get("k") == "tuple":
                tp = tuple_tail(n["init"])
                if tp is not None and len(tp) == len(p["subs"]):
                    for sp, e in zip(p["subs"], tp):
                        if sp.get("k") == "bind":
                            lets[sp["lid"]] = e
    out = {}
    for n, _ in hirq.walk(root):
        if n.get("k") == "struct":
            for f in n["fields"]:
                if f["name"] in fields and f["name"] not in out:
                    out[f["name"]] = inline_lets(f["e"], lets, 0)
    return out


def tuple_tail(e):
    e = tables.peel(e) if e.get("k") == "block" and not e.get("stmts") else e
    if e.get("k") == "tup":
        return e["es"]
    if e.get("k") == "block" and "expr" in e:
        t = tuple_tail(e["expr"])
        if t is not None:
            # substitute the block's own lets into the tail
            inner = {}
            for s in e.get("stmts", []):
                if s["k"] == "let" and s["pat"].get("k") == "bind" and "init" in s:
                    inner[s["pat"]["lid"]] = s["init"]
            return [inline_lets(x, inner, 0) for x in t]
    return None


def inline_lets(e, lets, depth):
    """replace local paths bound by let to their initialisers unless the initialiser is a stream read (then keep the
    local: it is the wire value)"""
    if depth > 6 or e is None:
        return e
    k = e.get("k")
    if k == "path" and e.get("res") == "local" and e.get("lid") in lets:
        init = lets[e["lid"]]
        core = init
        while core.get("k") in ("try", "cast"):
            core = core["e"]
        if core.get("k") == "mcall" and (core.get("trait") or "").endswith("ReadBytesExt"):
            return e          # the byte / word read from the stream
        return inline_lets(init, lets, depth + 1)
    out = dict(e)
    for key in ("e", "l", "r", "recv", "i", "cond", "then", "else", "expr"):
        if isinstance(e.get(key), dict):
            out[key] = inline_lets(e[key], lets, depth + 1)
    for key in ("args", "es"):
        if isinstance(e.get(key), list):
            out[key] = [inline_lets(x, lets, depth + 1) for x in e[key]]
    return out


def be_of_wire(t, read_no, lo, hi):
    """is term t the big-endian integer made of bytes lo..hi of the `read_no`-th transfer?"""
    b = sval.bv(t)
    n = hi - lo
    if b is None or b.w < 8 * n:
        return False
    want = {}
    for i in range(n):
        for k in range(8):
            want[(n - 1 - i) * 8 + k] = ("wire#%d[%d]" % (read_no, lo + i), k)
    return b.routing() == want and all(x == 0 for x in b.bits[8 * n:])


def header_read_form(fx, fn):
    """BoxHeader::read evaluated abstractly (sval): the checks look at the value it computes from the bytes of the
    first and second transfer, not at how the source slices or destructures its buffer"""
    bt = fx.impl_fn("BoxType", "From<u32>", "from")
    sv = sval.SVal(fx, keep=lambda fid: bt is not None and fid == bt["id"])
    t = sv.eval_fn(fn)
    if t[0] != "ite":
        return False, "no case distinction on the 32-bit size field (%s)" % sval.show(t)[:120]
    c = t[1]
    if not (c[0] == "cmp" and c[1] == "Eq" and be_of_wire(c[2], 1, 0, 4) and sval.const_val(c[3]) == 1):
        return False, "the 64-bit form is not selected by `big-endian u32 at bytes 0..4 == 1` (%s)" % sval.show(c)[:160]

    def header_of(x):
        if x[0] == "return":
            x = x[1]
        if x[0] == "variant" and x[1].split("::")[-1] == "Ok" and x[2] and x[2][0][0] == "struct" and x[2][0][1].endswith("BoxHeader"):
            return x[2][0][2]
        return None
    big, small = header_of(t[2]), header_of(t[3])
    if big is None or small is None:
        return False, "a branch of the size test does not produce a header"
    for tag, h in (("64-bit", big), ("32-bit", small)):
        nm = h.get("name")
        if not (nm and nm[0] == "conv" and be_of_wire(nm[2], 1, 4, 8)):
            return False, "%s form: the type is not BoxType::from(big-endian u32 at bytes 4..8)" % tag
    if not be_of_wire(small.get("size"), 1, 0, 4):
        return False, "32-bit form: size is not the big-endian u32 at bytes 0..4"
    sz = big.get("size")
    if not (sz and sz[0] == "table" and be_of_wire(sz[1], 2, 0, 8)):
        return False, "64-bit form: the size is not derived from the big-endian u64 of the 8 bytes that follow the type"
    if sv.reads != 2:
        return False, "%d transfers in BoxHeader::read (expected 8 bytes, then 8 more in the 64-bit form)" % sv.reads
    accept = []
    for pat, res, arm in sz[2]:
        if res[0] == "arith" and res[1] == "Sub" and res[2] == sz[1] and sval.const_val(res[3]) is not None:
            accept.append(sval.const_val(res[3]))
    if accept != [8]:
        return False, "64-bit form: stored size is largesize minus %s; the 8 largesize bytes are the only header bytes beyond the compact form" % (accept or "nothing")
    return True, ""


# ------------------------------------------------------------------------------------------------
def _pos_defs(body, l, depth=0, seen=None):
    """definition sites (blocks) of local `l` when every value it can hold is the result of `stream_position()?`; None otherwise"""
    from mir import op_place, strip_generics
    if seen is None:
        seen = set()
    if l in seen or depth > 6:
        return set()
    seen.add(l)
    ds = body.defs().get(l, [])
    if not ds:
        return None
    out = set()
    for b, i, kind, payload in ds:
        if kind == "call":
            if strip_generics(payload["callee"].get("path") or "") == "std::io::Seek::stream_position":
                out.add(b)
                continue
            if (payload["callee"].get("path") or "").endswith("Try::branch") and payload["args"]:
                pl = op_place(payload["args"][0])
                r = _pos_defs(body, pl["l"], depth + 1, seen) if pl is not None and not pl["p"] else None
                if r is None:
                    return None
                out |= r
                continue
            return None
        if kind != "assign" or payload["k"] != "use":
            return None
        pl = op_place(payload["a"])
        if pl is None:
            return None
        proj = pl["p"]
        if proj and not (len(proj) == 2 and isinstance(proj[0], dict) and proj[0].get("downcast") in ("Continue", "Ok") and isinstance(proj[1], dict) and proj[1].get("f") == "0"):
            return None
        r = _pos_defs(body, pl["l"], depth + 1, seen)
        if r is None:
            return None
        out |= r | {b}
    return out


def r8(fx, chk):
    """padded descriptor lengths: the header of a descriptor is 1 tag byte plus 1..4 length bytes, and the decoder's header
    reader returns only (tag, payload size), so how many bytes a child occupied is known only from the stream position.  Every
    loop over descriptor children must therefore be delimited by a cursor that holds nothing but stream positions and is
    re-read after the child in every iteration."""
    import loops as LP
    from mir import body_of, callee_path, op_place
    chk.rule("R8", "loops over descriptor children are delimited by the stream position re-read after each child (the length prefix may be padded: its size is not derivable from the payload size)")
    rd = [f for f in fx.fns.values() if f["name"] == "read_desc" and f["kind"] == "Fn"]
    if not rd:
        return
    hid = rd[0]["id"]
    nloops = 0
    for fid, fn in sorted(fx.fns.items()):
        body = body_of(fn)
        if body is None or fid == hid:
            continue
        hblocks = [b for b, t in body.calls() if callee_path(t["callee"]) == hid]
        if not hblocks:
            continue
        ls = LP.inventory(fx, fid)
        for H in hblocks:
            inl = [L for L in ls if H in L.blocks]
            if not inl:
                continue
            L = min(inl, key=lambda x: len(x.blocks))
            nloops += 1
            key = "%s|children" % fn_short(fid)
            site = site_of(fn, L.line)
            good, why = False, "the loop has no exit that compares a cursor with the parent's end"
            for b in sorted(L.blocks):
                t = body.term(b)
                if t["k"] != "switch" or all(x in L.blocks for x in [tt[1] for tt in t["targets"]] + [t["otherwise"]]):
                    continue
                dl = op_place(t["discr"])
                d = body.single_def(dl["l"]) if dl is not None and not dl["p"] else None
                if d is None or d[2] != "assign" or d[3]["k"] != "bin" or d[3].get("op") not in ("Lt", "Le", "Gt", "Ge", "Ne", "Eq"):
                    continue
                for side in ("a", "b"):
                    pl = op_place(d[3][side])
                    if pl is None or pl["p"]:
                        continue
                    defs = _pos_defs(body, pl["l"])
                    if defs is None:
                        why = "the exit test compares `%s`, which does not only hold stream positions" % (body.local_name(pl["l"]) or body.place_str(pl))
                        continue
                    refresh = [x for x in defs if x in L.blocks and body.can_reach(H, x) and all(body.dominates(x, la) or x == la for la in L.latches)]
                    if refresh:
                        good = True
                    else:
                        why = "the cursor is not re-read from the stream after the child in every iteration"
            chk.require(good, "R8", key, "exit test on a cursor re-read from stream_position() after each child",
                        "a padded descriptor length desynchronises this loop: %s" % why, site)
    chk.floor("R8", "loops over descriptor children", nloops, 2)


def r4(fx, chk):
    hw = [f for f in fx.fns.values() if f["id"].endswith("BoxHeader::write")]
    if chk.anchor("R4", "BoxHeader::write", hw):
        from packs_common import io_fallible_set
        from callgraph import callgraph
        iof = io_fallible_set(fx, callgraph(fx))
        L = LY.extract(fx, iof, hw[0])
        alts = [x for x in LY.walk(L) if x["n"] == "alt"]
        ok = False
        why = "no size test"
        # immutable locals of the function stand for their initialisers (`let fourcc: u32 = self.name.into()`)
        lets = {x["pat"]["name"]: x["init"] for x in LY.walk(L) if x["n"] == "let" and x.get("pat", {}).get("k") == "bind" and not x["pat"].get("mut") and x.get("init") is not None}
        for a in alts:
            atom, pol = LY.norm_cond(fx, a["cond"])
            if atom == "size>4294967295" and pol:
                big = [("w%d:%s" % (x["w"], LY.norm_expr(x["val"], lets))) for x in a["then"]["items"] if x["n"] == "atom"]
                small = [("w%d:%s" % (x["w"], LY.norm_expr(x["val"], lets))) for x in a["else"]["items"] if x["n"] == "atom"]
                ok = big == ["w4:1", "w4:name", "w8:size"] and small == ["w4:size", "w4:name"]
                why = "64-bit form %s, 32-bit form %s" % (big, small)
        chk.require(ok, "R4", "header-write", "size > u32::MAX => [1][type][u64 size], else [u32 size][type]", "BoxHeader::write does not select/lay out the two header forms as ISO/IEC 14496-12 4.2 prescribes: %s" % why, site_of(hw[0]))
    hr = [f for f in fx.fns.values() if f["id"].endswith("BoxHeader::read")]
    if chk.anchor("R4", "BoxHeader::read", hr):
        ok, why = header_read_form(fx, hr[0])
        chk.require(ok, "R4", "header-read", "size = BE buf[0..4], type = BE buf[4..8], size == 1 => 8 more bytes as BE u64, minus exactly those 8 bytes",
                    "BoxHeader::read does not decode the two header forms of ISO/IEC 14496-12 4.2: %s" % why, site_of(hr[0]))
    sl = [f for f in fx.fns.values() if f["name"] == "size_of_length" and f["kind"] == "Fn"]
    if chk.anchor("R4", "size_of_length", sl):
        tt = tables.threshold_table(fx, sl[0])
        if tt is None:
            # not written as a threshold table (range arms or an if-chain of comparisons with constants): outside the vocabulary
            chk.analysed.setdefault("not_compared", []).append("size_of_length")
        else:
            chk.require(tt == [(0x7F, 1), (0x3FFF, 2), (0x1FFFFF, 3), (None, 4)], "R4", "desc-length", "7-bit groups: <=0x7F:1, <=0x3FFF:2, <=0x1FFFFF:3, else 4",
                        "descriptor length thresholds are %s; 14496-1 8.3.3 uses 7 bits per length byte" % tt, site_of(sl[0]))
    rd = [f for f in fx.fns.values() if f["name"] == "read_desc" and f["kind"] == "Fn"]
    if chk.anchor("R4", "read_desc", rd):
        # features of the variable-length size decoder, read off the MIR (spelling, loop form and named constants do not matter):
        # inside one loop the accumulator is shifted left by 7, the byte is masked with 0x7F, the continuation bit 0x80 is
        # tested, and the loop runs at most four times
        from mir import body_of, op_const, op_place
        import loops as LP
        body = body_of(rd[0])
        feats = {"shl7": False, "mask7f": False, "test80": False, "bound4": False}
        ls = LP.inventory(fx, rd[0]["id"])
        for L in ls:
            f = {"shl7": False, "mask7f": False, "test80": False}
            for b_ in L.blocks:
                for st_ in body.stmts(b_):
                    if st_["k"] == "assign" and st_["rv"]["k"] in ("bin", "checked"):
                        op_, a_, b2_ = st_["rv"].get("op"), op_const(st_["rv"]["a"]), op_const(st_["rv"]["b"])
                        if op_ in ("Shl", "ShlUnchecked") and b2_ == 7:
                            f["shl7"] = True
                        if op_ == "BitAnd" and 0x7F in (a_, b2_):
                            f["mask7f"] = True
                        if op_ == "BitAnd" and 0x80 in (a_, b2_):
                            f["test80"] = True
                        # the continuation bit tested as a comparison of the byte with 0x80 / 0x7F
                        if op_ in ("Lt", "Ge") and 0x80 in (a_, b2_) or op_ in ("Gt", "Le") and 0x7F in (a_, b2_):
                            f["test80"] = True
            reads = any(t_["callee"].get("trait") in ("byteorder::io::ReadBytesExt", "std::io::Read") for _b, t_ in LP.calls_in(body, L.blocks))
            if not reads:
                continue          # not the loop that reads the length bytes
            feats.update(f)
            feats["loop"] = True
            # at most four iterations: a `0..4` range, or a counter initialised to a constant <= 4 and decremented in the loop
            consts = set()
            for b_ in range(body.n):
                for st_ in body.stmts(b_):
                    if st_["k"] != "assign":
                        continue
                    rv_ = st_["rv"]
                    if rv_["k"] == "agg" and "Range" in str(rv_.get("adt") or rv_.get("def") or rv_.get("ak") or ""):
                        vals = [op_const(o) for o in rv_.get("ops", [])]
                        if len(vals) == 2 and vals[0] == 0 and vals[1] is not None:
                            consts.add(vals[1])
                    if not st_["place"]["p"] and rv_["k"] == "use" and op_const(rv_["a"]) is not None and b_ not in L.blocks:
                        l_ = st_["place"]["l"]
                        for bb_ in L.blocks:
                            for s2 in body.stmts(bb_):
                                if s2["k"] == "assign" and s2["rv"]["k"] in ("bin", "checked") and s2["rv"].get("op") in ("Sub", "SubWithOverflow") and op_const(s2["rv"]["b"]) == 1:
                                    pl_ = op_place(s2["rv"]["a"])
                                    if pl_ is not None and pl_["l"] == l_:
                                        consts.add(op_const(rv_["a"]))
            feats["bound4"] = bool(consts) and max(consts) <= 4
        if not feats.pop("loop", False):
            chk.analysed.setdefault("not_compared", []).append("read_desc")
        else:
            chk.require(all(feats.values()), "R4", "desc-read", "up to 4 length bytes, 7 bits each, continuation bit 0x80",
                        "read_desc does not decode the variable-length size as up to four 7-bit groups with a continuation bit (missing: %s)" % ", ".join(k for k, v in feats.items() if not v), site_of(rd[0]))
