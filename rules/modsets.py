"""May-write summaries for `&mut` parameters (frame conditions for the abstract interpreter).

For every function and every parameter of type `&mut T`, the set of place prefixes below `*param` that the call may
modify: direct stores through the parameter (or through a local reference derived from it by `&mut (*p).a.b` chains),
every `&mut` borrow rooted at it (anything reachable through such a borrow may be written by whoever receives it), and
the translated summaries of local callees that receive the parameter or such a borrow.  By Rust's aliasing rules safe
code cannot write `*param` in any other way, so fields outside the returned prefixes keep their values across the call.
`None` = unknown (everything below the parameter may change)."""
from mir import body_of, callee_path, op_place, proj_key


def _is_mut_ref(ty):
    return ty.startswith("&mut ")


def compute(fx, topo, cyclic=()):
    """topo: callee-first order. -> {fid: {param local: set(prefix tuples) | None}}"""
    mods = {}
    for fid in topo:
        fn = fx.fns[fid]
        body = body_of(fn)
        if body is None:
            continue
        params = [l for l in range(1, body.argc + 1) if _is_mut_ref(body.locals[l]["ty"])]
        if not params:
            mods[fid] = {}
            continue
        if fid in cyclic or fn.get("unsafe_blocks"):
            mods[fid] = {p: None for p in params}
            continue
        # reference locals derived from a parameter: local -> (param, prefix)
        derived = {p: (p, ()) for p in params}
        changed = True
        rounds = 0
        while changed and rounds < 6:
            changed = False
            rounds += 1
            for b in range(body.n):
                for s in body.stmts(b):
                    if s["k"] != "assign" or s["place"]["p"]:
                        continue
                    l = s["place"]["l"]
                    rv = s["rv"]
                    src = None
                    if rv["k"] in ("ref", "rawptr") and rv.get("mut"):
                        src = root_of(rv["place"], derived)
                    elif rv["k"] in ("use", "cast"):
                        pl = op_place(rv["a"])
                        if pl is not None and not pl["p"] and pl["l"] in derived and _is_mut_ref(body.locals[l]["ty"]):
                            src = derived[pl["l"]]
                    if src is not None:
                        # a local assigned from two different sources is not tracked precisely: widen to the common parameter
                        if l in derived and derived[l] != src:
                            if derived[l][0] == src[0]:
                                common = ()
                                for x, y in zip(derived[l][1], src[1]):
                                    if x != y:
                                        break
                                    common += (x,)
                                if derived[l] != (src[0], common):
                                    derived[l] = (src[0], common)
                                    changed = True
                        elif l not in derived:
                            derived[l] = src
                            changed = True
        out = {p: set() for p in params}

        def add(root):
            if root is not None:
                out[root[0]].add(root[1])
        for b in range(body.n):
            for s in body.stmts(b):
                if s["k"] == "assign":
                    r = root_of(s["place"], derived, store=True)
                    add(r)
                    rv = s["rv"]
                    if rv["k"] in ("ref", "rawptr") and rv.get("mut"):
                        # the borrow itself: counted unless its only use is as an argument of a call handled below
                        if not _only_call_arg(body, s["place"]):
                            add(root_of(rv["place"], derived))
                elif s["k"] == "setdiscr":
                    add(root_of(s["place"], derived, store=True))
            t = body.term(b)
            if t["k"] == "call":
                add(root_of(t["dest"], derived, store=True))
                callee = callee_path(t["callee"])
                cm = mods.get(callee) if callee in fx.fns else None
                for i, a in enumerate(t["args"]):
                    pl = op_place(a)
                    if pl is None or pl["p"] or pl["l"] not in derived or not _is_mut_ref(body.locals[pl["l"]]["ty"]):
                        continue
                    root = derived[pl["l"]]
                    sub = cm.get(i + 1) if cm is not None else None
                    if cm is not None and (i + 1) in cm and sub is not None:
                        for q in sub:
                            out[root[0]].add(root[1] + q)
                    else:
                        out[root[0]].add(root[1])
            elif t["k"] == "drop":
                pass
        mods[fid] = {p: _minimal(v) for p, v in out.items()}
    return mods


def _minimal(prefixes):
    """drop prefixes that extend another one"""
    ps = sorted(prefixes, key=len)
    keep = []
    for p in ps:
        if not any(p[:len(k)] == k for k in keep):
            keep.append(p)
    return set(keep)


def _only_call_arg(body, place):
    """is the local (no projection) used exactly once, as a by-value argument of a call?"""
    if place["p"]:
        return False
    l = place["l"]
    uses = 0
    as_arg = 0
    for b in range(body.n):
        for s in body.stmts(b):
            if s["k"] == "assign":
                uses += _mentions(s["rv"], l)
                if s["place"]["l"] == l and s["place"]["p"]:
                    uses += 1
        t = body.term(b)
        if t["k"] == "call":
            for a in t["args"]:
                pl = op_place(a)
                if pl is not None and pl["l"] == l:
                    uses += 1
                    if not pl["p"]:
                        as_arg += 1
        elif t["k"] in ("switch",):
            pl = op_place(t["discr"])
            if pl is not None and pl["l"] == l:
                uses += 1
        elif t["k"] == "drop" and t["place"]["l"] == l:
            pass
    return uses == 1 and as_arg == 1


def _mentions(rv, l):
    n = 0
    for k in ("a", "b"):
        o = rv.get(k)
        if isinstance(o, dict):
            pl = op_place(o)
            if pl is not None and pl["l"] == l:
                n += 1
    for o in rv.get("ops", []) or []:
        pl = op_place(o)
        if pl is not None and pl["l"] == l:
            n += 1
    pl = rv.get("place")
    if isinstance(pl, dict) and pl.get("l") == l:
        n += 1
    return n


def root_of(place, derived, store=False):
    """(param, prefix) when the place lies below `*param`"""
    l = place["l"]
    if l not in derived:
        return None
    p = [proj_key(x) for x in place["p"]]
    if not p or p[0] != "deref":
        return None          # the reference local itself is (re)assigned, not its target
    base = derived[l]
    return (base[0], base[1] + tuple(p[1:]))
