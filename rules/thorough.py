"""The thorough tier.  Everything here is still static analysis of /repo's current working tree:

  1. the facts are rebuilt from the tree even when a cached fact file exists (guards against a stale cache);
  2. RELEASE PROFILE (C06, C07, C08, C13, C17): the pack is run a second time over facts extracted with overflow checks
     and debug assertions off.  There `a + b` wraps instead of asserting, so the abstract interpreter gives a wrapped
     result the full range of its type and every index, allocation size, loop bound or cast that consumed it must still
     be discharged.  Obligations of that run are reported under rule prefix `REL.` with key prefix `release|`;
     a release obligation that is the same site as a dev-profile violation (or known finding) is not reported twice;
  3. BYTEORDER (C10): the trusted statement "byteorder's ReadBytesExt/WriteBytesExt methods transfer only through
     read_exact / write_all and propagate their errors" is decided on byteorder's own MIR (facts for the dependency are
     extracted with RUSTC_WRAPPER);
  4. CLIPPY CROSS-REFERENCE (C06, C17): `cargo +nightly clippy` is run with the restriction lints that enumerate
     panic-capable constructs (arithmetic_side_effects, indexing_slicing, unwrap_used, expect_used, panic,
     unreachable, integer_division) and every warning inside a function of the analysed closure must correspond to an
     obligation of the MIR inventory at the same line: an independent enumeration of the same sites, used to show the
     inventory is complete (it never adds violations about /repo's behaviour by itself: an unmatched site is a defect
     of the inventory and fails closed)."""
import json
import os
import re
import shutil
import subprocess
import tempfile

import facts
import report

RELEASE = {"C06": 100, "C07": 230, "C08": 120, "C13": 30, "C17": 10}     # floors: obligations counted in the release run
CLIPPY = {"C06", "C17"}
CLIPPY_LINTS = ["arithmetic_side_effects", "indexing_slicing", "unwrap_used", "expect_used", "panic", "unreachable", "integer_division"]


def norm(k):
    return k.replace(").0", ")")


def run(pid, chk, pack):
    fx = facts.load(force=True)
    chk.analysed["facts"] = {"tree_key": fx.key, "bodies": len(fx.fns), "adts": len(fx.adts), "rebuilt": fx.built}
    real_finish = chk.finish
    saved = {}

    def defer(*a, **k):
        saved["a"], saved["k"] = a, k
        return 0
    chk.finish = defer
    pack.run(fx, chk, "thorough")
    chk.finish = real_finish
    if pid in RELEASE:
        release_pass(pid, chk, pack)
    if pid == "C10":
        byteorder_pass(chk)
    if pid in CLIPPY:
        clippy_pass(pid, fx, chk)
    selftest_note(pid, chk)
    if "a" not in saved:
        return real_finish("other", "pack did not finish")
    return real_finish(*saved["a"], **saved["k"])


# ------------------------------------------------------------------------------------------------ release profile
def release_pass(pid, chk, pack):
    fxr = facts.load(profile="release", force=True)
    sub = report.Check(pid, "thorough")
    sub.finish = lambda *a, **k: 0
    pack.run(fxr, sub, "thorough")
    dev_bad = {norm(v["key"]) for v in chk.violations}
    chk.rule("REL", "the same rules over release-profile MIR (overflow checks off: arithmetic wraps, wrapped values are full-range)")
    n = 0
    for o in sub.obligations:
        r = o["rule"]
        if ".floor" in r or ".anchor" in r:
            continue
        n += 1
        key = "release|" + o["key"]
        if o["ok"]:
            chk.ok("REL." + r, key, o["how"], o["site"])
        elif norm("%s|%s" % (r, o["key"])) in dev_bad:
            chk.ok("REL." + r, key, "same site as the dev-profile report %s|%s (reported once)" % (r, o["key"]), o["site"])
        else:
            chk.bad("REL." + r, key, "[release profile] " + o["how"], o["site"], o.get("detail"))
    chk.floor("REL", "obligations evaluated over release-profile MIR", n, RELEASE[pid])
    chk.analysed["release_profile"] = {"bodies": len(fxr.fns), "obligations": n}
    chk.assume("release profile = -C overflow-checks=off -C debug-assertions=off at mir-opt-level 0")


# ------------------------------------------------------------------------------------------------ byteorder
def byteorder_facts():
    """facts for the byteorder dependency, built from the registry source cargo resolves for /repo"""
    key = facts.tree_hash(facts.REPO, extra="byteorder")
    out = os.path.join(facts.CACHE, "byteorder-%s.json" % key)
    if os.path.exists(out):
        os.remove(out)
    facts.ensure_driver()
    tmp = tempfile.mkdtemp(prefix="mp4facts-bo-")
    try:
        env = dict(os.environ)
        env["LD_LIBRARY_PATH"] = os.path.join(facts._sysroot(), "lib") + ":" + env.get("LD_LIBRARY_PATH", "")
        env["RUSTFLAGS"] = "-Zmir-opt-level=0 -Awarnings"
        env["RUSTC_WRAPPER"] = facts.DRIVER
        env.pop("RUSTC_WORKSPACE_WRAPPER", None)
        env["MP4FACTS_OUT"] = os.path.join(tmp, "facts.json")
        env["MP4FACTS_CRATE"] = "byteorder"
        env["CARGO_TARGET_DIR"] = os.path.join(tmp, "target")
        env["CARGO_NET_OFFLINE"] = "true"
        p = subprocess.run(["cargo", "+nightly", "check", "--offline", "-j", "16", "--lib"], cwd=facts.REPO, env=env, stdout=subprocess.PIPE, stderr=subprocess.STDOUT, text=True)
        if p.returncode != 0 or not os.path.exists(env["MP4FACTS_OUT"]):
            return None, p.stdout[-3000:]
        os.makedirs(facts.CACHE, exist_ok=True)
        shutil.move(env["MP4FACTS_OUT"], out)
    finally:
        shutil.rmtree(tmp, ignore_errors=True)
    with open(out) as fh:
        doc = json.load(fh)
    os.remove(out)
    return doc, ""


def byteorder_pass(chk):
    from mir import Body, callee_path, strip_generics
    chk.rule("BO", "every ReadBytesExt / WriteBytesExt method of the byteorder version /repo builds against transfers only through Read::read_exact / Write::write_all and returns their error")
    doc, err = byteorder_facts()
    if doc is None or doc.get("crate") != "byteorder":
        chk.bad("BO.anchor", "byteorder facts", "could not extract facts for the byteorder dependency: %s" % (err or "wrong crate")[-400:])
        return
    nm = 0
    ncalls = 0
    for f in doc["fns"]:
        im = f.get("impl") or {}
        par = f.get("parent") or ""
        fid = f["id"]
        if not ("ReadBytesExt" in fid or "WriteBytesExt" in fid):
            continue
        if f.get("mir") is None:
            continue
        nm += 1
        body = Body(f)
        io_calls = []
        for b, t in body.calls():
            p = strip_generics(t["callee"].get("path") or "")
            if p.startswith("std::io::Read::") or p.startswith("std::io::Write::") or p.startswith("std::io::Seek::"):
                io_calls.append((b, t, p))
        for b, t, p in io_calls:
            ncalls += 1
            key = "%s|%s" % (fid.split("::")[-1] if "::" in fid else fid, p.split("::")[-1])
            okp = p in ("std::io::Read::read_exact", "std::io::Write::write_all")
            chk.require(okp, "BO", "prim|" + fid + "|" + p.split("::")[-1], "whole-transfer primitive", "byteorder's %s calls %s" % (fid, p), "")
            # the Result of the call flows to `?` (Try::branch) or is the return value
            dest = t["dest"]["l"]
            nxt = t.get("t")
            propagated = False
            if nxt is not None:
                for b2, t2 in body.calls():
                    if strip_generics(t2["callee"].get("path") or "") == "core::ops::try_trait::Try::branch" and any((a.get("move") or a.get("copy") or {}).get("l") == dest for a in t2["args"]):
                        propagated = True
                if dest == 0:
                    propagated = True
            chk.require(propagated, "BO", "err|" + fid + "|" + p.split("::")[-1], "result of the transfer is propagated with `?` or returned", "byteorder's %s drops the result of %s" % (fid, p), "")
    chk.floor("BO", "byteorder extension methods analysed", nm, 40)
    chk.floor("BO", "stream calls inside them", ncalls, 40)
    chk.analysed["byteorder"] = {"methods": nm, "stream_calls": ncalls, "version": doc.get("version")}


# ------------------------------------------------------------------------------------------------ clippy cross-reference
def clippy_sites():
    tmp = tempfile.mkdtemp(prefix="mp4clippy-")
    try:
        env = dict(os.environ, CARGO_TARGET_DIR=os.path.join(tmp, "target"), CARGO_NET_OFFLINE="true")
        args = ["cargo", "+nightly", "clippy", "--offline", "--lib", "--message-format=json", "-j", "16", "--", "-Aclippy::all"]
        for l in CLIPPY_LINTS:
            args += ["-W", "clippy::" + l]
        p = subprocess.run(args, cwd=facts.REPO, env=env, stdout=subprocess.PIPE, stderr=subprocess.PIPE, text=True)
        out = []
        for line in p.stdout.splitlines():
            try:
                m = json.loads(line)
            except ValueError:
                continue
            if m.get("reason") != "compiler-message":
                continue
            msg = m["message"]
            code = (msg.get("code") or {}).get("code") or ""
            if not code.startswith("clippy::"):
                continue
            for sp in msg.get("spans", []):
                if sp.get("is_primary"):
                    exp = sp.get("expansion")
                    out.append({"lint": code[8:], "file": sp["file_name"], "line": sp["line_start"], "end": sp["line_end"], "macro": bool(exp), "text": (sp.get("text") or [{}])[0].get("text", "").strip()[:120]})
        return out, p.returncode, p.stderr[-2000:]
    finally:
        shutil.rmtree(tmp, ignore_errors=True)


def clippy_pass(pid, fx, chk):
    chk.rule("XREF", "every clippy restriction-lint site (arithmetic, indexing, unwrap/expect, panic) inside the analysed closure is an obligation of the MIR inventory at the same source line")
    sites, rc, err = clippy_sites()
    if rc != 0 and not sites:
        chk.bad("XREF.anchor", "clippy run", "cargo clippy failed: %s" % err[-300:])
        return
    # function spans of the closure
    clo = getattr(chk, "closure_ids", None)
    if clo is None:
        chk.note("clippy cross-reference skipped: the pack did not publish its closure")
        return
    spans = []
    for fid in clo:
        fn = fx.fns.get(fid)
        sp = (fn or {}).get("body_span") or {}
        if sp.get("file"):
            spans.append((sp["file"], sp.get("line", 0), sp.get("end", sp.get("line", 0)), fid))
    ob_lines = {f: set(v) for f, v in getattr(chk, "construct_lines", {}).items()}
    for o in chk.obligations:
        m = re.match(r"(.+):(\d+)$", o.get("site") or "")
        if m and o["rule"].startswith("PF."):
            ob_lines.setdefault(m.group(1), set()).add(int(m.group(2)))
    # lines of blocks the abstract interpreter proves unreachable (e.g. a `panic!` arm for values no caller passes)
    dead_lines = {}
    eng = getattr(chk, "engine", None)
    if eng is not None:
        from mir import body_of
        for fid in clo:
            it = eng.res.interps.get(fid)
            fn = fx.fns.get(fid)
            body = body_of(fn) if fn else None
            if it is None or body is None:
                continue
            f = (fn.get("body_span") or {}).get("file")
            for b in body.reach:
                if b not in it.in_states:
                    ls = [s.get("line") for s in body.stmts(b)] + [body.term(b).get("line")]
                    dead_lines.setdefault(f, set()).update(l for l in ls if l)
    n = matched = 0
    unmatched = []
    for s in sites:
        inside = [fid for (f, a, b, fid) in spans if f == s["file"] and a <= s["line"] <= b]
        if not inside:
            continue
        n += 1
        lines = ob_lines.get(s["file"], set())
        if any(l in lines for l in range(s["line"], s["end"] + 1)) or any(abs(l - s["line"]) <= 2 for l in lines if s["line"] != s["end"]):
            matched += 1
        else:
            unmatched.append(s)
    chk.analysed["clippy_xref"] = {"sites_in_closure": n, "matched": matched, "lints": CLIPPY_LINTS}
    chk.floor("XREF", "clippy sites inside the closure", n, 100 if pid == "C06" else 30)
    for s in unmatched:
        key = "%s:%d|%s" % (s["file"], s["line"], s["lint"])
        why = explain_unmatched(s)
        if not why and any(l in dead_lines.get(s["file"], ()) for l in range(s["line"], s["end"] + 1)):
            why = "the construct lies in a block the abstract interpreter proves unreachable from the analysed entry points"
        if why:
            chk.ok("XREF", key, "no MIR obligation needed: " + why, "%s:%d" % (s["file"], s["line"]))
        else:
            chk.bad("XREF", key, "clippy::%s flags `%s` but the MIR inventory has no obligation on this line: the inventory misses a panic-capable construct" % (s["lint"], s["text"]), "%s:%d" % (s["file"], s["line"]))
    chk.ok("XREF", "matched", "%d of %d clippy sites coincide with MIR obligations" % (matched, n), "")


def explain_unmatched(s):
    """reasons a clippy site legitimately has no MIR panic obligation"""
    t = s["text"]
    if s["lint"] == "arithmetic_side_effects":
        # operations that cannot panic in MIR: float arithmetic, shifts by constants checked at compile time, ops on wider casts the compiler proves
        if re.search(r"\bf(32|64)\b", t):
            return "floating-point arithmetic does not panic"
    if s["lint"] == "integer_division":
        return "division by a non-zero constant truncates but does not panic (clippy::integer_division is about truncation)"
    return None


# ------------------------------------------------------------------------------------------------ self-test record
def selftest_note(pid, chk):
    p = os.path.join(report.VERIF, "selftest", "results.json")
    if not os.path.exists(p):
        return
    try:
        res = json.load(open(p))
    except ValueError:
        return
    mine = [r for r in res.get("results", []) if pid in r.get("checks", {})]
    if mine:
        caught = sum(1 for r in mine if r["kind"] == "mutant" and r["checks"][pid] == "caught")
        silent = sum(1 for r in mine if r["kind"] == "equivalent" and r["checks"][pid] == "silent")
        chk.note("self-test record (selftest/results.json, produced by selftest/run_all.py at tree %s): %d seeded/mutant changes caught, %d behaviour-preserving edits silent, %d unexpected" % (
            res.get("tree", "?"), caught, silent, sum(1 for r in mine if r["checks"][pid] not in ("caught", "silent"))))
