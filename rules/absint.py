"""P3: forward, flow-sensitive abstract interpretation over MIR.

Domain.  Every tracked *cell* (a place key: local + projection path) is bound to a *symbol*.  A symbol carries
  - an interval over the mathematical integers (clipped to the cell's type when it is stored),
  - a provenance set (which roots its value is computed from: parameters, constants, stream position, stream input,
    lengths, fields, call results)  -- the P4 "slice" in summarised form,
  - an optional definition (comparison / negation / variant test / reference target) used for branch refinement.
Copies share the symbol, so refining the compared temporary refines the variable it was copied from (the MIR idiom
`_14 = copy _2; _13 = Lt(move _14, const 16); switchInt(_13)`).  The state also keeps relational facts `a < b`,
`a <= b` between symbols and variant facts (`cell is Some/Ok/...`, `collection non-empty`).
Joins keep a symbol only when both predecessors agree on it; otherwise a fresh symbol (named by block and cell,
so the iteration is stable) gets the joined interval.  Widening to the type range after 3 visits of a loop head.

Soundness stance: values loaded from memory that may have been written through a `&mut` (callee received the
reference, or a store through a deref) are forgotten; cells under a shared reference (`&T`) are stable for the
duration of the body (no interior mutability: C15-R1).  Unknown callees return TOP of their type.
"""
import re
from mir import INT_TYPES, Body, body_of, callee_path, op_const, op_place, place_key, strip_generics

INF = float("inf")
U62 = 2 ** 62
LEN_MAX = 2 ** 32 - 1   # A-MEM: no in-memory collection has 2^32 or more elements


def ty_range(ty):
    return INT_TYPES.get(ty)


def is_int_ty(ty):
    return ty in INT_TYPES


class Sym:
    __slots__ = ("id", "lo", "hi", "prov", "defn", "ty")

    def __init__(self, sid, lo, hi, prov=frozenset(), defn=None, ty=None):
        self.id = sid
        self.lo = lo
        self.hi = hi
        self.prov = prov
        self.defn = defn
        self.ty = ty

    def __repr__(self):
        return "s%s[%s,%s]" % (self.id, self.lo, self.hi)


class State:
    """cells: key -> sym id ; syms: id -> (lo, hi) [path-sensitive part]; rel: set of (a, op, b) ; facts: set"""
    __slots__ = ("cells", "iv", "rel", "facts", "ub")

    def __init__(self):
        self.cells = {}
        self.iv = {}
        self.rel = set()
        self.facts = set()
        self.ub = {}      # sym -> provenance of an expression known to bound it from above (survives the bound's death)

    def copy(self):
        s = State()
        s.cells = dict(self.cells)
        s.iv = dict(self.iv)
        s.rel = set(self.rel)
        s.facts = set(self.facts)
        s.ub = dict(self.ub)
        return s


class Interp:
    def __init__(self, fx, body, param_iv=None, summaries=None, profile="dev", assumptions=None, hooks=None, field_inv=None):
        self.fx = fx
        self.body = body
        self.fn = body.fn
        self.param_iv = param_iv or {}       # local index -> (lo, hi)
        self.summaries = summaries or {}     # callee id -> {path tuple: (lo, hi, prov)}
        self.profile = profile
        self.loop_heads = {L["head"] for L in body.loops()}
        self.acc_loops = self._const_trip_accs()      # loop head -> constant trip count and its additive accumulators
        self.acc_bound = {}                  # (loop head, local) -> upper bound entry + N * sum of the invariant addends
        self._join_from = None
        self.syms = {}                       # id -> Sym (static info: prov/defn/ty); intervals live in State.iv
        self.next_id = 0
        self.join_syms = {}                  # (block, cellkey) -> sym id   (stable fresh symbols at joins)
        self.site_syms = {}                  # (block, idx, tag) -> sym id  (stable fresh symbols per program point)
        self.in_states = {}
        self.visits = {}
        self.obligations = []                # filled by final pass
        self.call_args = []                  # (block, callee id, [arg (lo,hi,prov)]) for interprocedural join
        self.call_cells = []                 # (block, callee id, {(param, suffix): (lo, hi)}) integer cells below reference arguments
        self.closure_caps = []               # (closure def id, {(capture index, by reference): (lo, hi, ty)}) at each creation site
        self.entry_keys = (param_iv or {}).get("#cellkeys") or {}
        self.post_cells = {}                 # (param, suffix) -> (lo, hi): integer cells below `&mut` parameters at every return
        self.entry_cells = (param_iv or {}).get("#cells") or {}
        self.ret_cells = {}                  # path -> (lo, hi, prov) joined over return blocks
        self.ok_posts = None                 # (param, suffix) -> (lo, hi, ub provenance, ty) on every Ok/Some-returning path
        self.hooks = hooks or {}
        self.field_inv = field_inv or {}     # (adt path, field) -> (lo, hi): invariant of crate-produced values
        self.mut_ref_locals = self._mut_ref_locals()
        self.collect = False
        self.ite = {}                        # joined sym -> {pivot sym: [(pivot interval, value interval)]}

    # ---- loops with a constant trip count ------------------------------------
    def _const_trip_accs(self):
        """{head: {"blocks", "N", "accs": {local: [addend operands]}}} for loops that iterate a fixed-size array by value or a
        range with constant bounds, and the integer locals that the loop only ever changes by `l = l + x` with x defined
        outside the loop (each add site outside nested loops).  After at most N iterations such a local is at most its
        value at loop entry plus N times the sum of the addends' upper bounds: widening is clamped to that (see join)."""
        import re as _re
        body = self.body
        out = {}
        loops = body.loops()
        for L in loops:
            blocks = L["body"]
            inner = set()
            for o in loops:
                if o is not L and o["body"] < blocks:
                    inner |= o["body"]
            n = None
            for b in sorted(blocks - inner):
                t = body.term(b)
                if t["k"] != "call" or not (t["callee"].get("path") or "").endswith("Iterator::next"):
                    continue
                if not all(body.dominates(b, la) for la in L["latches"]):
                    continue
                full = t["callee"].get("full") or ""
                m = _re.search(r"core::array::iter::IntoIter<.*, (\d+)(?:usize)?>", full)
                if m:
                    n = int(m.group(1))
                elif "core::ops::range::Range<" in full and t["args"]:
                    # next(&mut iter), iter = into_iter(Range { start: c0, end: c1 })
                    pl = op_place(t["args"][0])
                    for _ in range(4):
                        sd = body.single_def(pl["l"]) if pl is not None and not [x for x in pl["p"] if x != "deref"] else None
                        if sd is None:
                            break
                        if sd[2] == "assign" and sd[3]["k"] == "ref":
                            pl = sd[3]["place"]
                        elif sd[2] == "assign" and sd[3]["k"] in ("use", "cast"):
                            pl = op_place(sd[3]["a"])
                        elif sd[2] == "call" and (sd[3]["callee"].get("path") or "").endswith("into_iter") and sd[3]["args"]:
                            pl = op_place(sd[3]["args"][0])
                        elif sd[2] == "assign" and sd[3]["k"] == "agg" and "Range" in str(sd[3].get("adt") or ""):
                            cs = [op_const(o) for o in sd[3].get("ops", [])]
                            if len(cs) == 2 and cs[0] is not None and cs[1] is not None and cs[1] >= cs[0]:
                                n = cs[1] - cs[0]
                            break
                        else:
                            break
            if n is None or n > 64:
                continue
            defs = body.defs()
            accs = {}
            for l, ds in defs.items():
                ty = body.locals[l]["ty"]
                if ty not in ("u64", "u32", "usize", "u16", "u8"):
                    continue
                ins = [d for d in ds if d[0] in blocks]
                if not ins or len(ins) == len(ds):
                    continue          # not changed in the loop, or no value at entry
                xs = []
                ok = True
                for b, i, kind, payload in ins:
                    if b in inner or kind != "assign":
                        ok = False
                        break
                    rv = payload
                    add = None
                    if rv["k"] == "use":
                        src = op_place(rv["a"])
                        sd = body.single_def(src["l"]) if src is not None else None
                        if src is not None and len(src["p"]) == 1 and sd and sd[2] == "assign" and sd[3]["k"] in ("checked", "bin") and sd[3].get("op") in ("AddWithOverflow", "Add") and sd[0] in blocks:
                            add = sd[3]
                    elif rv["k"] in ("bin",) and rv.get("op") in ("Add", "AddUnchecked"):
                        add = rv
                    if add is None:
                        ok = False
                        break
                    x = None
                    for me, other in (("a", "b"), ("b", "a")):
                        pm = op_place(add[me])
                        for _ in range(3):
                            if pm is None or pm["p"] or pm["l"] == l:
                                break
                            sdm = body.single_def(pm["l"])
                            pm = op_place(sdm[3]["a"]) if sdm and sdm[2] == "assign" and sdm[3]["k"] == "use" else None
                        if pm is not None and not pm["p"] and pm["l"] == l:
                            x = add[other]
                    if x is None:
                        ok = False
                        break
                    if op_const(x) is None:
                        px = op_place(x)
                        for _ in range(3):
                            sdx = body.single_def(px["l"]) if px is not None and not px["p"] else None
                            if sdx and sdx[2] == "assign" and sdx[3]["k"] == "use" and sdx[0] in blocks and op_place(sdx[3]["a"]) is not None:
                                px = op_place(sdx[3]["a"])
                            else:
                                break
                        if px is None or px["p"] or any(d[0] in blocks for d in defs.get(px["l"], [])):
                            ok = False
                            break
                        x = {"copy": px}
                    xs.append(x)
                if ok and xs:
                    accs[l] = xs
            if accs:
                out[L["head"]] = {"blocks": blocks, "N": n, "accs": accs}
        return out

    # ---- symbols -----------------------------------------------------------
    def new_sym(self, key, lo, hi, prov=frozenset(), defn=None, ty=None):
        sid = self.site_syms.get(key)
        if sid is None:
            sid = self.next_id
            self.next_id += 1
            self.site_syms[key] = sid
            self.syms[sid] = Sym(sid, lo, hi, prov, defn, ty)
        else:
            sm = self.syms[sid]
            sm.prov = prov if prov else sm.prov
            sm.defn = defn
            sm.ty = ty or sm.ty
        return sid

    def iv(self, st, sid):
        v = st.iv.get(sid)
        if v is None:
            sm = self.syms[sid]
            return (sm.lo, sm.hi)
        return v

    def set_iv(self, st, sid, lo, hi):
        st.iv[sid] = (lo, hi)

    def _mut_ref_locals(self):
        out = set()
        for b in range(self.body.n):
            for s in self.body.stmts(b):
                if s["k"] == "assign" and s["rv"]["k"] in ("ref", "rawptr") and s["rv"].get("mut"):
                    out.add(s["rv"]["place"]["l"])
        return out

    def norm_target(self, st, key):
        """resolve `(*r).rest` to `target(r).rest` when r is a known reference (reborrow chains)"""
        for _ in range(4):
            if len(key) > 1 and key[1] == "deref":
                sid = st.cells.get((key[0],))
                if sid is not None:
                    d = self.syms[sid].defn
                    if d and d[0] == "refto":
                        key = d[1] + key[2:]
                        continue
            break
        return key

    # ---- cell access --------------------------------------------------------
    def local_ty(self, l):
        return self.body.locals[l]["ty"]

    def stable_root(self, key):
        """is this cell under a shared reference parameter / shared-ref local (never written during the body)?"""
        l = key[0]
        if not isinstance(l, int):
            return True
        if len(key) > 1 and key[1] == "deref":
            t = self.local_ty(l)
            return t.startswith("&") and not t.startswith("&mut ")
        return False

    def read_place(self, st, pl, at):
        """sym id for reading a place (creating a TOP symbol bound to the cell when untracked)"""
        key = self.norm_target(st, place_key(pl))
        sid = st.cells.get(key)
        if sid is not None:
            return sid
        ty = pl["ty"]
        # projection of a tracked aggregate? (e.g. tuple field of with-overflow result)
        rng = ty_range(ty)
        lab = self.root_label(pl)
        prov = frozenset([lab if rng is not None else "S:" + lab])
        if rng is None:
            sid = self.new_sym(("rd", at, key), None, None, prov, None, ty)
        else:
            lo, hi = rng
            last = pl["p"][-1] if pl["p"] else None
            if isinstance(last, dict) and "f" in last and last.get("adt"):
                fi = self.field_inv.get((last["adt"], last["f"]))
                if fi is not None:
                    lo, hi = max(lo, fi[0]), min(hi, fi[1])
            sid = self.new_sym(("rd", at, key), lo, hi, prov, None, ty)
            st.iv[sid] = (lo, hi)
        # bind so that later reads on this path see the same symbol (only when the place is index-free)
        if not any(isinstance(p, str) and p.startswith("[_") for p in key[1:]):
            st.cells[key] = sid
        return sid

    def root_label(self, pl):
        l = pl["l"]
        if self.body.is_arg(l):
            if not pl["p"]:
                return "P%d" % l
            return "P%d%s" % (l, "".join(k for k in place_key(pl)[1:] if k != "deref"))
        nm = self.body.local_name(l)
        if pl["p"]:
            # a field read through a local (a `&mut` alias, an iterator item, a pattern binding): named after the struct and
            # field, not after the local, so that renaming the local or introducing an alias does not change the root
            flds = [x for x in pl["p"] if isinstance(x, dict) and "f" in x and x.get("adt")]
            if flds and isinstance(pl["p"][-1], dict) and "f" in pl["p"][-1] and pl["p"][-1].get("adt"):
                return "F:%s.%s" % (pl["p"][-1]["adt"].split("::")[-1].split("<")[0], pl["p"][-1]["f"])
            return "F:" + self.body.place_str(pl)
        return "L:" + (nm or "_%d" % l)

    def read_op(self, st, op, at):
        """(sym id or None, lo, hi, prov) of an operand"""
        c = op.get("const")
        if c is not None:
            v = op_const(op)
            if v is not None and c.get("ty") in INT_TYPES:
                return None, v, v, frozenset(["C"])
            rng = ty_range(c.get("ty", ""))
            if rng:
                return None, rng[0], rng[1], frozenset(["C"])
            return None, None, None, frozenset(["C"])
        pl = op_place(op)
        if pl is None:
            return None, None, None, frozenset()
        sid = self.read_place(st, pl, at)
        lo, hi = self.iv(st, sid)
        return sid, lo, hi, self.syms[sid].prov

    def kill(self, st, key):
        """forget the cell and everything below it"""
        n = len(key)
        for k in [k for k in st.cells if k[:n] == key]:
            del st.cells[k]
        for f in [f for f in st.facts if f[1][:n] == key or (f[0] == "implies" and isinstance(f[2], tuple) and f[2][:n] == key)]:
            st.facts.discard(f)

    def kill_local_indexed(self, st, l):
        for k in [k for k in st.cells if any(p == "[_%d]" % l for p in k[1:])]:
            del st.cells[k]

    def kill_mutable_memory(self, st, passed_mut_locals=()):
        """after a store through a pointer or a call that received &mut: forget everything reachable through &mut"""
        for k in list(st.cells):
            l = k[0]
            if len(k) > 1 and k[1] == "deref" and not self.stable_root(k):
                del st.cells[k]
        for f in list(st.facts):
            k = f[1]
            if len(k) > 1 and k[1] == "deref" and not self.stable_root(k):
                st.facts.discard(f)

    def bind(self, st, key, sid):
        self.kill(st, key)
        st.cells[key] = sid

    def copy_cells(self, st, src_key, dst_key):
        """dst := src (whole subtree of cells and facts)"""
        n = len(src_key)
        moved = [(k, v) for k, v in st.cells.items() if k[:n] == src_key]
        mfacts = [f for f in st.facts if f[1][:n] == src_key]
        self.kill(st, dst_key)
        for k, v in moved:
            st.cells[dst_key + k[n:]] = v
        for f in mfacts:
            st.facts.add((f[0], dst_key + f[1][n:]) + f[2:])

    # ---- arithmetic ------------------------------------------------------------
    @staticmethod
    def clip(lo, hi, ty):
        rng = ty_range(ty)
        if rng is None:
            return lo, hi
        if lo is None or hi is None or lo < rng[0] or hi > rng[1]:
            return rng
        return lo, hi

    @staticmethod
    def fits(lo, hi, ty):
        rng = ty_range(ty)
        return rng is not None and lo is not None and hi is not None and rng[0] <= lo and hi <= rng[1]

    def arith(self, op, alo, ahi, blo, bhi, ty):
        """mathematical interval of a op b (None = unknown)"""
        if None in (alo, ahi, blo, bhi):
            return None, None
        if op == "Add":
            return alo + blo, ahi + bhi
        if op == "Sub":
            return alo - bhi, ahi - blo
        if op == "Mul":
            c = [alo * blo, alo * bhi, ahi * blo, ahi * bhi]
            return min(c), max(c)
        if op in ("Div", "Rem"):
            if blo <= 0 <= bhi:
                # divisor may be zero: the result exists only when it is not; bound with |divisor| >= 1
                if op == "Div":
                    m = max(abs(alo), abs(ahi))
                    return (-m if alo < 0 or blo < 0 else 0), m
                m = max(abs(blo), abs(bhi))
                return (-(m - 1) if alo < 0 else 0), max(m - 1, 0)
            if op == "Div":
                c = [int(alo / blo) if False else _idiv(alo, blo), _idiv(alo, bhi), _idiv(ahi, blo), _idiv(ahi, bhi)]
                return min(c), max(c)
            m = max(abs(blo), abs(bhi))
            if alo >= 0:
                return 0, min(ahi, m - 1)
            return -(m - 1), m - 1
        if op == "BitAnd":
            if alo >= 0 and blo >= 0:
                return 0, min(ahi, bhi)
            if blo >= 0:
                return 0, bhi
            if alo >= 0:
                return 0, ahi
            return None, None
        if op in ("BitOr", "BitXor"):
            if alo >= 0 and blo >= 0:
                m = max(ahi, bhi)
                return 0, (1 << m.bit_length()) - 1
            return None, None
        if op == "Shl":
            if blo == bhi and alo >= 0 and 0 <= blo < 128:
                return alo << blo, ahi << blo
            return None, None
        if op == "Shr":
            if blo == bhi and 0 <= blo < 128:
                return alo >> blo, ahi >> blo
            if alo >= 0 and blo >= 0:
                return 0, ahi
            return None, None
        return None, None

    # ---- transfer: statements -------------------------------------------------------
    def note_closure(self, st, b, i, rv):
        """intervals of the integers a closure captures (by value, or by reference to a tracked cell) at its creation"""
        caps = {}
        for ci, o in enumerate(rv.get("ops", [])):
            pl = op_place(o)
            if pl is None:
                continue
            if pl["ty"].startswith("&mut "):
                continue          # the closure (or an earlier call of it) may change the captured variable
            if pl["ty"].startswith("&"):
                tgt = self.ref_target(st, o)
                sid = st.cells.get(tgt) if tgt is not None else None
                byref = True
            else:
                sid = st.cells.get(self.norm_target(st, place_key(pl)))
                byref = False
            if sid is None:
                continue
            lo, hi = self.iv(st, sid)
            rng = ty_range(self.syms[sid].ty or "")
            if lo is None or rng is None or (lo <= rng[0] and hi >= rng[1]):
                continue
            caps[(ci, byref)] = (lo, hi, self.syms[sid].ty)
        self.closure_caps.append((rv.get("def"), caps))

    def assign(self, st, b, i, s):
        pl = s["place"]
        rv = s["rv"]
        if self.collect and rv["k"] == "agg" and rv.get("ak") == "closure":
            self.note_closure(st, b, i, rv)
        key = self.norm_target(st, place_key(pl))
        at = (b, i)
        if "deref" in key[1:] and not self.stable_root(key):
            # store through a reference: forget aliased memory first (then bind the precise cell)
            self.kill_mutable_memory(st)
        # an assignment to a local used as an index invalidates cells indexed by it
        if not pl["p"]:
            self.kill_local_indexed(st, pl["l"])
        k = rv["k"]
        ty = pl["ty"]
        if k == "use":
            src = op_place(rv["a"])
            if src is not None:
                skey = self.norm_target(st, place_key(src))
                # whole-subtree copy (aggregates, options) + scalar symbol sharing
                if any(kk[:len(skey)] == skey for kk in st.cells) or any(f[1][:len(skey)] == skey for f in st.facts):
                    if skey != key:
                        self.copy_cells(st, skey, key)
                    if key in st.cells or not is_int_ty(ty):
                        return
                if is_int_ty(ty):
                    sid = self.read_place(st, src, at)
                    self.bind(st, key, sid)
                elif ty.startswith("&") and not any(isinstance(x, str) and x.startswith("[_") for x in skey):
                    # copy of a reference held in a place (`r = copy env.0`): `*r` is the same memory as `*(env.0)`
                    self.kill(st, key)
                    ns = self.new_sym(("refcopy", at), None, None, frozenset(), ("refto", skey + ("deref",), ty.startswith("&mut ")), ty)
                    st.cells[key] = ns
                else:
                    self.kill(st, key)
                return
            sid, lo, hi, prov = self.read_op(st, rv["a"], at)
            if lo is not None and is_int_ty(ty):
                nsid = self.new_sym(("k", at), lo, hi, prov, None, ty)
                self.kill(st, key)
                st.cells[key] = nsid
                st.iv[nsid] = (lo, hi)
            else:
                self.kill(st, key)
            return
        if k == "bin":
            op = rv["op"]
            asid, alo, ahi, aprov = self.read_op(st, rv["a"], at)
            bsid, blo, bhi, bprov = self.read_op(st, rv["b"], at)
            prov = aprov | bprov
            aty = rv.get("aty", "")
            if op.endswith("WithOverflow"):
                base = op[:-len("WithOverflow")]
                lo, hi = self.arith(base, alo, ahi, blo, bhi, aty)
                if base == "Sub" and lo is not None and asid is not None and bsid is not None:
                    if (bsid, "<", asid) in st.rel:
                        lo = max(lo, 1)
                    elif self.rel_le(st, bsid, asid):
                        lo = max(lo, 0)
                self.kill(st, key)
                ovf_possible = not self.fits(lo, hi, aty)
                vs = self.new_sym(("wo", at), None, None, prov, ("math", base, asid, bsid, alo, ahi, blo, bhi), aty)
                st.iv[vs] = (lo, hi)          # mathematical (unclipped) result; clipped when the assert passes
                fs = self.new_sym(("wof", at), 0, 1, prov, ("ovf", vs), "bool")
                st.iv[fs] = (0, 1) if ovf_possible else (0, 0)
                st.cells[key + (".0",)] = vs
                st.cells[key + (".1",)] = fs
                if self.profile == "release":
                    l2, h2 = self.clip(lo, hi, aty)
                    st.iv[vs] = (l2, h2)
                return
            if op in ("Eq", "Ne", "Lt", "Le", "Gt", "Ge"):
                res = _decide(op, alo, ahi, blo, bhi)
                vk = self.value_key(op, rv["a"], rv["b"], asid, bsid)
                cs = self.new_sym(("gvn",) + vk if vk else ("cmp", at), 0, 1, prov, ("cmp", op, asid, bsid, (alo, ahi), (blo, bhi)), "bool")
                prev = st.iv.get(cs) if vk else None
                st.iv[cs] = (res, res) if res is not None else (0, 1)
                if prev is not None and prev[0] == prev[1] and res is None:
                    st.iv[cs] = prev          # same pure expression already decided on this path
                # relational knowledge may decide it
                if res is None and asid is not None and bsid is not None:
                    r2 = self.decide_rel(st, op, asid, bsid)
                    if r2 is not None:
                        st.iv[cs] = (r2, r2)
                self.bind(st, key, cs)
                return
            base = op.replace("Unchecked", "")
            lo, hi = self.arith(base, alo, ahi, blo, bhi, aty)
            rty = ty if is_int_ty(ty) else aty
            nowrap = base in ("Add", "Sub") and lo is not None and self.fits(lo, hi, rty)
            if base == "Shl" and not self.fits(lo, hi, rty) and blo is not None and blo == bhi and ty_range(rty) and ty_range(rty)[0] == 0 and 0 <= blo < 64:
                # bits shifted out are dropped; the low `k` bits of the result are zero
                lo, hi = 0, ty_range(rty)[1] + 1 - (1 << blo)
            elif base in ("Add", "Sub", "Mul", "Shl") and not self.fits(lo, hi, rty):
                lo, hi = ty_range(rty) or (None, None)   # wrapping
            else:
                lo, hi = self.clip(lo, hi, rty)
            defn = ("bin", base, asid, bsid, (alo, ahi), (blo, bhi))
            vk = self.value_key(base, rv["a"], rv["b"], asid, bsid)
            ns = self.new_sym(("gvn",) + vk if vk else ("bin", at), lo, hi, prov, defn, rty)
            prev = st.iv.get(ns) if vk else None
            self.kill(st, key)
            if lo is not None:
                if prev is not None and prev[0] is not None:
                    lo, hi = max(lo, prev[0]), min(hi, prev[1])
                    if lo > hi:
                        lo, hi = prev
                st.iv[ns] = (lo, hi)
                st.cells[key] = ns
                # unchecked a + b / a - b that provably cannot wrap (release profile): same order facts as the
                # checked forms get when their overflow assert passes
                if nowrap and base == "Add":
                    if asid is not None and blo is not None and blo >= 0:
                        st.rel.add((asid, "<=", ns))
                    if bsid is not None and alo is not None and alo >= 0:
                        st.rel.add((bsid, "<=", ns))
                if nowrap and base == "Sub" and asid is not None and blo is not None and blo >= 0:
                    st.rel.add((ns, "<=", asid))
                # relational: x / c <= x ; x & m <= x ; x >> k <= x ; x % m < m
                if base in ("Div", "Shr", "BitAnd") and asid is not None and alo is not None and alo >= 0 and (blo is None or blo >= 0):
                    st.rel.add((ns, "<=", asid))
                if base == "Rem" and bsid is not None and blo is not None and blo > 0:
                    st.rel.add((ns, "<", bsid))
                if base == "Rem" and asid is not None and alo is not None and alo >= 0:
                    st.rel.add((ns, "<=", asid))
                if base == "Sub" and asid is not None and blo is not None and blo >= 0 and lo is not None and lo >= 0:
                    st.rel.add((ns, "<=", asid))
            return
        if k == "un":
            asid, alo, ahi, aprov = self.read_op(st, rv["a"], at)
            op = rv["op"]
            self.kill(st, key)
            if op == "Not" and rv.get("aty") == "bool":
                ns = self.new_sym(("not", at), 0, 1, aprov, ("not", asid), "bool")
                if alo is not None and alo == ahi:
                    st.iv[ns] = (1 - alo, 1 - alo)
                else:
                    st.iv[ns] = (0, 1)
                st.cells[key] = ns
            elif op == "Neg" and alo is not None:
                ns = self.new_sym(("neg", at), None, None, aprov, None, ty)
                st.iv[ns] = self.clip(-ahi, -alo, ty)
                st.cells[key] = ns
            elif op == "PtrMetadata":
                ns = self.new_sym(("len", at), 0, LEN_MAX, frozenset(["LEN"]), None, "usize")
                st.iv[ns] = (0, LEN_MAX)
                st.cells[key] = ns
            return
        if k == "cast":
            ck = rv["ck"]
            if ck.startswith("IntToInt"):
                asid, alo, ahi, aprov = self.read_op(st, rv["a"], at)
                to = rv["to"]
                if alo is not None and self.fits(alo, ahi, to):
                    if asid is not None:
                        self.bind(st, key, asid)      # lossless: same symbol, refinements carry over
                    else:
                        ns = self.new_sym(("cast", at), alo, ahi, aprov, None, to)
                        self.kill(st, key)
                        st.cells[key] = ns
                        st.iv[ns] = (alo, ahi)
                    return
                rng = ty_range(to)
                ns = self.new_sym(("cast", at), rng[0] if rng else None, rng[1] if rng else None, aprov, ("trunc", asid, rv["from"], to, (alo, ahi)), to)
                self.kill(st, key)
                if rng:
                    st.iv[ns] = rng
                    st.cells[key] = ns
                return
            # reference coercions keep pointing at the same thing
            src = op_place(rv["a"])
            if src is not None and (ck.startswith("PointerCoercion") or ck.startswith("PtrToPtr") or ck.startswith("Transmute") or ck.startswith("Subtype")):
                skey = place_key(src)
                if skey in st.cells and self.syms[st.cells[skey]].defn and self.syms[st.cells[skey]].defn[0] == "refto":
                    self.bind(st, key, st.cells[skey])
                    return
            self.kill(st, key)
            return
        if k == "ref" or k == "rawptr":
            tgt = self.norm_target(st, place_key(rv["place"]))
            ns = self.new_sym(("ref", at), None, None, frozenset(), ("refto", tgt, bool(rv.get("mut"))), ty)
            self.kill(st, key)
            st.cells[key] = ns
            return
        if k == "discr":
            src = self.norm_target(st, place_key(rv["place"]))
            ns = self.new_sym(("discr", at), None, None, frozenset(), ("discr", src, rv["place"]["ty"]), ty)
            rng = ty_range(ty)
            er = self.enum_range(rv["place"]["ty"])
            if er and rng:
                rng = (max(rng[0], er[0]), min(rng[1], er[1]))
            self.kill(st, key)
            st.cells[key] = ns
            if rng:
                st.iv[ns] = rng
            # known variant?
            for f in st.facts:
                if f[0] == "variant" and f[1] == src:
                    pass
            return
        if k == "agg":
            self.kill(st, key)
            ak = rv.get("ak")
            if ak == "adt":
                adt = rv["adt"]
                var = rv["variant"]
                a = self.fx.adts.get(adt)
                is_enum = (a is not None and a["kind"] == "Enum") or adt in ("core::option::Option", "core::result::Result", "core::ops::control_flow::ControlFlow")
                prefix = key + (("as " + var,) if is_enum else ())
                for fname, o in zip(rv["fields"], rv["ops"]):
                    self.store_operand(st, prefix + ("." + fname,), o, at)
                if is_enum:
                    st.facts.add(("variant", key, var))
            elif ak == "tuple":
                for idx, o in enumerate(rv["ops"]):
                    self.store_operand(st, key + (".%d" % idx,), o, at)
            elif ak == "closure":
                ns = self.new_sym(("clo", at), None, None, frozenset(["CALL:" + rv["def"]]), None, ty)
                st.cells[key] = ns
            elif ak == "array":
                pass
            return
        if k == "repeat":
            self.kill(st, key)
            return
        self.kill(st, key)

    def store_operand(self, st, key, o, at):
        src = op_place(o)
        if src is not None:
            skey = self.norm_target(st, place_key(src))
            if any(kk[:len(skey)] == skey for kk in st.cells) or any(f[1][:len(skey)] == skey for f in st.facts):
                self.copy_cells(st, skey, key)
                if key in st.cells:
                    return
            if is_int_ty(src["ty"]):
                st.cells[key] = self.read_place(st, src, at)
            return
        sid, lo, hi, prov = self.read_op(st, o, at)
        if lo is not None:
            c = o.get("const", {})
            ns = self.new_sym(("kst", at, key), lo, hi, prov, None, c.get("ty"))
            st.cells[key] = ns
            st.iv[ns] = (lo, hi)

    def value_key(self, op, a_op, b_op, asid, bsid):
        """identity of a pure binary expression by the identity of its operands (global value numbering): two
        evaluations of `flags & 0x100` on one path are the same symbol, so a refinement of the first is seen by the second"""
        def ident(o, sid):
            if sid is not None:
                return ("s", sid)
            c = o.get("const")
            if c is not None and c.get("val") is not None:
                return ("c", c.get("ty"), str(c["val"]))
            return None
        a = ident(a_op, asid)
        b = ident(b_op, bsid)
        if a is None or b is None:
            return None
        if op in COMMUTATIVE and repr(b) < repr(a):
            a, b = b, a          # `F & flags` and `flags & F` are one value
        return (op, a, b)

    # ---- relations ---------------------------------------------------------------------
    def rel_le(self, st, a, b, depth=0):
        """a <= b by recorded relations (transitive, bounded depth)"""
        if a == b:
            return True
        if (a, "<=", b) in st.rel or (a, "<", b) in st.rel:
            return True
        if depth >= 3:
            return False
        for (x, op, y) in st.rel:
            if x == a and y != b and self.rel_le(st, y, b, depth + 1):
                return True
        return False

    def decide_rel(self, st, op, a, b):
        if a == b:
            return {"Eq": 1, "Le": 1, "Ge": 1, "Ne": 0, "Lt": 0, "Gt": 0}[op]
        lt = (a, "<", b) in st.rel
        le = lt or (a, "<=", b) in st.rel
        gt = (b, "<", a) in st.rel
        ge = gt or (b, "<=", a) in st.rel
        if op == "Lt":
            return 1 if lt else (0 if ge else None)
        if op == "Le":
            return 1 if le else (0 if gt else None)
        if op == "Gt":
            return 1 if gt else (0 if le else None)
        if op == "Ge":
            return 1 if ge else (0 if lt else None)
        if op == "Eq":
            return 0 if (lt or gt) else None
        if op == "Ne":
            return 1 if (lt or gt) else None
        return None

    def refine_cmp(self, st, op, asid, bsid, aiv, biv, truth):
        """assume (a op b) == truth; returns False if infeasible"""
        if not truth:
            op = {"Eq": "Ne", "Ne": "Eq", "Lt": "Ge", "Ge": "Lt", "Gt": "Le", "Le": "Gt"}[op]
        alo, ahi = self.iv(st, asid) if asid is not None else aiv
        blo, bhi = self.iv(st, bsid) if bsid is not None else biv
        if None in (alo, ahi, blo, bhi):
            return True
        if op == "Lt":
            ahi2, blo2 = min(ahi, bhi - 1), max(blo, alo + 1)
            alo2, bhi2 = alo, bhi
        elif op == "Le":
            ahi2, blo2 = min(ahi, bhi), max(blo, alo)
            alo2, bhi2 = alo, bhi
        elif op == "Gt":
            alo2, bhi2 = max(alo, blo + 1), min(bhi, ahi - 1)
            ahi2, blo2 = ahi, blo
        elif op == "Ge":
            alo2, bhi2 = max(alo, blo), min(bhi, ahi)
            ahi2, blo2 = ahi, blo
        elif op == "Eq":
            alo2 = blo2 = max(alo, blo)
            ahi2 = bhi2 = min(ahi, bhi)
        else:  # Ne
            alo2, ahi2, blo2, bhi2 = alo, ahi, blo, bhi
            if blo == bhi:
                if alo == blo:
                    alo2 = alo + 1
                if ahi == blo:
                    ahi2 = ahi - 1
            if alo == ahi:
                if blo == alo:
                    blo2 = blo + 1
                if bhi == alo:
                    bhi2 = bhi - 1
        if alo2 > ahi2 or blo2 > bhi2:
            return False
        if asid is not None:
            st.iv[asid] = (alo2, ahi2)
        if bsid is not None:
            st.iv[bsid] = (blo2, bhi2)
        if asid is not None and bsid is not None:
            if op in ("Lt", "Le", "Eq"):
                self.note_ub(st, asid, bsid)
            if op in ("Gt", "Ge", "Eq"):
                self.note_ub(st, bsid, asid)
            if op == "Lt":
                st.rel.add((asid, "<", bsid))
            elif op == "Le":
                st.rel.add((asid, "<=", bsid))
            elif op == "Gt":
                st.rel.add((bsid, "<", asid))
            elif op == "Ge":
                st.rel.add((bsid, "<=", asid))
            elif op == "Eq":
                st.rel.add((asid, "<=", bsid))
                st.rel.add((bsid, "<=", asid))
        # propagate through definitions (x = y - c, x = y / c ...): one step back
        for sid in (asid, bsid):
            if sid is not None:
                self.back_propagate(st, sid)
                if self.ite:
                    self.apply_ite(st, sid)
        return True

    def note_ub(self, st, a, b):
        """a <= b was established: remember what b is computed from"""
        pb = st.ub.get(b) or self.syms[b].prov
        old = st.ub.get(a)
        if old is None or not _size_derived(old):
            st.ub[a] = pb

    def back_propagate(self, st, sid, depth=0):
        """a refinement of `sid` refines the symbols it was computed from, for invertible definitions"""
        if depth > 3:
            return
        d = self.syms[sid].defn
        if not d:
            return
        lo, hi = self.iv(st, sid)
        if lo is None:
            return
        if d[0] == "bin":
            _, op, a, b, aiv, biv = d
            if a is not None and biv[0] is not None and biv[0] == biv[1]:
                c = biv[0]
                alo, ahi = self.iv(st, a)
                if alo is None:
                    return
                if op == "Add":
                    n = (max(alo, lo - c), min(ahi, hi - c))
                elif op == "Sub":
                    n = (max(alo, lo + c), min(ahi, hi + c))
                elif op == "BitAnd" and lo > 0 and False:
                    n = (alo, ahi)
                else:
                    return
                if n[0] <= n[1] and n != (alo, ahi):
                    st.iv[a] = n
                    self.back_propagate(st, a, depth + 1)

    def assume_bool(self, st, sid, truth, depth=0):
        """assume the bool symbol has the given truth value; refine; return False if infeasible"""
        lo, hi = self.iv(st, sid)
        v = 1 if truth else 0
        if lo is not None and (v < lo or v > hi):
            return False
        st.iv[sid] = (v, v)
        d = self.syms[sid].defn
        if depth <= 6 and sid in self.ite:
            # a joined bool (`a && b`, `if c { x } else { false }`): the value selects the branch it can have come from
            for ps, cases in list(self.ite[sid].items()):
                piv = st.iv.get(ps)
                if piv is None or piv[0] is None or len(cases) < 2:
                    continue
                span_lo = min(pa[0] for pa, _ in cases)
                span_hi = max(pa[1] for pa, _ in cases)
                if piv[0] < span_lo or piv[1] > span_hi:
                    continue          # the recorded cases do not cover what the pivot may be here
                live = [pa for pa, va in cases if not (pa[1] < piv[0] or piv[1] < pa[0])]
                keep = [pa for pa, va in cases if va[0] <= v <= va[1] and not (pa[1] < piv[0] or piv[1] < pa[0])]
                if len(keep) == 1 and len(live) > 1:
                    nlo, nhi = max(piv[0], keep[0][0]), min(piv[1], keep[0][1])
                    if nlo <= nhi and (nlo, nhi) != tuple(piv):
                        if self.syms[ps].ty == "bool" and nlo == nhi:
                            if not self.assume_bool(st, ps, bool(nlo), depth + 1):
                                return False
                        else:
                            st.iv[ps] = (nlo, nhi)
        if not d or depth > 6:
            return True
        if d[0] == "cmp":
            _, op, a, b, aiv, biv = d
            return self.refine_cmp(st, op, a, b, aiv, biv, truth)
        if d[0] == "not":
            return self.assume_bool(st, d[1], not truth, depth + 1) if d[1] is not None else True
        if d[0] == "variantis":
            _, key, var, other = d
            if truth:
                self.learn_variant(st, key, var)
            elif other is not None:
                self.learn_variant(st, key, other)
            return True
        if d[0] == "isempty":
            _, key = d
            if truth:
                st.facts.add(("empty", key))
            else:
                st.facts.add(("nonempty", key))
                ls = st.cells.get(key + ("#len",))
                if ls is not None:
                    l0, h0 = self.iv(st, ls)
                    st.iv[ls] = (max(l0, 1), h0)
            return True
        if d[0] == "ovf":
            vs = d[1]
            if not truth:
                # no overflow: the mathematical result is inside the type
                lo, hi = self.iv(st, vs)
                ty = self.syms[vs].ty
                rng = ty_range(ty)
                if rng:
                    if lo is None:
                        st.iv[vs] = rng
                    else:
                        st.iv[vs] = (max(lo, rng[0]), min(hi, rng[1]))
                        if st.iv[vs][0] > st.iv[vs][1]:
                            return False
                # relation: a + b (b >= 0) >= a ; a - b (b>=0) <= a
                m = self.syms[vs].defn
                if m and m[0] == "math":
                    _, base, a, b2, alo, ahi, blo, bhi = m
                    if base == "Sub" and a is not None and blo is not None and blo >= 0:
                        st.rel.add((vs, "<=", a))
                        self.note_ub(st, vs, a)
                        if b2 is not None:
                            # a - b >= 0  =>  b <= a   (unsigned)
                            if rng and rng[0] == 0:
                                st.rel.add((b2, "<=", a))
                    if base == "Add" and a is not None and blo is not None and blo >= 0:
                        st.rel.add((a, "<=", vs))
                    if base == "Add" and b2 is not None and alo is not None and alo >= 0:
                        st.rel.add((b2, "<=", vs))
            return True
        return True

    # ---- transfer: terminators -------------------------------------------------------------
    def successors(self, st, b):
        """list of (succ block, state) after executing block b's terminator on state st"""
        t = self.body.term(b)
        k = t["k"]
        if k == "goto":
            return [(t["t"], st)]
        if k == "switch":
            return self.switch(st, b, t)
        if k == "assert":
            return self.do_assert(st, b, t)
        if k == "call":
            return self.call(st, b, t)
        if k == "drop":
            key = place_key(t["place"])
            return [(t["t"], st)]
        if k == "return":
            self.record_return(st)
            return []
        return []

    def switch(self, st, b, t):
        at = (b, "t")
        sid, lo, hi, prov = self.read_op(st, t["discr"], at)
        out = []
        vals = [v if not isinstance(v, str) else int(v) for v, _ in t["targets"]]
        defn = self.syms[sid].defn if sid is not None else None
        for (v, tgt) in t["targets"]:
            v = int(v) if isinstance(v, str) else v
            if lo is not None and not (lo <= v <= hi):
                continue
            s2 = st.copy()
            feasible = True
            if sid is not None:
                if t["dty"] == "bool":
                    feasible = self.assume_bool(s2, sid, bool(v))
                else:
                    s2.iv[sid] = (v, v)
                    if defn and defn[0] == "discr":
                        feasible = self.assume_discr(s2, defn, v)
                    else:
                        self.back_propagate(s2, sid)
                        if self.ite:
                            self.apply_ite(s2, sid)
            if feasible:
                out.append((tgt, s2))
        # otherwise
        s2 = st.copy()
        feasible = True
        if sid is not None and lo is not None:
            rem_lo, rem_hi = lo, hi
            # peel excluded values from the ends
            changed = True
            while changed and rem_lo <= rem_hi:
                changed = False
                if rem_lo in vals:
                    rem_lo += 1
                    changed = True
                if rem_hi in vals:
                    rem_hi -= 1
                    changed = True
            if rem_lo > rem_hi:
                feasible = False
            else:
                if t["dty"] == "bool" and rem_lo == rem_hi:
                    feasible = self.assume_bool(s2, sid, bool(rem_lo))
                else:
                    s2.iv[sid] = (rem_lo, rem_hi)
                    if defn and defn[0] == "discr":
                        feasible = self.assume_discr_not(s2, defn, vals)
                    else:
                        self.back_propagate(s2, sid)
        if feasible:
            out.append((t["otherwise"], s2))
        return out

    def enum_range(self, ty):
        a = self.fx.adts.get(ty.split("<")[0])
        if a and a["kind"] == "Enum":
            ds = [v.get("discr", v["idx"]) for v in a["variants"]]
            ds = [d for d in ds if d is not None]
            if ds:
                return (min(ds), max(ds))
        return None

    def variant_names(self, ty):
        if ty.startswith("core::option::Option<"):
            return ["None", "Some"]
        if ty.startswith("core::result::Result<"):
            return ["Ok", "Err"]
        if ty.startswith("core::ops::control_flow::ControlFlow<"):
            return ["Continue", "Break"]
        base = ty.split("<")[0]
        a = self.fx.adts.get(base)
        if a and a["kind"] == "Enum":
            # discriminant value -> name
            return {v.get("discr", v["idx"]): v["name"] for v in a["variants"]}
        return None

    def note_ok_posts(self, st, path, args, dest, at):
        """remember, as facts keyed by the call's result, what `Ok` will say about the arguments"""
        okp = (self.summaries.get("#okposts") or {}).get(path)
        if not okp:
            return
        for (pi, suffix), (lo, hi, ub, ty) in okp.items():
            if pi - 1 >= len(args):
                continue
            a = args[pi - 1]
            if not suffix:
                sid = self.read_op(st, a, at)[0]
            else:
                tgt = self.ref_target(st, a)
                sid = st.cells.get(tgt + suffix) if tgt is not None else None
                if sid is None and tgt is not None:
                    rng = ty_range(ty or "")
                    if rng is None:
                        continue
                    sid = self.new_sym(("okpost", at, pi, suffix), rng[0], rng[1], frozenset(["F:" + "".join(suffix)]), None, ty)
                    st.iv[sid] = rng
                    st.cells[tgt + suffix] = sid
            if sid is None:
                continue
            ubp = None
            if ub:
                # translate the callee's parameter roots into the provenance of the actual arguments
                ubp = set()
                for r in ub:
                    m_ = re.match(r"P(\d+)$", r)
                    if m_ and int(m_.group(1)) - 1 < len(args):
                        ubp |= set(self.read_op(st, args[int(m_.group(1)) - 1], at)[3])
                    else:
                        ubp.add(r)
            st.facts.add(("ok_refine", dest, (sid, lo, hi, frozenset(ubp) if ubp else None)))

    def learn_variant(self, st, key, var, depth=0):
        st.facts.add(("variant", key, var))
        if var == "Err":
            for f in list(st.facts):
                if f[0] == "err_refine" and f[1] == key:
                    sid_, lo_, hi_ = f[2]
                    cur = self.iv(st, sid_)
                    if cur[0] is not None and max(cur[0], lo_) <= min(cur[1], hi_):
                        st.iv[sid_] = (max(cur[0], lo_), min(cur[1], hi_))
        if depth > 8 or var not in ("Some", "Ok", "Continue"):
            return
        for f in list(st.facts):
            if f[1] != key:
                continue
            if f[0] == "ok_refine":
                sid_, lo_, hi_, ub_ = f[2]
                cur = self.iv(st, sid_)
                if cur[0] is not None:
                    nlo, nhi = max(cur[0], lo_), min(cur[1], hi_)
                    if nlo <= nhi:
                        st.iv[sid_] = (nlo, nhi)
                        if nlo == nhi and self.syms[sid_].ty == "bool" and (cur[0], cur[1]) != (nlo, nhi):
                            # `ensure(a <= b, ..)?` succeeded: the condition the caller computed holds
                            self.assume_bool(st, sid_, bool(nlo))
                if ub_ and not _size_derived(st.ub.get(sid_) or ()):
                    st.ub[sid_] = ub_
                continue
            if f[0] == "implies":
                if ("variant", f[2], f[3]) not in st.facts:
                    self.learn_variant(st, f[2], f[3], depth + 1)
            elif f[0] == "some_rel":
                st.rel.add(f[2])

    def assume_discr(self, st, defn, v):
        _, key, ty = defn
        names = self.variant_names(ty)
        if names is None:
            return True
        nm = names.get(v) if isinstance(names, dict) else (names[v] if 0 <= v < len(names) else None)
        if nm is None:
            return True
        for f in st.facts:
            if f[0] == "variant" and f[1] == key and f[2] != nm:
                return False
        self.learn_variant(st, key, nm)
        # `Some(i)` out of Range::next implies end > i >= start
        item = st.cells.get(key + ("as " + nm, ".0"))
        if item is not None:
            d = self.syms[item].defn
            if d and d[0] == "rangeitem":
                ilo, ihi = self.iv(st, item)
                elo, ehi = self.iv(st, d[1])
                if ilo is not None and elo is not None:
                    if ehi < ilo + 1:
                        return False
                    st.iv[d[1]] = (max(elo, ilo + 1), ehi)
        return True

    def assume_discr_not(self, st, defn, vals):
        _, key, ty = defn
        names = self.variant_names(ty)
        if names is None:
            return True
        allv = list(names.keys()) if isinstance(names, dict) else list(range(len(names)))
        rest = [x for x in allv if x not in vals]
        known = [f for f in st.facts if f[0] == "variant" and f[1] == key]
        if len(rest) == 1:
            nm = names[rest[0]]
            if known and known[0][2] != nm:
                return False
            st.facts.add(("variant", key, nm))
        elif known:
            nm = known[0][2]
            idx = [i for i in allv if names[i] == nm]
            if idx and idx[0] in vals:
                return False
        return True

    def do_assert(self, st, b, t):
        at = (b, "t")
        msg = t["msg"]
        sid, lo, hi, prov = self.read_op(st, t["cond"], at)
        want = 1 if t["expected"] else 0
        if self.collect:
            self.obligations.append(self.assert_obligation(st, b, t, sid, lo, hi, want))
        s2 = st.copy()
        feasible = True
        if sid is not None:
            feasible = self.assume_bool(s2, sid, bool(want))
        if not feasible:
            return []
        return [(t["t"], s2)]

    def assert_obligation(self, st, b, t, sid, lo, hi, want):
        msg = t["msg"]
        kind = msg["k"]
        ok = lo is not None and lo == hi == want
        detail = {}
        at = (b, "t")

        def desc(op):
            s, l, h, p = self.read_op(st, op, at)
            return {"expr": self.body.op_str(op), "cexpr": self.body.canon_op(op), "iv": [l, h], "prov": sorted(p) if p else []}
        if kind == "Overflow":
            detail = {"op": msg["op"], "a": desc(msg["a"]), "b": desc(msg["b"])}
            if msg["op"] == "Sub" and not ok:
                sa = self.read_op(st, msg["a"], at)
                sb = self.read_op(st, msg["b"], at)
                aty = self.op_ty(msg["a"])
                if sa[0] is not None and sb[0] is not None and (ty_range(aty) or (1, 1))[0] == 0 and self.rel_le(st, sb[0], sa[0]):
                    ok = True
                    detail["how"] = "relational: subtrahend <= minuend"
            if msg["op"] in ("Shl", "Shr"):
                # shift amount must be < bit width
                s, l, h, p = self.read_op(st, msg["b"], at)
                aty = self.op_ty(msg["a"])
                bits = {"u8": 8, "i8": 8, "u16": 16, "i16": 16, "u32": 32, "i32": 32, "u64": 64, "i64": 64, "usize": 64, "isize": 64, "u128": 128, "i128": 128}.get(aty)
                if bits and l is not None and 0 <= l and h < bits:
                    ok = True
        elif kind in ("DivisionByZero", "RemainderByZero"):
            # the assert message carries the dividend; the divisor is the operand compared with 0 in the condition
            detail = {"dividend": desc(msg["a"])}
            cpl = op_place(t["cond"])
            if cpl is not None and not cpl["p"]:
                sd = self.body.single_def(cpl["l"])
                if sd is not None and sd[2] == "assign" and sd[3]["k"] == "bin" and sd[3]["op"] == "Eq":
                    detail["divisor"] = desc(sd[3]["a"])
        elif kind == "BoundsCheck":
            detail = {"len": desc(msg["len"]), "index": desc(msg["index"])}
            si, il, ih, _ = self.read_op(st, msg["index"], at)
            sl, ll, lh, _ = self.read_op(st, msg["len"], at)
            if il is not None and ll is not None and il >= 0 and ih < ll:
                ok = True
            if si is not None and sl is not None and (si, "<", sl) in st.rel:
                ok = True
        elif kind == "OverflowNeg":
            detail = {"a": desc(msg["a"])}
        else:
            detail = {"kind": kind}
            ok = True if msg.get("other") else ok
        return {"kind": "assert", "what": kind + ("(%s)" % msg["op"] if kind == "Overflow" else ""), "block": b, "line": t.get("line"),
                "ok": bool(ok), "detail": detail, "exp": t.get("exp")}

    def op_ty(self, op):
        c = op.get("const")
        if c is not None:
            return c.get("ty", "")
        pl = op_place(op)
        return pl["ty"] if pl else ""

    # ---- calls ---------------------------------------------------------------------------
    def ref_target(self, st, op):
        """place key that a reference operand points to (following one level of `&x` temporaries)"""
        pl = op_place(op)
        if pl is None:
            return None
        key = place_key(pl)
        sid = st.cells.get(key)
        if sid is not None:
            d = self.syms[sid].defn
            if d and d[0] == "refto":
                return d[1]
        # a reference-typed local holding e.g. `&self.field`: treat `*local` as the target
        if pl["ty"].startswith("&"):
            return self.norm_target(st, key + ("deref",))
        return None

    def call(self, st, b, t):
        at = (b, "t")
        c = t["callee"]
        path = callee_path(c)
        decl = c.get("path")
        dest = place_key(t["dest"])
        dty = t["dest"]["ty"]
        args = t["args"]
        s2 = st.copy()
        # which args hand out mutable access?
        mut_targets = []
        for ai, a in enumerate(args):
            pl = op_place(a)
            if pl is None:
                continue
            if pl["ty"].startswith("&mut "):
                tgt = self.ref_target(s2, a)
                mut_targets.append((ai, tgt))
        if self.collect and path in self.fx.fns:
            self.call_args.append((b, path, [self.read_op(st, a, at)[1:] for a in args]))
            # integer cells below each reference argument: the callee's entry state (joined over call sites by the driver)
            cc = {}
            for ai, a in enumerate(args):
                pl = op_place(a)
                if pl is None or not pl["ty"].startswith("&"):
                    continue
                tgt = self.ref_target(st, a)
                if tgt is None:
                    continue
                n_ = len(tgt)
                for k_, sid_ in st.cells.items():
                    if len(k_) > n_ and k_[:n_] == tgt and not any(isinstance(x, str) and x.startswith("[_") for x in k_):
                        lo_, hi_ = self.iv(st, sid_)
                        rng_ = ty_range(self.syms[sid_].ty or "")
                        if lo_ is not None and rng_ is not None and (lo_ > rng_[0] or hi_ < rng_[1]):
                            cc[(ai + 1, k_[n_:])] = (lo_, hi_, self.syms[sid_].ty)
            self.call_cells.append((b, path, cc))
        if self.collect:
            ob = self.panic_call_obligation(st, b, t, path, decl, args)
            if ob is not None:
                self.obligations.append(ob)
        handled = self.call_transfer(s2, b, t, path, decl, dest, dty, args)
        # memory effects of the callee
        if mut_targets and handled not in ("pure", "range"):
            cmods = (self.summaries.get("#mods") or {}).get(path) if path in self.fx.fns else None
            cposts = (self.summaries.get("#posts") or {}).get(path) if path in self.fx.fns else None
            for ai, tgt in mut_targets:
                if tgt is not None:
                    # precise kill of the pointee; cells elsewhere under &mut are unaffected only if disjoint roots.
                    # With a may-write summary of the callee (modsets.py) only the prefixes it can modify are forgotten.
                    prefixes = cmods.get(ai + 1) if cmods is not None and (ai + 1) in cmods else None
                    roots = [tgt + q for q in prefixes] if prefixes is not None else [tgt]
                    for root in roots:
                        n = len(root)
                        for k in list(s2.cells):
                            below = k[:n] == root
                            above = root[:len(k)] == k and len(k) >= len(tgt)       # an aggregate cell that contains the modified part
                            if (below or above) and k != dest and k[:len(dest)] != dest:
                                del s2.cells[k]
                        for f in [f for f in s2.facts if f[1][:n] == root or (root[:len(f[1])] == f[1] and len(f[1]) >= len(tgt))]:
                            s2.facts.discard(f)
                    if cposts:
                        for (pl_, suffix), (lo_, hi_, ty_) in cposts.items():
                            if pl_ != ai + 1:
                                continue
                            key_ = tgt + suffix
                            sid_ = self.new_sym(("post", at, key_), lo_, hi_, frozenset(["CALL:" + path]), None, ty_)
                            s2.cells[key_] = sid_
                            s2.iv[sid_] = (lo_, hi_)
                else:
                    self.kill_mutable_memory(s2)
        if self.collect and self.hooks.get("call"):
            self.hooks["call"](self, st, b, t, path)
        if t.get("t") is None:
            return []
        return [(t["t"], s2)]

    def panic_call_obligation(self, st, b, t, path, decl, args):
        """obligation for a call to a callee that panics on some inputs (table PANICKING), with local discharge rules"""
        p = strip_generics(decl or "")
        at = (b, "t")
        kind = None
        for pat, k in PANICKING:
            if p == pat or (pat.endswith("*") and p.startswith(pat[:-1])):
                kind = k
                break
        if kind is None:
            return None
        ok = False
        how = ""
        detail = {"callee": p, "args": [self.body.op_str(a) for a in args][:3], "cargs": [self.body.canon_op(a) for a in args][:3]}
        if kind in ("unwrap_opt", "unwrap_res"):
            want = "Some" if kind == "unwrap_opt" else "Ok"
            src = op_place(args[0]) if args else None
            if src is not None:
                skey = self.norm_target(st, place_key(src))
                if ("variant", skey, want) in st.facts:
                    ok, how = True, "D-UNWRAP: value is known to be %s on every path reaching the call" % want
                sid = st.cells.get(skey)
                prov = self.syms[sid].prov if sid is not None else frozenset()
                detail["prov"] = sorted(prov)
        elif kind == "index":
            base = args[0]
            idx = args[1] if len(args) > 1 else None
            tgt = self.ref_target(st, base)
            bty = (op_place(base) or {}).get("ty", "")
            detail["base_ty"] = bty
            if idx is not None:
                ipl = op_place(idx)
                ity = ipl["ty"] if ipl else (idx.get("const") or {}).get("ty", "")
                alen = _array_len(bty)
                if is_int_ty(ity):
                    isid, ilo, ihi, _ = self.read_op(st, idx, at)
                    ls = st.cells.get(tgt + ("#len",)) if tgt is not None else None
                    if alen is not None and ihi is not None and 0 <= ilo and ihi < alen:
                        ok, how = True, "D-CONST: index in [%d,%d] < array length %d" % (ilo, ihi, alen)
                    elif ls is not None and isid is not None and (isid, "<", ls) in st.rel:
                        ok, how = True, "D-INDUCT: index < len() of the indexed collection"
                    elif ls is not None and ihi is not None and self.iv(st, ls)[0] is not None and ihi < self.iv(st, ls)[0]:
                        ok, how = True, "D-INT: index upper bound below the collection's minimum length"
                    detail["index"] = {"iv": [ilo, ihi]}
                elif ity.startswith("core::ops::range::Range") and ipl is not None:
                    ikey = self.norm_target(st, place_key(ipl))
                    s_ = st.cells.get(ikey + (".start",))
                    e_ = st.cells.get(ikey + (".end",))
                    slo, shi = self.iv(st, s_) if s_ is not None else (0 if "RangeTo" in ity else None, 0 if "RangeTo" in ity else None)
                    elo, ehi = self.iv(st, e_) if e_ is not None else (None, None)
                    detail["range"] = [[slo, shi], [elo, ehi]]
                    if "RangeFull" in ity:
                        ok, how = True, "D-CONST: full range"
                    elif alen is not None and ehi is not None and slo is not None and ehi <= alen and shi <= elo:
                        ok, how = True, "D-CONST: constant range within array length %d" % alen
                    elif alen is not None and "RangeFrom" in ity and shi is not None and shi <= alen:
                        ok, how = True, "D-CONST: range start within array length"
                    elif e_ is not None and tgt is not None:
                        ls = st.cells.get(tgt + ("#len",))
                        if ls is not None and ((e_, "<=", ls) in st.rel or (e_, "<", ls) in st.rel) and shi is not None and elo is not None and shi <= elo:
                            ok, how = True, "D-INDUCT: range end <= len()"
        elif kind == "bo_slice":
            need = {"read_u16": 2, "read_u24": 3, "read_u32": 4, "read_u48": 6, "read_u64": 8, "write_u16": 2, "write_u32": 4, "write_u64": 8}.get(p.split("::")[-1])
            tgt = self.ref_target(st, args[0]) if args else None
            if need and tgt is not None:
                ls = st.cells.get(tgt + ("#len",))
                if ls is not None and self.iv(st, ls)[0] is not None and self.iv(st, ls)[0] >= need:
                    ok, how = True, "D-INT: slice length >= %d" % need
        elif kind == "bo_range":
            bits = {"write_u24": 24, "write_i24": 23, "write_u48": 48, "write_i48": 47}.get(p.split("::")[-1])
            if bits and len(args) >= 2:
                _, l, h, pr = self.read_op(st, args[1], at)
                detail["value"] = {"iv": [l, h], "prov": sorted(pr) if pr else []}
                if l is not None and l >= 0 and h < (1 << bits):
                    ok, how = True, "D-INT: value in [%d,%d] fits %d bits" % (l, h, bits)
        elif kind == "panic":
            ok = False
        return {"kind": "call", "what": kind + ":" + p.split("::")[-1], "callee": p, "block": b, "line": t.get("line"), "ok": ok, "how": how,
                "detail": detail, "exp": t.get("exp")}

    def set_dest(self, st, dest, sub, lo, hi, prov, at, defn=None, ty=None):
        key = dest + sub
        ns = self.new_sym(("call", at, sub), lo, hi, prov, defn, ty)
        st.cells[key] = ns
        if lo is not None:
            st.iv[ns] = (lo, hi)
        return ns

    def call_transfer(self, st, b, t, path, decl, dest, dty, args):
        at = (b, "t")
        self.kill(st, dest)
        p = strip_generics(decl or "")
        last = p.split("::")[-1] if p else ""
        full = t["callee"].get("full") or ""
        # --- trivial local helper (straight-line, no calls, no branches): its value is an expression of the arguments;
        #     evaluating that expression here gives the result the same identity an inline spelling would have
        if path in self.fx.fns and not dest[1:]:
            tree = _trivial_expr(self.fx, path)
            if tree is not None:
                r = self.eval_tree(st, tree, args, at, 0)
                if r is not None and r[0] is not None:
                    self.kill(st, dest)
                    self.bind(st, dest, r[0])
                    self.note_ok_posts(st, path, args, dest, at)
                    return "pure"
        # --- local callee with a return summary
        if path in self.summaries:
            summ = self.summaries[path]
            for sub, (lo, hi, prov) in summ.items():
                if sub and sub[0] == "#fact":
                    continue
                pr = frozenset(["CALL:" + path])
                self.set_dest(st, dest, sub, lo, hi, pr, at, None, None)
            for sub in summ:
                if sub and sub[0] == "#fact":
                    st.facts.add(("variant", dest, sub[1]))
            self.note_ok_posts(st, path, args, dest, at)
            return "summary"
        # --- checked integer narrowing: Ok exactly when the value fits the target type
        if p == "core::convert::TryFrom::try_from" and len(args) == 1:
            m_tf = re.match(r"^<(\w+) as core::convert::TryFrom<(\w+)>>::try_from$", full)
            if m_tf and ty_range(m_tf.group(1)) and ty_range(m_tf.group(2)):
                tgt = ty_range(m_tf.group(1))
                asid, alo, ahi, aprov = self.read_op(st, args[0], at)
                lo_ = max(alo, tgt[0]) if alo is not None else tgt[0]
                hi_ = min(ahi, tgt[1]) if ahi is not None else tgt[1]
                if lo_ > hi_:
                    lo_, hi_ = tgt
                self.set_dest(st, dest, ("as Ok", ".0"), lo_, hi_, aprov or frozenset(), at, None, m_tf.group(1))
                if asid is not None:
                    src = ty_range(m_tf.group(2))
                    st.facts.add(("ok_refine", dest, (asid, tgt[0], tgt[1], None)))
                    if tgt[0] <= src[0]:
                        # the only way to fail is to be too large
                        st.facts.add(("err_refine", dest, (asid, tgt[1] + 1, src[1])))
                return "pure"
        # --- ? desugaring
        if p == "core::ops::try_trait::Try::branch":
            src = op_place(args[0])
            if src is not None:
                skey = place_key(src)
                aty = src["ty"]
                if aty.startswith("core::result::Result<"):
                    mapping = (("as Ok", "as Continue"),)
                    fvar = {"Ok": "Continue", "Err": "Break"}
                elif aty.startswith("core::option::Option<"):
                    mapping = (("as Some", "as Continue"),)
                    fvar = {"Some": "Continue", "None": "Break"}
                else:
                    mapping = ()
                    fvar = {}
                for a_, b_ in mapping:
                    n = len(skey) + 1
                    for k, v in list(st.cells.items()):
                        if k[:len(skey)] == skey and len(k) > len(skey) and k[len(skey)] == a_:
                            st.cells[dest + (b_,) + k[n:]] = v
                    for f in list(st.facts):
                        if f[1][:len(skey)] == skey and len(f[1]) > len(skey) and f[1][len(skey)] == a_:
                            st.facts.add((f[0], dest + (b_,) + f[1][n:]) + f[2:])
                for f in list(st.facts):
                    if f[0] == "variant" and f[1] == skey and f[2] in fvar:
                        st.facts.add(("variant", dest, fvar[f[2]]))
                if fvar:
                    st.facts.add(("implies", dest, skey, "Ok" if "Ok" in fvar else "Some"))
            return "pure"
        if last == "from_residual":
            if dty.startswith("core::result::Result<"):
                st.facts.add(("variant", dest, "Err"))
            elif dty.startswith("core::option::Option<"):
                st.facts.add(("variant", dest, "None"))
            return "pure"
        if last == "from_output":
            return "pure"
        # --- stream position (A-POS)
        if p in ("std::io::Seek::stream_position", "std::io::Seek::seek"):
            self.set_dest(st, dest, ("as Ok", ".0"), 0, U62, frozenset(["POS"]), at, None, "u64")
            return "io"
        tr = t["callee"].get("trait")
        if tr in ("byteorder::io::ReadBytesExt",):
            # Result<T, io::Error> with T from the stream: TOP of T, provenance IN
            inner = result_ok_ty(dty)
            rng = ty_range(inner) if inner else None
            if rng:
                self.set_dest(st, dest, ("as Ok", ".0"), rng[0], rng[1], frozenset(["IN"]), at, None, inner)
            return "io"
        # --- integer helpers
        m = num_method_raw(decl)
        if m is not None:
            ity, meth = m
            vals = [self.read_op(st, a, at) for a in args]
            if meth in ("checked_add", "checked_sub", "checked_mul", "checked_div", "checked_rem") and len(vals) == 2:
                base = {"checked_add": "Add", "checked_sub": "Sub", "checked_mul": "Mul", "checked_div": "Div", "checked_rem": "Rem"}[meth]
                lo, hi = self.arith(base, vals[0][1], vals[0][2], vals[1][1], vals[1][2], ity)
                rng = ty_range(ity)
                if lo is None:
                    lo, hi = rng
                lo, hi = max(lo, rng[0]), min(hi, rng[1])
                if lo > hi:
                    st.facts.add(("variant", dest, "None"))
                else:
                    ns = self.set_dest(st, dest, ("as Some", ".0"), lo, hi, vals[0][3] | vals[1][3], at, ("bin", base, vals[0][0], vals[1][0], (vals[0][1], vals[0][2]), (vals[1][1], vals[1][2])), ity)
                    if base == "Sub" and vals[0][0] is not None and rng[0] == 0:
                        st.rel.add((ns, "<=", vals[0][0]))
                        self.note_ub(st, ns, vals[0][0])
                        if vals[1][0] is not None:
                            st.facts.add(("some_rel", dest, (vals[1][0], "<=", vals[0][0])))
                    if base == "Add" and vals[0][0] is not None and vals[1][1] is not None and vals[1][1] >= 0:
                        st.rel.add((vals[0][0], "<=", ns))
                    if base == "Add" and rng[0] == 0 and vals[0][0] is not None and vals[1][0] is not None:
                        # a + b cannot overflow when this path knows b <= z - a (or a <= z - b) for a difference that was
                        # itself computed in the same unsigned type: then a + b <= z
                        for (x_, op_, y_) in list(st.rel):
                            if op_ not in ("<=", "<") or y_ not in self.syms:
                                continue
                            dd_ = self.syms[y_].defn
                            if not dd_ or dd_[0] not in ("bin", "math") or dd_[1] != "Sub" or self.syms[y_].ty != ity:
                                continue
                            if (x_ == vals[1][0] and dd_[3] == vals[0][0]) or (x_ == vals[0][0] and dd_[3] == vals[1][0]):
                                st.facts.add(("variant", dest, "Some"))
                                st.rel.add((ns, "<=", dd_[2])) if dd_[2] is not None else None
                                break
                return "pure"
            if meth in ("saturating_add", "saturating_sub", "saturating_mul", "wrapping_add", "wrapping_sub", "wrapping_mul") and len(vals) == 2:
                base = {"add": "Add", "sub": "Sub", "mul": "Mul"}[meth.split("_")[1]]
                lo, hi = self.arith(base, vals[0][1], vals[0][2], vals[1][1], vals[1][2], ity)
                rng = ty_range(ity)
                if lo is None or (meth.startswith("wrapping") and not self.fits(lo, hi, ity)):
                    lo, hi = rng
                lo, hi = max(lo, rng[0]), min(hi, rng[1])
                self.set_dest(st, dest, (), lo, hi, vals[0][3] | vals[1][3], at, None, ity)
                return "pure"
            if meth in ("min", "max") and len(vals) == 2 and vals[0][1] is not None and vals[1][1] is not None:
                f = min if meth == "min" else max
                self.set_dest(st, dest, (), f(vals[0][1], vals[1][1]), f(vals[0][2], vals[1][2]), vals[0][3] | vals[1][3], at, None, ity)
                return "pure"
            if meth == "checked_add_signed" and len(vals) == 2:
                rng = ty_range(ity)
                self.set_dest(st, dest, ("as Some", ".0"), rng[0], rng[1], vals[0][3] | vals[1][3], at, None, ity)
                return "pure"
            if meth in ("from_be_bytes", "from_le_bytes", "from_ne_bytes"):
                rng = ty_range(ity)
                self.set_dest(st, dest, (), rng[0], rng[1], frozenset(["IN"]), at, None, ity)
                return "pure"
            if meth in ("leading_zeros", "trailing_zeros", "count_ones", "count_zeros"):
                self.set_dest(st, dest, (), 0, 128, frozenset(["C"]), at, None, "u32")
                return "pure"
            if meth in ("pow", "abs", "swap_bytes", "to_be", "rotate_left"):
                return "pure"
            return "pure"
        if p in ("core::cmp::max", "core::cmp::min", "core::cmp::Ord::max", "core::cmp::Ord::min") and len(args) == 2 and is_int_ty(dty):
            vals = [self.read_op(st, a, at) for a in args]
            if vals[0][1] is not None and vals[1][1] is not None:
                f = min if last == "min" else max
                self.set_dest(st, dest, (), f(vals[0][1], vals[1][1]), f(vals[0][2], vals[1][2]), vals[0][3] | vals[1][3], at, None, dty)
            return "pure"
        if p == "core::iter::traits::iterator::Iterator::count" and len(args) == 1 and full.startswith(("<core::iter::adapters::filter::Filter<core::slice::iter::Iter<", "<core::slice::iter::Iter<")):
            # `[a, b, c, d].iter().filter(pred).count()`: at most the length of the fixed-size array that is walked
            import re as _re
            n_arr = None
            pl_ = op_place(args[0])
            for _i in range(8):
                if pl_ is None:
                    break
                m_ = _re.search(r"\[[^\[\];]+; (\d+)\]$", str(pl_.get("ty") or "").strip())
                if m_ and str(pl_.get("ty")).lstrip("&").startswith("["):
                    n_arr = int(m_.group(1))
                    break
                sd_ = self.body.single_def(pl_["l"]) if not [x for x in pl_["p"] if x != "deref"] else None
                if sd_ is None:
                    break
                if sd_[2] == "call":
                    a0 = sd_[3]["args"][0] if sd_[3].get("args") else None
                    lastc = strip_generics(sd_[3]["callee"].get("path") or "").split("::")[-1]
                    if lastc not in ("filter", "iter", "into_iter", "copied", "cloned", "by_ref") or a0 is None:
                        break
                    pl_ = op_place(a0)
                else:
                    rv_ = sd_[3]
                    pl_ = rv_.get("place") if rv_["k"] == "ref" else (op_place(rv_["a"]) if rv_["k"] in ("use", "cast") else None)
                    if rv_["k"] == "ref" and pl_ is not None:
                        m_ = _re.fullmatch(r"\[[^\[\];]+; (\d+)\]", str(self.body.local_ty(pl_["l"])).strip()) if not pl_["p"] else None
                        if m_:
                            n_arr = int(m_.group(1))
                            break
            if n_arr is not None:
                self.set_dest(st, dest, (), 0, n_arr, frozenset(["C"]), at, None, "usize")
                return "pure"
        if p == "core::mem::size_of":
            n = {"u8": 1, "i8": 1, "u16": 2, "i16": 2, "u32": 4, "i32": 4, "u64": 8, "i64": 8}.get((t["callee"].get("targs") or [""])[0])
            if n:
                self.set_dest(st, dest, (), n, n, frozenset(["C"]), at, None, "usize")
            else:
                self.set_dest(st, dest, (), 0, 2 ** 32, frozenset(["C"]), at, None, "usize")
            return "pure"
        # --- conversions
        if p in ("core::convert::From::from", "core::convert::Into::into") and len(args) == 1 and is_int_ty(dty):
            sid, lo, hi, prov = self.read_op(st, args[0], at)
            if lo is not None and self.fits(lo, hi, dty):
                if sid is not None:
                    st.cells[dest] = sid
                else:
                    self.set_dest(st, dest, (), lo, hi, prov, at, None, dty)
            else:
                rng = ty_range(dty)
                self.set_dest(st, dest, (), rng[0], rng[1], prov, at, None, dty)
            return "pure"
        if p == "core::default::Default::default" and not args and ty_range(dty):
            self.set_dest(st, dest, (), 0, 0, frozenset(["C"]), at, None, dty)
            return "pure"
        if p == "core::clone::Clone::clone" and len(args) == 1:
            tgt = self.ref_target(st, args[0])
            if tgt is not None:
                self.copy_cells(st, tgt, dest)
            return "pure"
        # --- position-preserving iteration: `c.iter()` / `.enumerate()` keep the identity of the collection they walk,
        #     so that an enumerate index is known to be a position in that collection
        if p in ("core::slice::iter", "core::slice::iter_mut") and len(args) == 1:
            tgt = self.ref_target(st, args[0])
            if tgt is not None:
                ns = self.new_sym(("iterof", at), None, None, frozenset(), ("iterof", tgt), dty)
                st.cells[dest] = ns
            return "pure"
        if p == "core::iter::traits::iterator::Iterator::enumerate" and len(args) == 1:
            src = op_place(args[0])
            sid0 = st.cells.get(place_key(src)) if src is not None else None
            d0 = self.syms[sid0].defn if sid0 is not None else None
            if d0 and d0[0] == "iterof":
                ns = self.new_sym(("enumof", at), None, None, frozenset(), ("enumof", d0[1]), dty)
                st.cells[dest] = ns
            return "pure"
        if p == "core::iter::traits::iterator::Iterator::next" and full.startswith("<core::iter::adapters::enumerate::Enumerate<core::slice::iter::Iter"):
            tgt = self.ref_target(st, args[0])
            sid0 = st.cells.get(tgt) if tgt is not None else None
            d0 = self.syms[sid0].defn if sid0 is not None else None
            if d0 and d0[0] == "enumof":
                coll = d0[1]
                lk = coll + ("#len",)
                ls = st.cells.get(lk)
                if ls is None:
                    lo0 = 1 if ("nonempty", coll) in st.facts else 0
                    ls = self.new_sym(("lenof", at, "enum"), lo0, LEN_MAX, frozenset(["LEN"]), ("len", coll), "usize")
                    st.iv[ls] = (lo0, LEN_MAX)
                    st.cells[lk] = ls
                ns = self.set_dest(st, dest, ("as Some", ".0", ".0"), 0, LEN_MAX - 1, frozenset(["LEN"]), at, ("enumitem", coll, ls), "usize")
                st.rel.add((ns, "<", ls))
                es = self.new_sym(("enumelem", at), None, None, frozenset(), ("elemof", coll, ns), None)
                st.cells[dest + ("as Some", ".0", ".1")] = es
                return "range"
        if p in ("core::iter::traits::iterator::Iterator::position", "core::iter::traits::iterator::Iterator::rposition") and len(args) == 2 and full.startswith("<core::slice::iter::Iter"):
            # `c.iter().position(pred)`: Some(i) with i a position in c (the index `enumerate` would have produced)
            tgt = self.ref_target(st, args[0])
            sid0 = st.cells.get(tgt) if tgt is not None else None
            if sid0 is None:
                src = op_place(args[0])
                sid0 = st.cells.get(place_key(src)) if src is not None else None
            d0 = self.syms[sid0].defn if sid0 is not None else None
            if d0 and d0[0] == "iterof":
                coll = d0[1]
                lk = coll + ("#len",)
                ls = st.cells.get(lk)
                if ls is None:
                    lo0 = 1 if ("nonempty", coll) in st.facts else 0
                    ls = self.new_sym(("lenof", at, "pos"), lo0, LEN_MAX, frozenset(["LEN"]), ("len", coll), "usize")
                    st.iv[ls] = (lo0, LEN_MAX)
                    st.cells[lk] = ls
                ns = self.set_dest(st, dest, ("as Some", ".0"), 0, LEN_MAX - 1, frozenset(["LEN"]), at, ("enumitem", coll, ls), "usize")
                st.rel.add((ns, "<", ls))
                return "pure"
        if p in ("core::ops::index::Index::index", "core::ops::index::IndexMut::index_mut") and len(args) == 2:
            ipl0 = op_place(args[1])
            if ipl0 is not None and is_int_ty(ipl0["ty"]):
                tgt0 = self.ref_target(st, args[0])
                isid0 = self.read_op(st, args[1], at)[0]
                if tgt0 is not None and isid0 is not None:
                    es = self.new_sym(("idxelem", at), None, None, frozenset(), ("elemof", tgt0, isid0), dty)
                    st.cells[dest] = es
            ipl = op_place(args[1])
            if ipl is not None and ipl["ty"].startswith("core::ops::range::Range<"):
                ikey = self.norm_target(st, place_key(ipl))
                s_ = st.cells.get(ikey + (".start",))
                e_ = st.cells.get(ikey + (".end",))
                if s_ is not None and e_ is not None:
                    slo, shi = self.iv(st, s_)
                    elo, ehi = self.iv(st, e_)
                    if slo is not None and elo is not None and shi <= elo:
                        root = ("$slice%d" % b,)
                        ls = self.new_sym(("slen", at), elo - shi, ehi - slo, frozenset(["C"]), None, "usize")
                        st.iv[ls] = (elo - shi, ehi - slo)
                        st.cells[root + ("#len",)] = ls
                        ns = self.new_sym(("sview", at), None, None, frozenset(), ("refto", root, False), dty)
                        st.cells[dest] = ns
            return "pure"
        if p == "core::convert::TryInto::try_into" and len(args) == 1 and dty.startswith("core::result::Result<["):
            tgt = self.ref_target(st, args[0])
            n = _array_len(result_ok_ty(dty) or "")
            if tgt is not None and n is not None:
                ls = st.cells.get(tgt + ("#len",))
                if ls is not None and self.iv(st, ls) == (n, n):
                    st.facts.add(("variant", dest, "Ok"))
            return "pure"
        # --- views of a container share its identity (length, emptiness)
        if p in ("core::ops::deref::Deref::deref", "core::ops::deref::DerefMut::deref_mut", "core::convert::AsRef::as_ref",
                 "core::convert::AsMut::as_mut", "core::borrow::Borrow::borrow") or last in ("as_slice", "as_mut_slice", "as_bytes", "as_str"):
            if len(args) == 1:
                tgt = self.ref_target(st, args[0])
                if tgt is not None:
                    ns = self.new_sym(("view", at), None, None, self.read_op(st, args[0], at)[3], ("refto", tgt, p.endswith("deref_mut")), dty)
                    st.cells[dest] = ns
            return "pure"
        if last in ("get", "get_mut") and len(args) == 2 and ("slice" in p or "vec" in p) and dty.startswith("core::option::Option<"):
            tgt = self.ref_target(st, args[0])
            isid, ilo, ihi, iprov = self.read_op(st, args[1], at)
            if tgt is not None and isid is not None:
                ls = st.cells.get(tgt + ("#len",))
                if ls is not None and (isid, "<", ls) in st.rel:
                    st.facts.add(("variant", dest, "Some"))
                elif ls is not None and ihi is not None and self.iv(st, ls)[0] is not None and ihi < self.iv(st, ls)[0]:
                    st.facts.add(("variant", dest, "Some"))
            return "pure"
        # --- lengths / emptiness
        if last == "len" and len(args) == 1 and dty == "usize":
            tgt = self.ref_target(st, args[0])
            lo0 = 0
            if tgt is not None:
                lk = tgt + ("#len",)
                sid = st.cells.get(lk)
                if sid is None:
                    if ("nonempty", tgt) in st.facts:
                        lo0 = 1
                    sid = self.new_sym(("lenof", at), lo0, LEN_MAX, frozenset(["LEN"]), ("len", tgt), "usize")
                    st.iv[sid] = (lo0, LEN_MAX)
                    st.cells[lk] = sid
                st.cells[dest] = sid
            else:
                self.set_dest(st, dest, (), 0, LEN_MAX, frozenset(["LEN"]), at, None, "usize")
            return "pure"
        if last == "is_empty" and len(args) == 1 and dty == "bool":
            tgt = self.ref_target(st, args[0])
            if tgt is not None:
                ns = self.set_dest(st, dest, (), 0, 1, frozenset(), at, ("isempty", tgt), "bool")
                if ("nonempty", tgt) in st.facts:
                    st.iv[ns] = (0, 0)
            return "pure"
        # --- Option / Result tests and projections
        if last in ("is_none", "is_some", "is_ok", "is_err") and len(args) == 1 and dty == "bool":
            tgt = self.ref_target(st, args[0])
            if tgt is not None:
                var, other = {"is_none": ("None", "Some"), "is_some": ("Some", "None"), "is_ok": ("Ok", "Err"), "is_err": ("Err", "Ok")}[last]
                ns = self.set_dest(st, dest, (), 0, 1, frozenset(), at, ("variantis", tgt, var, other), "bool")
                for f in st.facts:
                    if f[0] == "variant" and f[1] == tgt:
                        st.iv[ns] = (1, 1) if f[2] == var else (0, 0)
            return "pure"
        if p in ("core::option::Option::unwrap", "core::option::Option::expect", "core::result::Result::unwrap", "core::result::Result::expect",
                 "core::option::Option::unwrap_or", "core::option::Option::unwrap_or_default", "core::result::Result::unwrap_or"):
            src = op_place(args[0])
            if src is not None:
                skey = place_key(src)
                var = "as Some" if "option" in p else "as Ok"
                sub = skey + (var, ".0")
                if last.startswith("unwrap_or") and len(args) == 2 and sub in st.cells and is_int_ty(dty):
                    a = self.iv(st, st.cells[sub])
                    o = self.read_op(st, args[1], at)
                    if a[0] is not None and o[1] is not None:
                        self.set_dest(st, dest, (), min(a[0], o[1]), max(a[1], o[2]), self.syms[st.cells[sub]].prov | o[3], at, None, dty)
                    return "pure"
                if last.startswith("unwrap_or"):
                    prov = frozenset()
                    for a in args:
                        prov = prov | self.read_op(st, a, at)[3]
                    rng = ty_range(dty)
                    if rng:
                        self.set_dest(st, dest, (), rng[0], rng[1], prov, at, None, dty)
                    return "pure"
                n = len(sub)
                for k, v in list(st.cells.items()):
                    if k[:n] == sub:
                        st.cells[dest + k[n:]] = v
                for f in list(st.facts):
                    if f[1][:n] == sub:
                        st.facts.add((f[0], dest + f[1][n:]) + f[2:])
            return "pure"
        if p in ("core::option::Option::map", "core::option::Option::and_then", "core::option::Option::filter", "core::option::Option::zip",
                 "core::result::Result::map", "core::result::Result::and_then", "core::result::Result::map_err", "core::result::Result::ok") and args:
            src = op_place(args[0])
            prov = frozenset()
            for a in args:
                prov = prov | self.read_op(st, a, at)[3]
            self.set_dest(st, dest, (), None, None, prov, at, None, dty)
            if src is not None:
                skey = self.norm_target(st, place_key(src))
                st.facts.add(("implies", dest, skey, "Ok" if "result" in p else "Some"))
                if p.endswith("map_err"):
                    n = len(skey) + 1
                    for k, v in list(st.cells.items()):
                        if k[:len(skey)] == skey and len(k) > len(skey) and k[len(skey)] == "as Ok":
                            st.cells[dest + k[len(skey):]] = v
            return "pure"
        if p in ("core::option::Option::ok_or", "core::option::Option::ok_or_else"):
            src = op_place(args[0])
            if src is not None:
                skey = place_key(src)
                sub = skey + ("as Some",)
                n = len(sub)
                for k, v in list(st.cells.items()):
                    if k[:n] == sub:
                        st.cells[dest + ("as Ok",) + k[n:]] = v
                for f in list(st.facts):
                    if f[0] == "variant" and f[1] == skey:
                        st.facts.add(("variant", dest, {"Some": "Ok", "None": "Err"}.get(f[2], f[2])))
                st.facts.add(("implies", dest, skey, "Some"))
            return "pure"
        if p in ("core::option::Option::as_ref", "core::option::Option::as_mut", "core::result::Result::as_ref"):
            tgt = self.ref_target(st, args[0])
            if tgt is not None:
                for f in list(st.facts):
                    if f[0] == "variant" and f[1] == tgt:
                        st.facts.add(("variant", dest, f[2]))
            return "pure"
        # --- ranges
        if p == "core::iter::traits::collect::IntoIterator::into_iter" and len(args) == 1:
            src = op_place(args[0])
            if src is not None:
                self.copy_cells(st, place_key(src), dest)
            return "pure"
        if p == "core::iter::traits::iterator::Iterator::rev" and len(args) == 1 and "core::ops::range::Range<" in full and "RangeInclusive" not in full:
            # Rev<Range>: the same set of items in the opposite order (the cells of the range are kept flat)
            src = op_place(args[0])
            if src is not None:
                self.copy_cells(st, place_key(src), dest)
            return "pure"
        if p == "core::iter::traits::iterator::Iterator::next" and "core::ops::range::Range<" in full and "RangeInclusive" not in full:
            tgt = self.ref_target(st, args[0])
            if tgt is not None:
                s_ = st.cells.get(tgt + (".start",))
                e_ = st.cells.get(tgt + (".end",))
                if s_ is not None and e_ is not None:
                    slo, shi = self.iv(st, s_)
                    elo, ehi = self.iv(st, e_)
                    ity = self.syms[e_].ty or self.syms[s_].ty
                    if slo is not None and ehi is not None:
                        ns = self.set_dest(st, dest, ("as Some", ".0"), slo, max(slo, ehi - 1), self.syms[s_].prov | self.syms[e_].prov, at, ("rangeitem", e_), ity)
                        st.rel.add((ns, "<", e_))
                        # the range's start advances but stays <= end
                        n2 = self.new_sym(("rstart", at), slo, max(slo, ehi), self.syms[s_].prov | self.syms[e_].prov, None, ity)
                        st.iv[n2] = (slo, max(slo, ehi))
                        st.cells[tgt + (".start",)] = n2
                        return "range"
            return "iter"
        # unknown callee: TOP of the destination type; provenance = union of argument provenance
        # (+ an X:<callee> root unless the callee is a value-transparent adaptor)
        prov = frozenset()
        for a in args:
            prov = prov | self.read_op(st, a, at)[3]
        if p not in TRANSPARENT and last not in TRANSPARENT_LAST:
            prov = prov | frozenset(["X:" + p])
        rng = ty_range(dty)
        if rng:
            self.set_dest(st, dest, (), rng[0], rng[1], prov, at, None, dty)
        else:
            self.set_dest(st, dest, (), None, None, prov, at, None, dty)
        if path in self.fx.fns:
            self.note_ok_posts(st, path, args, dest, at)
        return None

    def eval_tree(self, st, tree, args, at, n):
        """(sid, lo, hi, prov) of an expression tree of a trivial helper, evaluated on the caller's argument operands"""
        k = tree[0]
        if k == "p":
            if tree[1] - 1 >= len(args):
                return None
            return self.read_op(st, args[tree[1] - 1], at)
        if k == "c":
            return (None, tree[2], tree[2], frozenset(["C"]))
        if k == "cast":
            r = self.eval_tree(st, tree[1], args, at, n + 1)
            if r is None:
                return None
            rng = ty_range(tree[2])
            if rng and r[1] is not None and rng[0] <= r[1] and r[2] <= rng[1]:
                return r
            return None
        if k == "bin":
            _, op, A, B, ty = tree
            a = self.eval_tree(st, A, args, at, 2 * n + 1)
            b = self.eval_tree(st, B, args, at, 2 * n + 2)
            if a is None or b is None:
                return None

            def ident(x, t):
                if x[0] is not None:
                    return ("s", x[0])
                if t[0] == "c":
                    return ("c", t[1], str(t[2]))
                if t[0] == "p" and t[1] - 1 < len(args):
                    c_ = args[t[1] - 1].get("const")
                    if c_ is not None and c_.get("val") is not None:
                        return ("c", c_.get("ty"), str(c_["val"]))
                return None
            ia, ib = ident(a, A), ident(b, B)
            if op in COMMUTATIVE and ia is not None and ib is not None and repr(ib) < repr(ia):
                ia, ib = ib, ia
            vk = (op, ia, ib) if ia is not None and ib is not None else None
            prov = (a[3] or frozenset()) | (b[3] or frozenset())
            if op in ("Eq", "Ne", "Lt", "Le", "Gt", "Ge"):
                res = _decide(op, a[1], a[2], b[1], b[2])
                cs = self.new_sym(("gvn",) + vk if vk else ("inl", at, n), 0, 1, prov, ("cmp", op, a[0], b[0], (a[1], a[2]), (b[1], b[2])), "bool")
                prev = st.iv.get(cs) if vk else None
                st.iv[cs] = (res, res) if res is not None else (0, 1)
                if prev is not None and prev[0] == prev[1] and res is None:
                    st.iv[cs] = prev
                if res is None and a[0] is not None and b[0] is not None:
                    r2 = self.decide_rel(st, op, a[0], b[0])
                    if r2 is not None:
                        st.iv[cs] = (r2, r2)
                return (cs, st.iv[cs][0], st.iv[cs][1], prov)
            lo, hi = self.arith(op, a[1], a[2], b[1], b[2], ty)
            if lo is None:
                return None
            if not self.fits(lo, hi, ty):
                # a checked operation: the helper's own assert is its obligation; here the value is what passes it
                lo, hi = self.clip(lo, hi, ty)
            ns = self.new_sym(("gvn",) + vk if vk else ("inl", at, n), lo, hi, prov, ("bin", op, a[0], b[0], (a[1], a[2]), (b[1], b[2])), ty)
            prev = st.iv.get(ns) if vk else None
            if prev is not None and prev[0] is not None:
                lo, hi = max(lo, prev[0]), min(hi, prev[1])
                if lo > hi:
                    lo, hi = prev
            st.iv[ns] = (lo, hi)
            if op == "Add" and a[0] is not None and b[1] is not None and b[1] >= 0:
                st.rel.add((a[0], "<=", ns))
            if op == "Sub" and a[0] is not None and b[1] is not None and b[1] >= 0 and lo >= 0:
                st.rel.add((ns, "<=", a[0]))
            return (ns, lo, hi, prov)
        return None

    # ---- return summary ------------------------------------------------------------------------
    def record_return(self, st):
        seen = {}
        for k, sid in st.cells.items():
            if k[0] != 0:
                continue
            lo, hi = self.iv(st, sid)
            if lo is None:
                continue
            seen[k[1:]] = (lo, hi, self.syms[sid].prov)
        # what an Ok / Some result tells the caller about the arguments (a validating helper: `check(x, size)?`): per
        # by-value integer parameter and per integer field below a reference parameter, the interval on every Ok-returning
        # path and the provenance of its upper bound
        self._record_return_rest(st, seen)

    def collect_ok_posts(self, st):
        if True:
            okp = {}
            for k, sid in st.cells.items():
                l = k[0]
                if not (isinstance(l, int) and 1 <= l <= self.body.argc):
                    continue
                if len(k) == 1:
                    key_ = (l, ())
                elif len(k) > 2 and k[1] == "deref" and not any(isinstance(x, str) and x.startswith("[_") for x in k) and not self.local_ty(l).startswith("&mut "):
                    key_ = (l, k[2:])
                else:
                    continue
                lo, hi = self.iv(st, sid)
                rng = ty_range(self.syms[sid].ty or "")
                if lo is None or rng is None:
                    continue
                ub = st.ub.get(sid)
                okp[key_] = (lo, hi, frozenset(ub) if ub else None, self.syms[sid].ty)
            if self.ok_posts is None:
                self.ok_posts = okp
            else:
                merged = {}
                for k_, a_ in self.ok_posts.items():
                    if k_ in okp:
                        b_ = okp[k_]
                        merged[k_] = (min(a_[0], b_[0]), max(a_[1], b_[1]), (a_[2] | b_[2]) if (a_[2] and b_[2]) else None, a_[3])
                self.ok_posts = merged

    def _record_return_rest(self, st, seen):
        posts = {}
        for k, sid in st.cells.items():
            l = k[0]
            if not (isinstance(l, int) and 1 <= l <= self.body.argc and len(k) > 2 and k[1] == "deref" and self.local_ty(l).startswith("&mut ")):
                continue
            if any(isinstance(x, str) and x.startswith("[_") for x in k):
                continue
            lo, hi = self.iv(st, sid)
            rng = ty_range(self.syms[sid].ty or "")
            if lo is None or rng is None or (lo <= rng[0] and hi >= rng[1]):
                continue
            posts[(l, k[2:])] = (lo, hi, self.syms[sid].ty)
        if not getattr(self, "_ret_seen", False):
            self.post_cells = posts
        else:
            self.post_cells = {k: (min(v[0], posts[k][0]), max(v[1], posts[k][1]), v[2]) for k, v in self.post_cells.items() if k in posts}
        if not getattr(self, "_ret_seen", False):
            self._ret_seen = True
            self.ret_cells = seen
        else:
            out = {}
            for k, a in self.ret_cells.items():
                if k in seen:
                    b2 = seen[k]
                    out[k] = (min(a[0], b2[0]), max(a[1], b2[1]), a[2] | b2[2])
            self.ret_cells = out

    # ---- fixpoint -------------------------------------------------------------------------------------
    def join(self, b, old, new):
        """join state `new` into `old` (in-state of block b); returns (state, changed)"""
        al = self.acc_loops.get(b)
        if al is not None and self._join_from is not None and self._join_from not in al["blocks"]:
            # arriving from outside the loop: (re)compute the accumulators' bounds from the entry state
            for l, xs in al["accs"].items():
                sid0 = new.cells.get((l,))
                hi0 = self.iv(new, sid0)[1] if sid0 is not None else None
                tot = 0
                for x in xs:
                    c = op_const(x)
                    if c is not None:
                        tot += c
                        continue
                    px = op_place(x)
                    sx = new.cells.get((px["l"],)) if px is not None else None
                    hx = self.iv(new, sx)[1] if sx is not None else None
                    if hx is None:
                        tot = None
                        break
                    tot += hx
                if hi0 is None or tot is None:
                    self.acc_bound[(b, l)] = None
                else:
                    prev = self.acc_bound.get((b, l), 0)
                    self.acc_bound[(b, l)] = None if prev is None else max(prev, hi0 + al["N"] * tot)
        if old is None:
            return new.copy(), True
        changed = False
        out = State()
        # widening only at loop heads (every cycle of a reducible CFG passes one): elsewhere a plain join keeps the
        # refinement established by the branch condition on the incoming edge (`while n > 0 { .. n -= 1 }`)
        widen = self.visits.get(b, 0) > 3 and (b in self.loop_heads or self.visits.get(b, 0) > 40)
        for k, sn in new.cells.items():
            if k not in old.cells and _vacuous(old, k):
                out.cells[k] = sn
                v = new.iv.get(sn)
                if v is not None:
                    out.iv[sn] = v
                changed = True
        for k, so in old.cells.items():
            sn = new.cells.get(k)
            if sn is None:
                if _vacuous(new, k):
                    out.cells[k] = so
                    v = old.iv.get(so)
                    if v is not None:
                        out.iv[so] = v
                    continue
                changed = True
                continue
            lo_o, hi_o = self.iv(old, so)
            lo_n, hi_n = self.iv(new, sn)
            if so == sn:
                sid = so
            else:
                sid = self.join_syms.get((b, k))
                if sid is None:
                    sid = self.next_id
                    self.next_id += 1
                    self.join_syms[(b, k)] = sid
                    ty = self.syms[so].ty or self.syms[sn].ty
                    self.syms[sid] = Sym(sid, None, None, self.syms[so].prov | self.syms[sn].prov, None, ty)
                else:
                    self.syms[sid].prov = self.syms[sid].prov | self.syms[so].prov | self.syms[sn].prov
                if sid != so:
                    changed = changed or (so != sid)
            if lo_o is None or lo_n is None:
                lo, hi = None, None
            else:
                lo, hi = min(lo_o, lo_n), max(hi_o, hi_n)
                if widen and (lo < lo_o or hi > hi_o):
                    rng = ty_range(self.syms[sid].ty or "") or (None, None)
                    if rng[0] is None:
                        lo, hi = None, None
                    else:
                        lo = rng[0] if lo < lo_o else lo
                        hi = rng[1] if hi > hi_o else hi
                if al is not None and len(k) == 1 and self.acc_bound.get((b, k[0])) is not None and hi is not None and hi > self.acc_bound[(b, k[0])] >= lo:
                    # at most N trips, each adding at most the invariant addends: see _const_trip_accs
                    hi = self.acc_bound[(b, k[0])]
            if (lo, hi) != (lo_o, hi_o) or sid != so:
                changed = True
            if so != sn and lo_o is not None and lo_n is not None and (lo_o, hi_o) != (lo_n, hi_n):
                self.record_ite(sid, k, old, new, (lo_o, hi_o), (lo_n, hi_n))
            out.cells[k] = sid
            if lo is not None:
                out.iv[sid] = (lo, hi)
            else:
                out.iv.pop(sid, None)
        # keep intervals of symbols that are referenced by relations even if their cell died
        live = set(out.cells.values())
        out.rel = {r for r in old.rel if r in new.rel and r[0] in live and r[2] in live}
        if out.rel != old.rel:
            changed = True
        out.facts = old.facts & new.facts
        # an implication `K is Some/Ok  =>  P is v` survives when the other side does not contradict it: there K is known to
        # be the negative variant (vacuous) or P is known to be v
        POS = ("Some", "Ok", "Continue")

        def consistent(f, other):
            kv = [g[2] for g in other.facts if g[0] == "variant" and g[1] == f[1]]
            if kv and all(v not in POS for v in kv):
                return True
            return ("variant", f[2], f[3]) in other.facts
        for f in old.facts:
            if f[0] == "implies" and f not in new.facts and consistent(f, new):
                out.facts.add(f)
        for f in new.facts:
            if f[0] == "implies" and f not in old.facts and consistent(f, old):
                out.facts.add(f)
        # variants that differ between the two sides in lock step (`match x { Some(a) => Some(f(a)), None => None }`):
        # in the joined state the result being Some implies the scrutinee was Some
        vo = {g[1]: g[2] for g in old.facts if g[0] == "variant"}
        vn = {g[1]: g[2] for g in new.facts if g[0] == "variant"}
        diff = [k for k in vo if k in vn and vo[k] != vn[k]]
        if 2 <= len(diff) <= 12:
            for K in diff:
                for Pk in diff:
                    if K == Pk:
                        continue
                    if vo[K] in POS:
                        out.facts.add(("implies", K, Pk, vo[Pk]))
                    if vn[K] in POS:
                        out.facts.add(("implies", K, Pk, vn[Pk]))
        if out.facts != old.facts:
            changed = True
        for a, p in old.ub.items():
            q = new.ub.get(a)
            if q is not None and a in live:
                out.ub[a] = p | q
        if out.ub != old.ub:
            changed = True
        return out, changed

    def record_ite(self, sid, k, old, new, iv_old, iv_new):
        """value of cell k depends on which predecessor we came from; find a pivot symbol (same symbol on both sides,
        disjoint intervals) so that a later refinement of the pivot selects the matching value (if/else correlation)"""
        for pk, ps in old.cells.items():
            if pk == k or new.cells.get(pk) != ps:
                continue
            a = old.iv.get(ps)
            b = new.iv.get(ps)
            if a is None or b is None or a[0] is None or b[0] is None:
                continue
            if a[1] < b[0] or b[1] < a[0]:
                cases = self.ite.setdefault(sid, {}).setdefault(ps, [])
                for c in ((a, iv_old), (b, iv_new)):
                    if c not in cases and len(cases) < 6:
                        cases.append(c)

    def apply_ite(self, st, pivot):
        """the pivot symbol was refined: narrow the cells whose joined value is correlated with it"""
        piv = st.iv.get(pivot)
        if piv is None or piv[0] is None:
            return
        for sid, per in self.ite.items():
            cases = per.get(pivot)
            if not cases or sid not in st.iv and sid not in self.syms:
                continue
            cur = self.iv(st, sid)
            if cur[0] is None:
                continue
            lo = hi = None
            for (pa, va) in cases:
                if pa[1] < piv[0] or piv[1] < pa[0]:
                    continue
                lo = va[0] if lo is None else min(lo, va[0])
                hi = va[1] if hi is None else max(hi, va[1])
            # cases are only a sound cover if together they span the pivot's current range
            span_lo = min(pa[0] for pa, _ in cases)
            span_hi = max(pa[1] for pa, _ in cases)
            if lo is None or piv[0] < span_lo or piv[1] > span_hi:
                continue
            covered = sorted((pa for pa, _ in cases))
            # gaps between case ranges inside piv make the cover incomplete
            ok = True
            reach = piv[0]
            for pa in covered:
                if pa[1] < reach:
                    continue
                if pa[0] > reach:
                    ok = False
                    break
                reach = pa[1] + 1
                if reach > piv[1]:
                    break
            if not ok or reach <= piv[1]:
                continue
            n = (max(cur[0], lo), min(cur[1], hi))
            if n[0] <= n[1]:
                st.iv[sid] = n

    def initial(self):
        st = State()
        for l in range(1, self.body.argc + 1):
            ty = self.local_ty(l)
            rng = ty_range(ty)
            if rng:
                lo, hi = self.param_iv.get(l, rng)
                lo, hi = max(lo, rng[0]), min(hi, rng[1])
                sid = self.new_sym(("param", l), lo, hi, frozenset(["P%d" % l]), None, ty)
                st.cells[(l,)] = sid
                st.iv[sid] = (lo, hi)
        for key, (lo, hi, ty_) in self.entry_keys.items():
            sid = self.new_sym(("entrykey", key), lo, hi, frozenset(["P1"]), None, ty_)
            st.cells[key] = sid
            st.iv[sid] = (lo, hi)
        for (l, suffix), (lo, hi, ty_) in self.entry_cells.items():
            key = (l, "deref") + tuple(suffix)
            sid = self.new_sym(("entrycell", key), lo, hi, frozenset(["P%d%s" % (l, "".join(x for x in suffix if x != "deref"))]), None, ty_)
            st.cells[key] = sid
            st.iv[sid] = (lo, hi)
        return st

    def run(self, collect=True):
        body = self.body
        order = body.rpo()
        pos = {b: i for i, b in enumerate(order)}
        self.in_states = {0: self.initial()}
        work = [0]
        inwork = {0}
        iters = 0
        self.collect = False
        while work:
            work.sort(key=lambda x: pos.get(x, 1 << 30))
            b = work.pop(0)
            inwork.discard(b)
            iters += 1
            if iters > 4000:
                break
            st = self.in_states[b].copy()
            self.visits[b] = self.visits.get(b, 0) + 1
            for i, s in enumerate(body.stmts(b)):
                if s["k"] == "assign":
                    self.assign(st, b, i, s)
                elif s["k"] == "setdiscr":
                    self.kill(st, place_key(s["place"]))
            self._ret_skip = True
            for succ, s2 in self.successors_nocollect(st, b):
                old = self.in_states.get(succ)
                self._join_from = b
                joined, ch = self.join(succ, old, s2)
                self._join_from = None
                if ch:
                    self.in_states[succ] = joined
                    if succ not in inwork:
                        work.append(succ)
                        inwork.add(succ)
        self.converged = iters <= 4000
        if collect:
            self.final_pass()
        return self

    def successors_nocollect(self, st, b):
        t = self.body.term(b)
        if t["k"] == "return":
            return []
        return self.successors(st, b)

    def final_pass(self):
        """one more sweep over the fixpoint states, recording obligations, call arguments and the return summary"""
        self.collect = True
        self.obligations = []
        self.call_args = []
        self.call_cells = []
        self.closure_caps = []
        self._ret_seen = False
        self.ret_cells = {}
        self.post_cells = {}
        self.ok_posts = None
        self.out_states = {}
        for b in self.body.rpo():
            st0 = self.in_states.get(b)
            if st0 is None:
                continue
            st = st0.copy()
            for i, s in enumerate(self.body.stmts(b)):
                if self.hooks.get("stmt"):
                    self.hooks["stmt"](self, st, b, i, s)
                if s["k"] == "assign":
                    self.assign(st, b, i, s)
                elif s["k"] == "setdiscr":
                    self.kill(st, place_key(s["place"]))
            self.out_states[b] = st
            # a block that builds the success value: what holds here about the parameters holds whenever Ok / Some is returned
            if any(s_["k"] == "assign" and s_["place"]["l"] == 0 and not s_["place"]["p"] and s_["rv"]["k"] == "agg" and s_["rv"].get("variant") in ("Ok", "Some") for s_ in self.body.stmts(b)):
                self.collect_ok_posts(st)
            if self.hooks.get("term"):
                self.hooks["term"](self, st, b, self.body.term(b))
            self.successors(st, b)
        self.collect = False


# (callee path | prefix*, kind): callees that panic on some inputs (reviewed once; extended only by reading)
PANICKING = [
    ("core::option::Option::unwrap", "unwrap_opt"), ("core::option::Option::expect", "unwrap_opt"),
    ("core::result::Result::unwrap", "unwrap_res"), ("core::result::Result::expect", "unwrap_res"),
    ("core::result::Result::unwrap_err", "other"), ("core::result::Result::expect_err", "other"),
    ("core::option::Option::unwrap_unchecked", "other"), ("core::result::Result::unwrap_unchecked", "other"),
    ("core::ops::index::Index::index", "index"), ("core::ops::index::IndexMut::index_mut", "index"),
    ("core::panicking::*", "panic"), ("std::panicking::*", "panic"), ("std::rt::begin_panic*", "panic"), ("core::panic::*", "panic"),
    ("std::process::abort", "panic"), ("std::process::exit", "panic"), ("core::intrinsics::abort", "panic"),
    ("core::slice::<impl [T]>::copy_from_slice", "other"), ("core::slice::<impl [T]>::clone_from_slice", "other"),
    ("core::slice::<impl [T]>::split_at", "other"), ("core::slice::<impl [T]>::split_at_mut", "other"),
    ("core::slice::<impl [T]>::chunks", "other"), ("core::slice::<impl [T]>::chunks_exact", "other"),
    ("core::slice::<impl [T]>::windows", "other"), ("core::slice::<impl [T]>::swap", "other"),
    ("core::slice::<impl [T]>::rotate_left", "other"), ("core::slice::<impl [T]>::rotate_right", "other"),
    ("core::slice::<impl [T]>::copy_within", "other"), ("core::slice::<impl [T]>::select_nth_unstable", "other"),
    ("core::str::<impl str>::split_at", "other"),
    ("alloc::vec::Vec::remove", "other"), ("alloc::vec::Vec::insert", "other"), ("alloc::vec::Vec::swap_remove", "other"),
    ("alloc::vec::Vec::drain", "other"), ("alloc::vec::Vec::split_off", "other"), ("alloc::vec::Vec::splice", "other"),
    ("alloc::vec::Vec::extend_from_within", "other"),
    ("alloc::string::String::remove", "other"), ("alloc::string::String::insert", "other"), ("alloc::string::String::insert_str", "other"),
    ("alloc::string::String::drain", "other"), ("alloc::string::String::split_off", "other"), ("alloc::string::String::truncate", "other"),
    ("alloc::string::String::replace_range", "other"),
    ("alloc::collections::vec_deque::VecDeque::remove", "other"),
    ("core::cell::RefCell::borrow", "other"), ("core::cell::RefCell::borrow_mut", "other"),
    ("core::iter::traits::iterator::Iterator::step_by", "other"),
    ("core::num::<impl u8>::pow", "other"), ("core::num::<impl u16>::pow", "other"), ("core::num::<impl u32>::pow", "other"),
    ("core::num::<impl u64>::pow", "other"), ("core::num::<impl usize>::pow", "other"), ("core::num::<impl i32>::pow", "other"),
    ("core::num::<impl i64>::pow", "other"), ("core::num::<impl i32>::abs", "other"), ("core::num::<impl i64>::abs", "other"),
    ("core::num::<impl u32>::next_power_of_two", "other"), ("core::num::<impl u64>::next_power_of_two", "other"),
    ("core::num::<impl u32>::div_ceil", "other"), ("core::num::<impl u64>::div_ceil", "other"),
    ("core::num::<impl u32>::ilog2", "other"), ("core::num::<impl u64>::ilog2", "other"),
    ("core::num::<impl u32>::rem_euclid", "other"), ("core::num::<impl u64>::rem_euclid", "other"),
    ("core::num::<impl u32>::div_euclid", "other"), ("core::num::<impl u64>::div_euclid", "other"),
    ("core::char::methods::<impl char>::from_digit", "other"),
    ("core::time::Duration::new", "other"), ("core::time::Duration::from_secs_f64", "other"), ("core::time::Duration::from_secs_f32", "other"),
    ("core::time::Duration::mul_f64", "other"), ("core::time::Duration::div_f64", "other"),
    ("core::ops::arith::Add::add", "opcall"), ("core::ops::arith::Sub::sub", "opcall"), ("core::ops::arith::Mul::mul", "opcall"),
    ("core::ops::arith::Div::div", "opcall"), ("core::ops::arith::Rem::rem", "opcall"), ("core::ops::arith::Neg::neg", "opcall"),
    ("core::ops::arith::AddAssign::add_assign", "opcall"), ("core::ops::arith::SubAssign::sub_assign", "opcall"),
    ("core::ops::arith::MulAssign::mul_assign", "opcall"), ("core::ops::arith::DivAssign::div_assign", "opcall"),
    ("core::ops::bit::Shl::shl", "opcall"), ("core::ops::bit::Shr::shr", "opcall"),
    ("num_rational::Ratio::to_integer", "ratio"), ("num_rational::Ratio::new", "other"), ("num_rational::Ratio::trunc", "ratio"),
    ("num_rational::Ratio::floor", "ratio"), ("num_rational::Ratio::ceil", "ratio"), ("num_rational::Ratio::round", "ratio"),
    ("byteorder::ByteOrder::read_u16", "bo_slice"), ("byteorder::ByteOrder::read_u24", "bo_slice"), ("byteorder::ByteOrder::read_u32", "bo_slice"),
    ("byteorder::ByteOrder::read_u48", "bo_slice"), ("byteorder::ByteOrder::read_u64", "bo_slice"), ("byteorder::ByteOrder::read_uint", "bo_slice"),
    ("byteorder::ByteOrder::write_u16", "bo_slice"), ("byteorder::ByteOrder::write_u32", "bo_slice"), ("byteorder::ByteOrder::write_u64", "bo_slice"),
    ("byteorder::io::WriteBytesExt::write_u24", "bo_range"), ("byteorder::io::WriteBytesExt::write_i24", "bo_range"),
    ("byteorder::io::WriteBytesExt::write_u48", "bo_range"), ("byteorder::io::WriteBytesExt::write_i48", "bo_range"),
    ("byteorder::io::WriteBytesExt::write_uint", "bo_range"), ("byteorder::io::WriteBytesExt::write_int", "bo_range"),
    ("byteorder::io::WriteBytesExt::write_uint128", "bo_range"), ("byteorder::io::ReadBytesExt::read_uint", "bo_range"),
    ("byteorder::io::ReadBytesExt::read_int", "bo_range"),
    ("bytes::bytes::Bytes::slice", "other"), ("bytes::bytes::Bytes::split_off", "other"), ("bytes::bytes::Bytes::split_to", "other"),
    ("bytes::bytes::Bytes::truncate", "other"), ("bytes::bytes_mut::BytesMut::split_off", "other"), ("bytes::bytes_mut::BytesMut::split_to", "other"),
    ("bytes::bytes_mut::BytesMut::set_len", "other"), ("bytes::buf::buf_impl::Buf::advance", "other"),
    ("bytes::buf::buf_impl::Buf::get_u8", "other"), ("bytes::buf::buf_impl::Buf::get_u16", "other"), ("bytes::buf::buf_impl::Buf::get_u32", "other"),
    ("bytes::buf::buf_impl::Buf::get_u64", "other"), ("bytes::buf::buf_impl::Buf::copy_to_slice", "other"),
    ("std::thread::*", "other"), ("std::sync::mutex::Mutex::lock", "other"),
    ("core::ffi::c_str::CStr::from_bytes_with_nul_unchecked", "unsafe_precond"),
    ("core::str::converts::from_utf8_unchecked", "unsafe_precond"), ("core::slice::raw::from_raw_parts", "unsafe_precond"),
    ("core::hint::unreachable_unchecked", "unsafe_precond"), ("core::slice::<impl [T]>::get_unchecked", "unsafe_precond"),
]


def _array_len(ty):
    import re
    m = re.search(r"\[[^\[\]]*; (\d+)\]$", ty.lstrip("&").replace("mut ", ""))
    return int(m.group(1)) if m else None


# external callees whose result carries no information beyond their arguments / the closures they are given
TRANSPARENT = {
    "core::iter::traits::iterator::Iterator::sum", "core::iter::traits::iterator::Iterator::map",
    "core::option::Option::map", "core::option::Option::unwrap_or", "core::option::Option::as_ref",
    "core::option::Option::and_then", "core::option::Option::ok_or", "core::option::Option::unwrap_or_default",
    "core::slice::<impl [T]>::iter", "core::ops::deref::Deref::deref", "core::iter::traits::collect::IntoIterator::into_iter",
    "core::iter::traits::iterator::Iterator::next", "core::iter::traits::iterator::Iterator::enumerate",
    "core::iter::traits::iterator::Iterator::zip", "core::iter::traits::iterator::Iterator::cloned",
    "alloc::vec::Vec::iter", "core::convert::Into::into", "core::convert::From::from", "core::clone::Clone::clone",
    "core::convert::AsRef::as_ref", "core::borrow::Borrow::borrow",
    "core::option::Option::map_or", "core::option::Option::map_or_else", "core::option::Option::unwrap_or_else",
    "core::iter::traits::iterator::Iterator::fold", "core::iter::traits::iterator::Iterator::copied",
    "core::cmp::Ord::max", "core::cmp::Ord::min", "core::cmp::max", "core::cmp::min", "core::option::Option::as_deref",
    # adaptors that hand on elements of their receivers unchanged (they add no value of their own to what flows through)
    "core::iter::traits::iterator::Iterator::chain", "core::iter::traits::iterator::Iterator::rev", "core::iter::traits::iterator::Iterator::skip",
    "core::iter::traits::iterator::Iterator::take", "core::iter::traits::iterator::Iterator::filter", "core::iter::traits::iterator::Iterator::filter_map",
    "core::iter::traits::iterator::Iterator::flat_map", "core::iter::traits::iterator::Iterator::peekable", "core::iter::traits::iterator::Iterator::by_ref",
    "core::iter::traits::iterator::Iterator::step_by", "core::iter::traits::iterator::Iterator::flatten",
}
TRANSPARENT_LAST = {"iter", "as_ref", "as_slice", "as_str", "as_bytes", "deref", "borrow", "values", "keys"}


COMMUTATIVE = ("BitAnd", "BitOr", "BitXor", "Add", "Mul", "AddUnchecked", "MulUnchecked")
_TRIVIAL = {}


def _trivial_expr(fx, fid):
    """expression tree of a local function whose body is straight-line code without calls or branches (asserts allowed) and
    whose result is built from its by-value integer / bool parameters and constants with comparisons and arithmetic:
    ("p", n) | ("c", ty, value) | ("cast", tree, ty) | ("bin", op, tree, tree, ty).  None for everything else."""
    if fid in _TRIVIAL:
        return _TRIVIAL[fid]
    _TRIVIAL[fid] = None
    fn = fx.fns.get(fid)
    body = body_of(fn) if fn else None
    if body is None or body.n > 6 or fn.get("kind") not in ("Fn", "AssocFn"):
        return None
    for b in range(body.n):
        t = body.term(b)
        if t["k"] in ("call", "switch", "tailcall", "drop"):
            return None
    for l in range(1, body.argc + 1):
        if body.locals[l]["ty"] not in INT_TYPES and body.locals[l]["ty"] != "bool":
            return None

    def conv(op, depth=0):
        if depth > 8:
            return None
        c = op.get("const")
        if c is not None:
            v = c.get("val")
            if isinstance(v, bool):
                v = int(v)
            return ("c", c.get("ty"), v) if isinstance(v, int) else None
        pl = op_place(op)
        if pl is None:
            return None
        l = pl["l"]
        if not pl["p"] and 1 <= l <= body.argc:
            return ("p", l)
        sd = body.single_def(l)
        if sd is None or sd[2] != "assign":
            return None
        rv = sd[3]
        if pl["p"]:
            # `(tmp.0)` of a checked operation
            if len(pl["p"]) == 1 and isinstance(pl["p"][0], dict) and pl["p"][0].get("f") == "0" and rv["k"] in ("bin", "checked") and str(rv.get("op", "")).endswith("WithOverflow"):
                a_, b_ = conv(rv["a"], depth + 1), conv(rv["b"], depth + 1)
                return ("bin", rv["op"][:-len("WithOverflow")], a_, b_, rv.get("aty") or body.locals[l]["ty"]) if a_ and b_ else None
            return None
        if rv["k"] == "use":
            return conv(rv["a"], depth + 1)
        if rv["k"] == "cast" and rv.get("ck") == "IntToInt":
            x = conv(rv["a"], depth + 1)
            return ("cast", x, rv.get("to")) if x else None
        if rv["k"] == "bin" and not str(rv.get("op", "")).endswith("WithOverflow"):
            a_, b_ = conv(rv["a"], depth + 1), conv(rv["b"], depth + 1)
            op_ = str(rv["op"]).replace("Unchecked", "")
            return ("bin", op_, a_, b_, rv.get("aty") or body.locals[l]["ty"]) if a_ and b_ else None
        return None
    tree = conv({"copy": {"l": 0, "p": [], "ty": body.locals[0]["ty"]}})
    if tree is not None and tree[0] in ("p", "c"):
        tree = None          # identity / constant functions gain nothing
    _TRIVIAL[fid] = tree
    return tree


def _size_derived(prov):
    """roots are only constants, integer parameters, stream positions and box_start results, with at least one
    parameter or position (i.e. the value is a function of the enclosing box's size / the file length)"""
    if not prov:
        return False
    has = False
    for r in prov:
        if r == "C":
            continue
        if r == "POS" or (r.startswith("P") and r[1:].isdigit()) or r.endswith("::box_start") and r.startswith("CALL:"):
            has = True
            continue
        return False
    return has


def _vacuous(st, k):
    """state `st` lacks cell k; is k meaningless there because an enclosing enum is known to hold another variant?"""
    for i, p in enumerate(k):
        if isinstance(p, str) and p.startswith("as "):
            pref = k[:i]
            for f in st.facts:
                if f[0] == "variant" and f[1] == pref and f[2] != p[3:]:
                    return True
    return False


def _idiv(a, b):
    # truncating division like Rust
    q = abs(a) // abs(b)
    return q if (a >= 0) == (b >= 0) else -q


def _decide(op, alo, ahi, blo, bhi):
    if None in (alo, ahi, blo, bhi):
        return None
    if op == "Lt":
        return 1 if ahi < blo else (0 if alo >= bhi else None)
    if op == "Le":
        return 1 if ahi <= blo else (0 if alo > bhi else None)
    if op == "Gt":
        return 1 if alo > bhi else (0 if ahi <= blo else None)
    if op == "Ge":
        return 1 if alo >= bhi else (0 if ahi < blo else None)
    if op == "Eq":
        if alo == ahi == blo == bhi:
            return 1
        return 0 if (ahi < blo or alo > bhi) else None
    if op == "Ne":
        if alo == ahi == blo == bhi:
            return 0
        return 1 if (ahi < blo or alo > bhi) else None
    return None


def num_method_raw(decl):
    import re
    m = re.match(r"core::num::<impl (\w+)>::(\w+)$", decl or "")
    if m:
        return m.group(1), m.group(2)
    return None


def result_ok_ty(ty):
    if ty.startswith("core::result::Result<"):
        inner = ty[len("core::result::Result<"):]
        depth = 0
        for i, ch in enumerate(inner):
            if ch == "<":
                depth += 1
            elif ch == ">":
                depth -= 1
            elif ch == "," and depth == 0:
                return inner[:i]
    return None


def short_path(p):
    segs = strip_generics(p).split("::")
    return "::".join(segs[-2:])


